//! syn-based inventory of emitted bindings: extern functions / statics with their link names,
//! every named item per module (for duplicate detection), and a canonical "shape" text of types.
use syn::{ForeignItem, Item, ReturnType, Type};

#[derive(Debug, Clone)]
pub struct ExternFn {
    pub module: String,
    pub ident: String,
    pub link_name: Option<String>,
    pub abi: String,
    pub args: Vec<(String, Type)>,
    pub variadic: bool,
    /// None = no `-> T`
    pub ret: Option<Type>,
    pub block_unsafe: bool,
}

#[derive(Debug, Clone)]
pub struct ExternStatic {
    pub module: String,
    pub ident: String,
    pub link_name: Option<String>,
    pub mutable: bool,
    pub ty: Type,
}

#[derive(Debug, Default, Clone)]
pub struct Inventory {
    pub fns: Vec<ExternFn>,
    pub statics: Vec<ExternStatic>,
    /// (module path, namespace: "type" | "value" | "macro", name, item kind)
    pub names: Vec<(String, &'static str, String, &'static str)>,
    /// `pub type X = T;` items (all modules, by bare name)
    pub aliases: std::collections::BTreeMap<String, Type>,
}

/// The ELF symbol an extern item refers to: `\u{1}`-prefixed link names verbatim, other link
/// names and identifiers unchanged (ELF has no decoration).
pub fn elf_symbol(ident: &str, link_name: &Option<String>) -> String {
    match link_name {
        Some(l) => l.strip_prefix('\u{1}').unwrap_or(l).to_owned(),
        None => ident.to_owned(),
    }
}

fn link_name_of(attrs: &[syn::Attribute]) -> Option<String> {
    for a in attrs {
        if a.path().is_ident("link_name") {
            if let syn::Meta::NameValue(nv) = &a.meta {
                if let syn::Expr::Lit(syn::ExprLit { lit: syn::Lit::Str(s), .. }) = &nv.value {
                    return Some(s.value());
                }
            }
        }
    }
    None
}

fn walk(items: &[Item], module: &str, inv: &mut Inventory) {
    for it in items {
        match it {
            Item::ForeignMod(fm) => {
                let abi = fm.abi.name.as_ref().map(|n| n.value()).unwrap_or_else(|| "C".into());
                for fi in &fm.items {
                    match fi {
                        ForeignItem::Fn(f) => {
                            let mut args = vec![];
                            for a in &f.sig.inputs {
                                if let syn::FnArg::Typed(pt) = a {
                                    let n = match &*pt.pat {
                                        syn::Pat::Ident(pi) => pi.ident.to_string(),
                                        _ => "_".into(),
                                    };
                                    args.push((n, (*pt.ty).clone()));
                                }
                            }
                            inv.names.push((module.into(), "value", f.sig.ident.to_string(), "fn"));
                            inv.fns.push(ExternFn {
                                module: module.into(),
                                ident: f.sig.ident.to_string(),
                                link_name: link_name_of(&f.attrs),
                                abi: abi.clone(),
                                args,
                                variadic: f.sig.variadic.is_some(),
                                ret: match &f.sig.output {
                                    ReturnType::Default => None,
                                    ReturnType::Type(_, t) => Some((**t).clone()),
                                },
                                block_unsafe: fm.unsafety.is_some(),
                            });
                        }
                        ForeignItem::Static(s) => {
                            inv.names.push((module.into(), "value", s.ident.to_string(), "static"));
                            inv.statics.push(ExternStatic {
                                module: module.into(),
                                ident: s.ident.to_string(),
                                link_name: link_name_of(&s.attrs),
                                mutable: matches!(s.mutability, syn::StaticMutability::Mut(_)),
                                ty: (*s.ty).clone(),
                            });
                        }
                        _ => {}
                    }
                }
            }
            Item::Mod(m) => {
                inv.names.push((module.into(), "type", m.ident.to_string(), "mod"));
                if let Some((_, items)) = &m.content {
                    let sub = if module.is_empty() { m.ident.to_string() } else { format!("{module}::{}", m.ident) };
                    walk(items, &sub, inv);
                }
            }
            Item::Struct(s) => {
                inv.names.push((module.into(), "type", s.ident.to_string(), "struct"));
                if matches!(s.fields, syn::Fields::Unnamed(_) | syn::Fields::Unit) {
                    inv.names.push((module.into(), "value", s.ident.to_string(), "struct-ctor"));
                }
            }
            Item::Union(s) => inv.names.push((module.into(), "type", s.ident.to_string(), "union")),
            Item::Enum(s) => inv.names.push((module.into(), "type", s.ident.to_string(), "enum")),
            Item::Type(s) => {
                inv.names.push((module.into(), "type", s.ident.to_string(), "type"));
                inv.aliases.insert(s.ident.to_string(), (*s.ty).clone());
            }
            Item::Const(s) => inv.names.push((module.into(), "value", s.ident.to_string(), "const")),
            Item::Static(s) => inv.names.push((module.into(), "value", s.ident.to_string(), "static")),
            Item::Fn(s) => inv.names.push((module.into(), "value", s.sig.ident.to_string(), "fn")),
            Item::Trait(s) => inv.names.push((module.into(), "type", s.ident.to_string(), "trait")),
            _ => {}
        }
    }
}

pub fn inventory(src: &str) -> Result<Inventory, String> {
    let file: syn::File = syn::parse_str(src).map_err(|e| format!("syn: {e}"))?;
    let mut inv = Inventory::default();
    walk(&file.items, "", &mut inv);
    Ok(inv)
}

pub fn tokens(t: &Type) -> String {
    quote::ToTokens::to_token_stream(t).to_string()
}

fn path_text(p: &syn::Path) -> String {
    let mut s = String::new();
    if p.leading_colon.is_some() {
        s.push_str("::");
    }
    let segs: Vec<String> = p.segments.iter().map(|x| x.ident.to_string()).collect();
    s.push_str(&segs.join("::"));
    s
}

/// Canonical shape: `*c(T)`, `*m(T)`, `[T;n]`, `O<variadic>(R;T;T…)` (Option-wrapped extern fn
/// pointer; `U` = no return type, `N` = `!`), `V` = c_void, otherwise the path text in `<…>`.
pub fn shape(t: &Type) -> String {
    match t {
        Type::Ptr(p) => format!("*{}({})", if p.const_token.is_some() { "c" } else { "m" }, shape(&p.elem)),
        Type::Array(a) => {
            let n = quote::ToTokens::to_token_stream(&a.len).to_string();
            let n = n.trim_end_matches("usize").trim().to_owned();
            format!("[{};{}]", shape(&a.elem), n)
        }
        Type::Never(_) => "N".into(),
        Type::Tuple(t) if t.elems.is_empty() => "U".into(),
        Type::Paren(p) => shape(&p.elem),
        Type::Group(g) => shape(&g.elem),
        Type::Path(tp) => {
            let last = tp.path.segments.last().unwrap();
            if last.ident == "Option" {
                if let syn::PathArguments::AngleBracketed(ab) = &last.arguments {
                    if let Some(syn::GenericArgument::Type(Type::BareFn(bf))) = ab.args.first() {
                        return bare_fn_shape(bf);
                    }
                }
            }
            let txt = path_text(&tp.path);
            if txt.ends_with("c_void") { "V".into() } else { format!("<{txt}>") }
        }
        Type::BareFn(bf) => format!("bare:{}", bare_fn_shape(bf)),
        other => format!("?{}", quote::ToTokens::to_token_stream(other)),
    }
}

pub fn bare_fn_shape(bf: &syn::TypeBareFn) -> String {
    let mut s = format!("O{}(", if bf.variadic.is_some() { 1 } else { 0 });
    s.push_str(&match &bf.output {
        ReturnType::Default => "U".to_owned(),
        ReturnType::Type(_, t) => shape(t),
    });
    for a in &bf.inputs {
        s.push(';');
        s.push_str(&shape(&a.ty));
    }
    s.push(')');
    s
}

/// The extern fn type inside `Option<unsafe extern "C" fn(..) -> ..>`, if `t` is one.
pub fn option_fn(t: &Type) -> Option<&syn::TypeBareFn> {
    if let Type::Path(tp) = t {
        let last = tp.path.segments.last()?;
        if last.ident == "Option" {
            if let syn::PathArguments::AngleBracketed(ab) = &last.arguments {
                if let Some(syn::GenericArgument::Type(Type::BareFn(bf))) = ab.args.first() {
                    return Some(bf);
                }
            }
        }
    }
    None
}

impl Inventory {
    /// follow `pub type` aliases until something that is not a bare alias name
    pub fn resolve_alias<'a>(&'a self, mut t: &'a Type) -> &'a Type {
        for _ in 0..32 {
            match t {
                Type::Path(tp) if tp.qself.is_none() && tp.path.segments.len() == 1 => {
                    let n = tp.path.segments[0].ident.to_string();
                    match self.aliases.get(&n) {
                        Some(x) => t = x,
                        None => return t,
                    }
                }
                Type::Paren(p) => t = &p.elem,
                Type::Group(g) => t = &g.elem,
                _ => return t,
            }
        }
        t
    }
    /// pointee type of a (possibly aliased) raw pointer type
    pub fn pointee<'a>(&'a self, t: &'a Type) -> Option<&'a Type> {
        match self.resolve_alias(t) {
            Type::Ptr(p) => Some(&p.elem),
            _ => None,
        }
    }
}
