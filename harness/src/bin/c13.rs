//! C13 correspondence + oracle driver: Builder -> command_line_flags -> builder_from_flags -> flags', bindings.
//!
//! Every builder (b1 from Builder methods or from a CLI flag list, b2 from b1's flags) is constructed
//! and run in a CHILD process (`c13 --child <job>`), because clap exits the process on a parse error
//! and some options print to stdout.  The parent compares
//!   * real flags vs the model's `commandLineFlags`, real flags' vs the model's prediction,
//!     real parse outcome vs the model of clap                      (model-vs-implementation)
//!   * flags == flags' and bindings(b1) == bindings(b2) byte for byte (the property's oracle)
//! and classifies every oracle failure into a known region or reports it.
use bgverif::builder_ops::{apply, METHODS};
use bgverif::drive::Scratch;
use bgverif::rng::Rng;
use bgverif::util::{json_str, model, write, Args};
use std::collections::{BTreeMap, BTreeSet};
use std::path::{Path, PathBuf};
use std::sync::atomic::{AtomicUsize, Ordering};
use std::sync::Mutex;

const H_C: &str = r#"/** doc comment */
#define STR "hello"
#define BIG 0x100000000
#define NEG -3
typedef unsigned long size_t_alias;
typedef int myint;
enum color { RED, GREEN = 5, BLUE };
enum flags { F_A = 1, F_B = 2 };
struct pt { int x; int y; };
struct bf { unsigned a:3; unsigned b:5; long c; float f; double d[2]; };
struct fam { int n; short d[]; };
union u { int i; float f; struct pt p; };
struct outer { struct { int a; } inner; union { int b; char c; }; struct pt *next; void (*cb)(int, struct pt); };
struct big { char data[40]; int arr[3][4]; };
extern int gvar;
extern const char *const names[3];
int f_plain(int a, char b, unsigned long c);
void f_arr(int a[4], const struct pt *p);
myint f_alias(size_t_alias n, enum color c, union u *u);
static inline int f_inline(int x) { return x + 1; }
void f_noreturn(void) __attribute__((noreturn));
int f_mustuse(void) __attribute__((warn_unused_result));
long double f_ld(long double x);
"#;

const H_CPP: &str = r#"namespace ns { namespace inner { struct in_ns { int v; }; } inline namespace v1 { int in_inline; } }
class Base { public: virtual ~Base(); virtual void vf(int) = 0; int pub_field; protected: int prot; private: int priv; void priv_fn(); };
class Derived : public Base { public: Derived(int); Derived(const Derived&) = delete; void vf(int) override; static int s_count; bool operator==(const Derived&) const; Derived& operator+=(int); };
template <typename T> struct Tmpl { T value; T* ptr; };
typedef Tmpl<int> TmplInt;
struct UsesRef { int& r; const Base& b; };
enum class Scoped : unsigned char { A, B };
void takes_ref(int& x, const ns::inner::in_ns& y);
char16_t c16(char16_t);
TmplInt get_tmpl();
"#;

fn hx(s: &str) -> String {
    let mut o = String::from("x");
    for b in s.bytes() { o.push_str(&format!("{b:02x}")); }
    o
}
fn unhx(s: &str) -> Option<String> {
    let h = s.strip_prefix('x')?;
    let mut v = vec![];
    let b = h.as_bytes();
    if b.len() % 2 != 0 { return None; }
    for i in (0..b.len()).step_by(2) { v.push(u8::from_str_radix(std::str::from_utf8(&b[i..i + 2]).ok()?, 16).ok()?); }
    String::from_utf8(v).ok()
}
fn hx_list(l: &[String]) -> String { if l.is_empty() { "-".into() } else { l.iter().map(|s| hx(s)).collect::<Vec<_>>().join(",") } }
fn unhx_list(s: &str) -> Vec<String> { if s == "-" { vec![] } else { s.split(',').filter_map(unhx).collect() } }

#[derive(Clone, Debug)]
struct Op { m: String, a: Vec<String> }

#[derive(Clone, Debug)]
struct Case { class: String, cpp: bool, start: Option<Vec<String>>, ops: Vec<Op> }

// ------------------------------------------------------------------ child

fn child(job: &Path) -> ! {
    let text = std::fs::read_to_string(job).expect("job file");
    let mut mode = String::new();
    let mut out = PathBuf::new();
    let mut ops: Vec<Op> = vec![];
    let mut flags: Vec<String> = vec![];
    for l in text.lines() {
        let t: Vec<&str> = l.split(' ').collect();
        match t[0] {
            "mode" => mode = t[1].to_owned(),
            "out" => out = PathBuf::from(unhx(t[1]).unwrap()),
            "op" => ops.push(Op { m: t[1].to_owned(), a: t[2..].iter().filter_map(|x| unhx(x)).collect() }),
            "flag" => flags.push(unhx(t[1]).unwrap()),
            _ => {}
        }
    }
    let builder = if mode == "flags" || !flags.is_empty() {
        let args = std::iter::once("bindgen".to_owned()).chain(flags.iter().cloned());
        match bindgen::builder_from_flags(args) {      // clap exits with status 2 on a parse error
            Ok((b, _out, _v)) => b,
            Err(e) => { std::fs::write(out.with_extension("builderr"), e.to_string()).ok(); std::process::exit(3) }
        }
    } else {
        bindgen::Builder::default()
    };
    let mut b = builder;
    for op in &ops {
        b = match apply(b, &op.m, &op.a) {
            Ok(b) => b,
            Err(e) => { std::fs::write(out.with_extension("operr"), e).ok(); std::process::exit(4) }
        };
    }
    let fl = b.command_line_flags();
    std::fs::write(out.with_extension("flags"), fl.iter().map(|s| hx(s)).collect::<Vec<_>>().join("\n")).unwrap();
    std::panic::set_hook(Box::new(|_| {}));
    let r = std::panic::catch_unwind(std::panic::AssertUnwindSafe(|| b.generate().map(|x| x.to_string()).map_err(|e| format!("{e:?}"))));
    match r {
        Ok(Ok(s)) => { std::fs::write(out.with_extension("rs"), s).unwrap(); std::process::exit(0) }
        Ok(Err(e)) => { std::fs::write(out.with_extension("generr"), e).unwrap(); std::process::exit(0) }
        Err(_) => { std::fs::write(out.with_extension("panic"), "panic").unwrap(); std::process::exit(0) }
    }
}

struct ChildOut { rc: i32, flags: Option<Vec<String>>, bindings: Option<String>, generr: Option<String>, panicked: bool, stderr: String }

fn run_child(dir: &Path, tag: &str, start: Option<&[String]>, ops: &[Op]) -> ChildOut {
    let out = dir.join(tag);
    let mut job = format!("mode {}\nout {}\n", if start.is_some() { "flags" } else { "ops" }, hx(&out.to_string_lossy()));
    if let Some(fl) = start { for f in fl { job.push_str(&format!("flag {}\n", hx(f))); } }
    for op in ops { job.push_str(&format!("op {} {}\n", op.m, op.a.iter().map(|s| hx(s)).collect::<Vec<_>>().join(" "))); }
    let jf = dir.join(format!("{tag}.job"));
    std::fs::write(&jf, job).unwrap();
    let exe = std::env::current_exe().unwrap();
    let o = std::process::Command::new(exe).arg("--child").arg(&jf).current_dir(dir)
        .env_remove("BINDGEN_EXTRA_CLANG_ARGS").stdin(std::process::Stdio::null()).output();
    let (rc, stderr) = match o { Ok(o) => (o.status.code().unwrap_or(-1), String::from_utf8_lossy(&o.stderr).into_owned()), Err(e) => (-1, e.to_string()) };
    let rd = |ext: &str| std::fs::read_to_string(out.with_extension(ext)).ok();
    ChildOut { rc, flags: rd("flags").map(|s| s.lines().filter_map(unhx).collect()), bindings: rd("rs"), generr: rd("generr"), panicked: rd("panic").is_some(), stderr }
}

// ------------------------------------------------------------------ canonicalisation

/// hash-map ordered segments (`--module-raw-line k v`, `--override-abi item=abi`) sorted by key, stable
fn canon_flags(fl: &[String]) -> Vec<String> {
    let mut out: Vec<String> = vec![];
    let mut i = 0;
    while i < fl.len() {
        if fl[i] == "--" { out.extend(fl[i..].iter().cloned()); break; }
        if fl[i] == "--module-raw-line" && i + 2 < fl.len() {
            let mut g: Vec<(String, String)> = vec![];
            while i + 2 < fl.len() && fl[i] == "--module-raw-line" { g.push((fl[i + 1].clone(), fl[i + 2].clone())); i += 3; }
            g.sort_by(|a, b| a.0.cmp(&b.0));
            for (k, v) in g { out.push("--module-raw-line".into()); out.push(k); out.push(v); }
        } else if fl[i] == "--override-abi" && i + 1 < fl.len() {
            let mut g: Vec<(String, String)> = vec![];
            while i + 1 < fl.len() && fl[i] == "--override-abi" {
                let v = &fl[i + 1];
                let abi = v.rsplit_once('=').map_or("", |x| x.1).to_owned();
                g.push((abi, v.clone())); i += 2;
            }
            g.sort_by(|a, b| a.0.cmp(&b.0));
            for (_, v) in g { out.push("--override-abi".into()); out.push(v); }
        } else { out.push(fl[i].clone()); i += 1; }
    }
    out
}

// ------------------------------------------------------------------ regions of known findings (decidable on the case)

fn value_args(op: &Op) -> Vec<&String> {
    // arguments that end up as flag VALUES on the command line
    match op.m.as_str() {
        "header" | "headers" | "clang_arg" | "clang_args" | "header_contents" | "with_rustfmt" | "parse_callbacks" => vec![],
        "depfile" => vec![&op.a[1]],
        _ => op.a.iter().collect(),
    }
}
fn leading_dash(s: &str) -> bool { s.starts_with('-') && s != "-" }

fn regions(c: &Case) -> BTreeSet<&'static str> {
    let mut r = BTreeSet::new();
    let kind_of: BTreeMap<&str, &str> = METHODS.iter().map(|m| (m.0, m.2)).collect();
    let mut fmt_cfg = false;
    let mut formatter = "rustfmt".to_string();
    let mut modules = BTreeSet::new();
    let mut abis = BTreeSet::new();
    let mut headers = 0;
    let mut clang = 0;
    for op in &c.ops {
        let k = kind_of.get(op.m.as_str()).copied().unwrap_or("");
        match op.m.as_str() {
            "type_alias" => { r.insert("type_alias_flag"); }
            "header_contents" | "with_rustfmt" | "parse_callbacks" => { r.insert("not_expressible"); }
            "with_codegen_config" => if op.a[0].is_empty() { r.insert("empty_codegen_config"); },
            "rustfmt_configuration_file" => if op.a[0] != "@none" {
                fmt_cfg = true; formatter = "rustfmt".into();
                if !op.a[0].starts_with('/') { r.insert("relative_rustfmt_path"); }
            } else { formatter = "rustfmt".into(); fmt_cfg = false; },
            "formatter" => formatter = op.a[0].clone(),
            "rustfmt_bindings" => formatter = if op.a[0] == "true" { "rustfmt".into() } else { "none".into() },
            "module_raw_line" => { modules.insert(op.a[0].clone()); }
            "override_abi" => { abis.insert(op.a[0].clone()); }
            "field_attribute" => {
                if op.a[0].contains('=') || op.a[1].contains('=') || op.a[1].contains(':') { r.insert("field_attr_codec"); }
                if proc_macro2_ok(&op.a[2]).is_err() { r.insert("field_attr_codec"); }
            }
            "header" => headers += 1,
            "headers" => headers += op.a.len(),
            "clang_arg" => clang += 1,
            "clang_args" => clang += op.a.len(),
            _ => {}
        }
        if k != "bool" && k != "unit" {
            let vals = value_args(op);
            // the first value of a two-value option that begins with `-`, or any value
            if vals.iter().any(|v| leading_dash(v)) && !matches!(op.m.as_str(), "rustfmt_configuration_file") { r.insert("leading_dash"); }
        }
    }
    if fmt_cfg && formatter != "rustfmt" { r.insert("formatter_override"); }
    if modules.len() > 1 || abis.len() > 1 { r.insert("hash_order"); }
    if headers == 0 && c.start.is_none() { r.insert("no_header"); let _ = clang; }
    if let Some(s) = &c.start {
        if s.iter().any(|f| f == "--prefix-link-name" || f.starts_with("--prefix-link-name=")) { r.insert("prefix_link_name_lost"); }
        if s.iter().any(|f| f == "--normal-alias" || f.starts_with("--normal-alias=")) { r.insert("type_alias_flag"); }
    }
    r
}

fn proc_macro2_ok(s: &str) -> Result<(), ()> {
    use std::str::FromStr;
    proc_macro2::TokenStream::from_str(s).map(|_| ()).map_err(|_| ())
}

// ------------------------------------------------------------------ generators

fn hostile_strings() -> Vec<&'static str> {
    vec!["foo", "f.*", "pt|bf", "a b", "it's", "q\"uote", "a=b", "-lead", "--raw-line", "-", "a::b", "", "é√", " , ", "x,y", "[a-z]+", "back\\slash", "$HOME `x`", "tab\there", "#[attr]", "=", "::", "a-b"]
}

fn string_values(method: &str, dir: &Path) -> Vec<Vec<String>> {
    let d = dir.to_string_lossy();
    let v = |xs: &[&str]| xs.iter().map(|s| vec![s.to_string()]).collect::<Vec<_>>();
    match method {
        "header" => vec![],
        "clang_arg" => v(&["-DFOO=1", "-Wno-everything", "-I.", "-DX=\"a b\""]),
        "emit_ir_graphviz" => vec![vec![format!("{d}/ir.dot")], vec![format!("{d}/ir with space.dot")]],
        "wrap_static_fns_path" => vec![vec![format!("{d}/wrap")], vec![format!("{d}/wrap dir/w")], vec!["-w".into()]],
        "clang_macro_fallback_build_dir" => vec![vec![format!("{d}")], vec!["-d".into()]],
        "with_rustfmt" => vec![vec!["/nonexistent/rustfmt".into()]],
        "ctypes_prefix" => v(&["libc", "::core::ffi", "cty", "-p", ""]),
        "anon_fields_prefix" => v(&["__bindgen_anon_", "anon", "a b", "-x", ""]),
        "wasm_import_module_name" => v(&["mod", "a b", "q\"x", "-m"]),
        "dynamic_library_name" => v(&["Lib", "my lib", "-L", ""]),
        "wrap_static_fns_suffix" => v(&["__extern", "_w", "-s", "a b", ""]),
        "extern_fn_block_attrs" => v(&["#[allow(dead_code)]", "#[link(name = \"x\")]", "-a"]),
        "raw_line" => v(&["// hi", "pub const X: u8 = 1;", "-- x", "use a::b;", "", "let s = \"q\";"]),
        _ => hostile_strings().iter().map(|s| vec![s.to_string()]).collect(),
    }
}

fn enum_values(method: &str) -> Vec<&'static str> {
    match method {
        "default_enum_style" => vec!["rust", "rust_non_exhaustive", "bitfield", "consts", "moduleconsts", "newtype", "newtype_global"],
        "default_macro_constant_type" => vec!["signed", "unsigned"],
        "default_alias_style" => vec!["type_alias", "new_type", "new_type_deref"],
        "default_non_copy_union_style" => vec!["bindgen_wrapper", "manually_drop"],
        "default_visibility" => vec!["private", "crate", "public"],
        "formatter" => vec!["none", "rustfmt", "prettyplease"],
        "rust_target" => vec!["1.51", "1.64.0", "1.77.2", "1.82", "1.90", "nightly", "1.80-nightly"],
        "rust_edition" => vec!["2018", "2021"],
        _ => vec![],
    }
}

/// every enumerated argument tuple of a method (exhaustive for bool/unit/enum, a fixed hostile set for strings)
fn values_of(method: &str, kind: &str, dir: &Path) -> Vec<Vec<String>> {
    let d = dir.to_string_lossy();
    match kind {
        "bool" => vec![vec!["true".into()], vec!["false".into()]],
        "unit" => vec![vec![]],
        "enum" => enum_values(method).iter().map(|s| vec![s.to_string()]).collect(),
        "string" => string_values(method, dir),
        "codegen" => ["functions,types,vars,methods,constructors,destructors", "types", "functions,vars", "types,methods,constructors", "vars,destructors", ""]
            .iter().map(|s| vec![s.to_string()]).collect(),
        "optpath" => vec![vec![format!("{d}/rustfmt.toml")], vec!["rustfmt.toml".into()], vec!["@none".into()]],
        "abi+string" => vec![vec!["C-unwind".into(), "f_.*".into()], vec!["efiapi".into(), "f_plain".into()], vec!["system".into(), "a=b".into()], vec!["stdcall".into(), "-f".into()]],
        "string2" => match method {
            "depfile" => vec![vec!["out_mod".into(), format!("{d}/dep.d")], vec!["o m".into(), format!("{d}/dep 2.d")]],
            "module_raw_line" => vec![vec!["root".into(), "pub const M: u8 = 2;".into()], vec!["root::ns".into(), "// in ns".into()], vec!["-m".into(), "x".into()], vec!["root".into(), "-- line".into()]],
            "header_contents" => vec![vec!["virtual.h".into(), "int from_contents;".into()]],
            _ => vec![],
        },
        "string3" => vec![
            vec!["pt".into(), "x".into(), "#[serde(default)]".into()], vec!["p.*".into(), "y".into(), "#[cfg(test)]".into()],
            vec!["a=b".into(), "x".into(), "#[a]".into()], vec!["ns::pt".into(), "x".into(), "#[a = \"b\"]".into()], vec!["pt".into(), "a:b".into(), "#[a]".into()],
            vec!["pt".into(), "x".into(), "-a".into()],
        ],
        "strings" => vec![],
        "callback" => vec![vec![]],
        _ => vec![],
    }
}

fn header_op(dir: &Path, cpp: bool) -> Vec<Op> {
    let mut v = vec![Op { m: "header".into(), a: vec![dir.join(if cpp { "t.hpp" } else { "t.h" }).to_string_lossy().into_owned()] }];
    if cpp { v.push(Op { m: "clang_args".into(), a: vec!["-x".into(), "c++".into(), "-std=c++14".into()] }); }
    v
}

// ------------------------------------------------------------------ main

fn par_map<T: Sync, R: Send>(items: &[T], threads: usize, f: impl Fn(usize, &T) -> R + Sync) -> Vec<R> {
    let next = AtomicUsize::new(0);
    let out: Mutex<Vec<(usize, R)>> = Mutex::new(Vec::with_capacity(items.len()));
    std::thread::scope(|s| {
        for _ in 0..threads {
            s.spawn(|| loop {
                let i = next.fetch_add(1, Ordering::SeqCst);
                if i >= items.len() { break; }
                let r = f(i, &items[i]);
                out.lock().unwrap().push((i, r));
            });
        }
    });
    let mut v = out.into_inner().unwrap();
    v.sort_by_key(|x| x.0);
    v.into_iter().map(|x| x.1).collect()
}

fn kvget<'a>(line: &'a str, key: &str) -> Option<&'a str> {
    line.split(' ').find_map(|t| t.strip_prefix(key).and_then(|r| r.strip_prefix('=')))
}

/// op argument as the model must see it (the real `to_string()` of parsed enum-like values)
fn model_arg(m: &str, i: usize, a: &str) -> String {
    use std::str::FromStr;
    match (m, i) {
        ("rust_target", 0) => bindgen::RustTarget::from_str(a).map(|t| t.to_string()).unwrap_or_else(|_| a.to_owned()),
        ("with_codegen_config", 0) => a.to_owned(),
        _ => a.to_owned(),
    }
}

fn main() {
    let argv: Vec<String> = std::env::args().collect();
    if argv.len() >= 3 && argv[1] == "--child" { child(Path::new(&argv[2])); }
    if argv.len() >= 2 && argv[1] == "--list-methods" {
        for m in METHODS { println!("{} {} {}", m.0, m.1, m.2); }
        return;
    }
    let args = Args::parse();
    let thorough = args.thorough();
    let mut rng = Rng::new(args.seed);
    let scratch = Scratch::new("c13");
    let dir = scratch.0.clone();
    std::fs::write(dir.join("t.h"), H_C).unwrap();
    std::fs::write(dir.join("t.hpp"), H_CPP).unwrap();
    std::fs::write(dir.join("rustfmt.toml"), "max_width = 80\n").unwrap();
    std::fs::create_dir_all(dir.join("wrap dir")).ok();
    let threads = std::thread::available_parallelism().map(|n| n.get()).unwrap_or(4).min(16);

    // environment constants of the real crate for the model
    let env = {
        let e: Vec<(&str, String)> = vec![
            ("default_enum_style", bindgen::EnumVariation::default().to_string()),
            ("default_macro_constant_type", bindgen::MacroTypeVariation::default().to_string()),
            ("default_alias_style", bindgen::AliasVariation::default().to_string()),
            ("default_non_copy_union_style", bindgen::NonCopyUnionStyle::default().to_string()),
            ("default_visibility", bindgen::FieldVisibilityKind::default().to_string()),
            ("formatter", bindgen::Formatter::default().to_string()),
            ("anon_fields_prefix", bindgen::DEFAULT_ANON_FIELDS_PREFIX.to_string()),
            ("rust_target", bindgen::RustTarget::default().to_string()),
        ];
        e.iter().map(|(k, v)| format!("{k}:{}", hx(v))).collect::<Vec<_>>().join(",")
    };

    // ---- cases
    let mut cases: Vec<Case> = vec![];
    let mut unsettable: Vec<String> = vec![];
    // (1) every method in isolation over its enumerated values, on the C and the C++ header
    for (m, _field, kind) in METHODS {
        if *m == "header" || *m == "headers" || *m == "clang_args" { continue; }
        let mut vals = values_of(m, kind, &dir);
        if vals.is_empty() { unsettable.push(format!("{m}: no enumerated values for kind {kind}")); continue; }
        if !thorough && vals.len() > 8 {
            // quick tier: "foo", a regex, a leading dash and 5 seed-dependent hostile strings; thorough: all
            let mut keep: Vec<Vec<String>> = vec![vals[0].clone(), vals[1].clone(), vals[7].clone()];
            for _ in 0..5 { keep.push(vals[2 + rng.below(vals.len() as u64 - 2) as usize].clone()); }
            keep.dedup();
            vals = keep;
        }
        for (vi, a) in vals.into_iter().enumerate() {
            for cpp in [false, true] {
                // quick tier: the C++ header only for the first two values of string-like methods
                if cpp && !thorough && *kind != "bool" && *kind != "unit" && *kind != "enum" && vi >= 2 { continue; }
                let mut ops = header_op(&dir, cpp);
                ops.push(Op { m: m.to_string(), a: a.clone() });
                cases.push(Case { class: format!("single:{m}"), cpp, start: None, ops });
            }
        }
    }
    // several headers / clang args
    cases.push(Case { class: "single:headers".into(), cpp: false, start: None, ops: vec![
        Op { m: "headers".into(), a: vec![dir.join("t.h").to_string_lossy().into_owned()] },
        Op { m: "header_contents".into(), a: vec!["extra.h".into(), "int extra;".into()] }] });
    {
        std::fs::write(dir.join("first.h"), "int first_header;\n").unwrap();
        cases.push(Case { class: "single:two_headers".into(), cpp: false, start: None, ops: vec![
            Op { m: "header".into(), a: vec![dir.join("first.h").to_string_lossy().into_owned()] },
            Op { m: "header".into(), a: vec![dir.join("t.h").to_string_lossy().into_owned()] },
            Op { m: "clang_arg".into(), a: vec!["-DTWO".into()] }] });
    }
    // three and four headers whose meaning depends on the order they are included in
    {
        std::fs::write(dir.join("cfg_a.h"), "#define C13_CFG 1\nint cfg_a_marker;\n").unwrap();
        std::fs::write(dir.join("cfg_b.h"), "#ifdef C13_CFG\ntypedef long c13_sel_t;\n#else\ntypedef char c13_sel_t;\n#endif\n#undef C13_CFG\n#define C13_B 1\n").unwrap();
        std::fs::write(dir.join("cfg_c.h"), "#if defined(C13_B) && !defined(C13_CFG)\nstruct c13_late { c13_sel_t v; };\n#else\nstruct c13_early { int v; };\n#endif\n").unwrap();
        let h = |n: &str| Op { m: "header".into(), a: vec![dir.join(n).to_string_lossy().into_owned()] };
        cases.push(Case { class: "single:three_headers".into(), cpp: false, start: None, ops: vec![h("cfg_a.h"), h("cfg_b.h"), h("cfg_c.h")] });
        cases.push(Case { class: "single:four_headers".into(), cpp: false, start: None, ops: vec![h("cfg_a.h"), h("cfg_b.h"), h("cfg_c.h"), h("t.h"),
            Op { m: "clang_arg".into(), a: vec!["-DFOUR".into()] }] });
        // a user `-include` among the clang arguments: `generate` puts user arguments before the `-include`s of the
        // non-last headers, the flag list must reproduce that order
        cases.push(Case { class: "single:user_include_then_headers".into(), cpp: false, start: None, ops: vec![h("cfg_b.h"), h("cfg_c.h"),
            Op { m: "clang_args".into(), a: vec!["-include".into(), dir.join("cfg_a.h").to_string_lossy().into_owned()] }] });
        cases.push(Case { class: "single:headers_then_user_include".into(), cpp: false, start: None, ops: vec![
            Op { m: "clang_arg".into(), a: vec!["-include".into()] }, Op { m: "clang_arg".into(), a: vec![dir.join("cfg_a.h").to_string_lossy().into_owned()] }, h("cfg_b.h"), h("cfg_c.h"), h("t.h")] });
        cases.push(Case { class: "single:headers_list3".into(), cpp: false, start: None, ops: vec![
            Op { m: "headers".into(), a: vec![dir.join("cfg_a.h").to_string_lossy().into_owned(), dir.join("cfg_b.h").to_string_lossy().into_owned(), dir.join("cfg_c.h").to_string_lossy().into_owned()] }] });
    }
    // several headers with the clang macro fallback: a macro of the last header that only the fallback can evaluate
    // (it goes through a function-like macro) and that needs an earlier header — which the flag-parsed builder carries
    // as a `-include` clang argument, not as an input header
    {
        std::fs::write(dir.join("fl_a.h"), "#define C13_FL(x) (1u << (x))\nint fl_a_marker;\n").unwrap();
        std::fs::write(dir.join("fl_b.h"), "#define C13_FLAG_READ C13_FL(2)\n#define C13_FLAG_WRITE (C13_FL(3) | C13_FLAG_READ)\nint fl_b_marker;\n").unwrap();
        let h = |n: &str| Op { m: "header".into(), a: vec![dir.join(n).to_string_lossy().into_owned()] };
        let fb = |d: &str| vec![Op { m: "clang_macro_fallback".into(), a: vec![] }, Op { m: "clang_macro_fallback_build_dir".into(), a: vec![dir.join(d).to_string_lossy().into_owned()] }];
        for (k, ops) in [vec![h("fl_a.h"), h("fl_b.h")], vec![h("fl_a.h"), h("t.h"), h("fl_b.h")]].into_iter().enumerate() {
            let d = format!("fbdir{k}");
            std::fs::create_dir_all(dir.join(&d)).unwrap();
            let mut all = ops.clone();
            all.extend(fb(&d));
            cases.push(Case { class: format!("single:macro_fallback_headers{k}"), cpp: false, start: None, ops: all });
        }
    }
    // (2) pairs of boolean-ish methods
    let boolish: Vec<(&str, &str)> = METHODS.iter().filter(|m| m.2 == "bool" || m.2 == "unit").map(|m| (m.0, m.2))
        .filter(|m| !matches!(m.0, "emit_clang_ast" | "emit_ir")).collect();
    let mut pairs = vec![];
    for i in 0..boolish.len() { for j in 0..boolish.len() { if i != j { pairs.push((i, j)); } } }
    let npairs = if thorough { 2800 } else { 200 };
    // deterministic shuffle
    for i in (1..pairs.len()).rev() { let j = rng.below(i as u64 + 1) as usize; pairs.swap(i, j); }
    for (k, (i, j)) in pairs.iter().take(npairs).enumerate() {
        let val = |kind: &str, bit: bool| if kind == "unit" { vec![] } else { vec![if bit { "true".into() } else { "false".to_string() }] };
        // ordered pair (i then j): covers "both true" and, by the order bit, true/false mixes
        let (bi, bj) = if thorough { (true, true) } else { (k % 3 != 2, k % 3 != 1) };
        let cpp = k % 2 == 1;
        let mut ops = header_op(&dir, cpp);
        ops.push(Op { m: boolish[*i].0.into(), a: val(boolish[*i].1, bi) });
        ops.push(Op { m: boolish[*j].0.into(), a: val(boolish[*j].1, bj) });
        cases.push(Case { class: "pair".into(), cpp, start: None, ops });
    }
    // (3) random configurations of <= 25 options with hostile strings
    let nrand = if thorough { 2500 } else { 150 };
    let pool: Vec<&(&str, &str, &str)> = METHODS.iter().filter(|m| !matches!(m.0, "header" | "headers" | "clang_args" | "emit_ir" | "emit_clang_ast" | "time_phases" | "parse_callbacks" | "header_contents" | "with_rustfmt" | "depfile" | "emit_ir_graphviz")).collect();
    for k in 0..nrand {
        let cpp = rng.chance(1, 3);
        let mut ops = header_op(&dir, cpp);
        let n = rng.range(1, 25);
        // one in four random cases is "benign": no leading dashes / known-bad methods, so that the
        // full pipeline (flags == flags', identical bindings) is exercised on big configurations
        let benign = k % 4 != 0;
        for _ in 0..n {
            let m = pool[rng.below(pool.len() as u64) as usize];
            let vals = values_of(m.0, m.2, &dir);
            if vals.is_empty() { continue; }
            let a = vals[rng.below(vals.len() as u64) as usize].clone();
            let op = Op { m: m.0.into(), a };
            if benign {
                if value_args(&op).iter().any(|v| leading_dash(v)) && m.2 != "bool" { continue; }
                if matches!(m.0, "type_alias") { continue; }
                if m.0 == "with_codegen_config" && op.a[0].is_empty() { continue; }
                if m.0 == "rustfmt_configuration_file" && op.a[0] == "rustfmt.toml" { continue; }
                if m.0 == "field_attribute" && (op.a[0].contains('=') || op.a[1].contains(':')) { continue; }
            }
            ops.push(op);
        }
        cases.push(Case { class: if benign { "random-benign".into() } else { "random-hostile".into() }, cpp, start: None, ops });
    }
    // (2b) hand-picked sequences around the fields written by more than one method / arm
    {
        let cfg = dir.join("rustfmt.toml").to_string_lossy().into_owned();
        let seqs: Vec<Vec<(&str, Vec<String>)>> = vec![
            vec![("rustfmt_configuration_file", vec![cfg.clone()]), ("formatter", vec!["none".into()])],
            vec![("rustfmt_configuration_file", vec![cfg.clone()]), ("formatter", vec!["prettyplease".into()])],
            vec![("formatter", vec!["none".into()]), ("rustfmt_configuration_file", vec![cfg.clone()])],
            vec![("rustfmt_configuration_file", vec![cfg.clone()]), ("rustfmt_bindings", vec!["false".into()])],
            vec![("rustfmt_configuration_file", vec!["@none".into()]), ("formatter", vec!["none".into()])],
            vec![("derive_ord", vec!["true".into()]), ("derive_partialord", vec!["false".into()])],
            vec![("derive_partialord", vec!["false".into()]), ("derive_ord", vec!["true".into()])],
            vec![("derive_ord", vec!["true".into()]), ("derive_ord", vec!["false".into()])],
            vec![("derive_eq", vec!["true".into()]), ("derive_partialeq", vec!["false".into()])],
            vec![("derive_partialeq", vec!["true".into()]), ("derive_eq", vec!["true".into()]), ("derive_hash", vec!["true".into()])],
            vec![("derive_eq", vec!["true".into()]), ("derive_eq", vec!["false".into()])],
            vec![("derive_default", vec!["true".into()]), ("derive_default", vec!["false".into()])],
            vec![("ignore_functions", vec![]), ("with_codegen_config", vec!["functions,types".into()])],
            vec![("with_codegen_config", vec!["functions,types,methods".into()]), ("ignore_functions", vec![]), ("ignore_methods", vec![])],
            vec![("ignore_methods", vec![]), ("ignore_functions", vec![])],
            vec![("wasm_import_module_name", vec!["m1".into()]), ("extern_fn_block_attrs", vec!["#[allow(dead_code)]".into()]), ("wasm_import_module_name", vec!["m2".into()])],
            vec![("blocklist_type", vec!["pt".into()]), ("blocklist_type", vec!["bf".into()]), ("blocklist_type", vec!["pt".into()])],
            vec![("raw_line", vec!["// a".into()]), ("raw_line", vec!["// b".into()]), ("raw_line", vec!["// a".into()])],
            vec![("layout_tests", vec!["false".into()]), ("layout_tests", vec!["true".into()])],
        ];
        for (k, sq) in seqs.into_iter().enumerate() {
            for cpp in [false, true] {
                let mut ops = header_op(&dir, cpp);
                for (m, a) in &sq { ops.push(Op { m: m.to_string(), a: a.clone() }); }
                cases.push(Case { class: format!("sequence:{k}"), cpp, start: None, ops });
            }
        }
    }
    // (3b) hash-map ordered options with many keys: does the second flag list come out in another order?
    for k in 0..(if thorough { 120 } else { 12 }) {
        let mut ops = header_op(&dir, false);
        let n = rng.range(3, 14);
        for _ in 0..n {
            if k % 2 == 0 {
                ops.push(Op { m: "module_raw_line".into(), a: vec![format!("root::m{}", rng.below(40)), format!("// line {}", rng.below(1000))] });
            } else {
                let abis = ["C", "stdcall", "efiapi", "fastcall", "aapcs", "win64", "C-unwind", "system"];
                ops.push(Op { m: "override_abi".into(), a: vec![abis[rng.below(abis.len() as u64) as usize].into(), format!("fn_{}", rng.below(50))] });
            }
        }
        cases.push(Case { class: "hash-order".into(), cpp: false, start: None, ops });
    }
    // (4) CLI-origin configurations (callbacks that only the CLI can create, aliases, `=` forms)
    let th = dir.join("t.h").to_string_lossy().into_owned();
    for fl in [
        vec!["--with-derive-custom", "pt=Hash,PartialOrd"], vec!["--with-derive-custom-struct", "p.*=serde::Serialize"],
        vec!["--with-derive-custom-enum", "color=Hash"], vec!["--with-derive-custom-union", "u=Clone"],
        vec!["--with-attribute-custom", "pt=#[cfg(all())],#[allow(dead_code)]"], vec!["--with-attribute-custom-struct", "bf=#[cfg_attr(test, derive(PartialEq, Eq))]"],
        vec!["--with-attribute-custom-enum", "color=#[must_use]"], vec!["--with-attribute-custom-union", "u=#[doc = \"a=b\"]"],
        vec!["--prefix-link-name", "pre_"], vec!["--no-rustfmt-bindings"], vec!["--normal-alias", "myint"], vec!["--raw-line=// eq form"],
        vec!["--with-derive-custom", "a=b=Hash"], vec!["--generate", "types,vars"], vec!["--ignore-functions"], vec!["--ignore-methods", "--ignore-functions"],
        vec!["--wasm-import-module-name", "wmod"], vec!["--no-derive-default"], vec!["--with-derive-ord"], vec!["--with-derive-eq", "--with-derive-hash"],
    ] {
        let mut start = vec![th.clone()];
        start.extend(fl.iter().map(|s| s.to_string()));
        cases.push(Case { class: format!("cli-origin:{}", fl[0]), cpp: false, start: Some(start), ops: vec![] });
    }

    // ---- run
    struct Res { c1: ChildOut, c2: Option<ChildOut> }
    let results: Vec<Res> = par_map(&cases, threads, |i, c| {
        let d = dir.join(format!("case{i}"));
        std::fs::create_dir_all(&d).unwrap();
        for f in ["t.h", "t.hpp", "rustfmt.toml", "first.h"] { let _ = std::fs::copy(dir.join(f), d.join(f)); }
        let c1 = run_child(&d, "b1", c.start.as_deref(), &c.ops);
        let c2 = c1.flags.as_ref().map(|fl| run_child(&d, "b2", Some(fl), &[]));
        let r = Res { c1, c2 };
        let _ = std::fs::remove_dir_all(&d);
        r
    });

    // ---- model
    let reqs: Vec<String> = cases.iter().map(|c| {
        let ops = if c.ops.is_empty() { "-".to_string() } else {
            c.ops.iter().flat_map(|op| {
                // `headers` / `clang_args` take a list: one model op per element
                if op.m == "headers" { op.a.iter().map(|h| format!("headers~{}", hx(h))).collect::<Vec<_>>() }
                else if op.m == "clang_args" { op.a.iter().map(|h| format!("clang_args~{}", hx(h))).collect::<Vec<_>>() }
                else { vec![std::iter::once(op.m.clone()).chain(op.a.iter().enumerate().map(|(i, a)| hx(&model_arg(&op.m, i, a)))).collect::<Vec<_>>().join("~")] }
            }).collect::<Vec<_>>().join(";")
        };
        match &c.start {
            Some(s) => format!("opts run env={env} start={} ops={ops}", hx_list(s)),
            None => format!("opts run env={env} ops={ops}"),
        }
    }).collect();
    let answers = model(&reqs);
    let table = model(&["opts table".to_string()]).remove(0);

    // ---- compare
    let mut corr: Vec<String> = vec![];
    let mut oracle: Vec<String> = vec![];
    let mut known: BTreeMap<String, usize> = BTreeMap::new();
    let mut known_samples: BTreeMap<String, String> = BTreeMap::new();
    let mut class_hist: BTreeMap<String, usize> = BTreeMap::new();
    let mut outcome_hist: BTreeMap<String, usize> = BTreeMap::new();
    let mut distinct: BTreeSet<String> = BTreeSet::new();
    let mut samples: Vec<String> = vec![];
    let mut full_roundtrips = 0usize;
    let mut nops_hist: BTreeMap<usize, usize> = BTreeMap::new();
    for (i, ((c, r), m)) in cases.iter().zip(&results).zip(&answers).enumerate() {
        *class_hist.entry(c.class.split(':').next().unwrap().to_string()).or_default() += 1;
        *nops_hist.entry(c.ops.len()).or_default() += 1;
        let desc = || format!("{{\"class\":{},\"header\":{},\"start\":{},\"ops\":[{}]}}", json_str(&c.class), json_str(if c.cpp { "t.hpp" } else { "t.h" }),
            c.start.as_ref().map_or("null".into(), |s| format!("[{}]", s.iter().map(|x| json_str(x)).collect::<Vec<_>>().join(","))),
            c.ops.iter().map(|o| format!("[{}]", std::iter::once(&o.m).chain(o.a.iter()).map(|x| json_str(x)).collect::<Vec<_>>().join(","))).collect::<Vec<_>>().join(","));
        let reg = regions(c);
        let Some(flags1) = &r.c1.flags else {
            // b1 could not even be built (operr: value not accepted by the parameter type; start flags rejected by clap)
            let what = if r.c1.rc == 4 { "op-arg-rejected" } else if r.c1.rc == 2 { "start-flags-rejected" } else { "b1-failed" };
            *outcome_hist.entry(what.into()).or_default() += 1;
            if r.c1.rc == 2 && !m.starts_with("start-err") { corr.push(format!("{{\"class\":\"clap rejects start flags, model accepts\",\"case\":{},\"model\":{}}}", desc(), json_str(m))); }
            if r.c1.rc != 2 && r.c1.rc != 4 { corr.push(format!("{{\"class\":\"child b1 failed\",\"case\":{},\"rc\":{},\"stderr\":{}}}", desc(), r.c1.rc, json_str(&r.c1.stderr.chars().take(300).collect::<String>()))); }
            continue;
        };
        if m.starts_with("start-err") || m == "bad-op" {
            corr.push(format!("{{\"class\":\"model cannot build b1\",\"case\":{},\"model\":{}}}", desc(), json_str(m)));
            continue;
        }
        let mflags = unhx_list(kvget(m, "flags").unwrap_or("-"));
        let mrt = kvget(m, "rt").unwrap_or("");
        let mdiff = kvget(m, "diff").unwrap_or("-");
        let mflags2 = kvget(m, "flags2").map(|s| if s == "-" && mrt != "ok" { None } else { Some(unhx_list(s)) }).flatten();
        // the property's oracle, independent of the model (also the failing-input search when the model is out of step)
        let oracle_failures = || -> Vec<String> {
            let mut failures: Vec<String> = vec![];
            let Some(c2) = r.c2.as_ref() else { return failures };
        match &c2.flags {
            None => failures.push(format!("flags rejected: {}", c2.stderr.lines().filter(|l| l.starts_with("error")).next().unwrap_or("clap error"))),
            Some(f2) => {
                if f2 != flags1 {
                    if canon_flags(f2) == canon_flags(flags1) { failures.push("flag lists differ in hash-map order only".into()); }
                    else { failures.push("flag lists differ".into()); }
                }
                match (&r.c1.bindings, &c2.bindings) {
                    (Some(a), Some(b)) => if a != b { failures.push("bindings differ".into()); },
                    (None, None) => {
                        if r.c1.panicked != c2.panicked || r.c1.generr.is_some() != c2.generr.is_some() { failures.push("one side panics, the other returns an error".into()); }
                    }
                    (Some(_), None) => failures.push(format!("b2 does not generate ({})", c2.generr.clone().unwrap_or_else(|| "panic".into()).chars().take(120).collect::<String>())),
                    (None, Some(_)) => failures.push(format!("b1 does not generate ({}) but b2 does", r.c1.generr.clone().unwrap_or_else(|| "panic".into()).chars().take(120).collect::<String>())),
                }
            }
        }
            failures
        };
        let search = |why: &str, oracle: &mut Vec<String>| {
            let fl = oracle_failures();
            if !fl.is_empty() && reg.is_empty() {
                oracle.push(format!("{{\"class\":\"round trip fails outside every known region (found while the model is out of step: {why})\",\"case\":{},\"flags\":{},\"observed\":{},\"regions\":\"\",\"model_predicts_failure\":false,\"model\":\"-\"}}",
                    desc(), json_str(&flags1.join(" ␟ ")), json_str(&fl.join("; "))));
            }
        };
        // (a) flags vs model
        if canon_flags(flags1) != canon_flags(&mflags) {
            corr.push(format!("{{\"class\":\"command_line_flags vs commandLineFlags\",\"case\":{},\"implementation\":{},\"model\":{}}}", desc(),
                json_str(&flags1.join(" ␟ ")), json_str(&mflags.join(" ␟ "))));
            search("flags", &mut oracle);
            continue;
        }
        let c2 = r.c2.as_ref().unwrap();
        // (b) parse outcome vs model of clap
        let impl_rt = if c2.flags.is_some() { "ok" } else if c2.rc == 2 { "err" } else { "other" };
        let model_rt = if mrt == "ok" { "ok" } else { "err" };
        if impl_rt != model_rt {
            corr.push(format!("{{\"class\":\"builder_from_flags outcome vs fromFlags (clap model)\",\"case\":{},\"flags\":{},\"implementation\":{},\"model\":{}}}", desc(),
                json_str(&flags1.join(" ␟ ")), json_str(&format!("{impl_rt} rc={} {}", c2.rc, c2.stderr.lines().filter(|l| l.starts_with("error")).next().unwrap_or(""))), json_str(mrt)));
            search("parse outcome", &mut oracle);
            continue;
        }
        // (c) flags' vs model's prediction
        if let (Some(f2), Some(mf2)) = (&c2.flags, &mflags2) {
            if canon_flags(f2) != canon_flags(mf2) {
                corr.push(format!("{{\"class\":\"second flag list vs model\",\"case\":{},\"implementation\":{},\"model\":{}}}", desc(), json_str(&f2.join(" ␟ ")), json_str(&mf2.join(" ␟ "))));
                search("second flag list", &mut oracle);
                continue;
            }
        }
        // (d) the property's oracle
        let failures: Vec<String> = oracle_failures();
        let predicted = mrt != "ok" || mdiff != "-" || mflags2.as_ref().map_or(true, |f| canon_flags(f) != canon_flags(&mflags));
        let key = format!("{}|{}|{}", c.class.split(':').next().unwrap(), reg.iter().cloned().collect::<Vec<_>>().join("+"), failures.iter().map(|f| f.split(':').next().unwrap().to_string()).collect::<Vec<_>>().join("+"));
        distinct.insert(format!("{}:{}", c.class, flags1.iter().filter(|f| f.starts_with("--") && f.len() > 2).cloned().collect::<Vec<_>>().join(",")));
        if failures.is_empty() {
            full_roundtrips += 1;
            *outcome_hist.entry("roundtrip-ok".into()).or_default() += 1;
            if samples.len() < 3 && c.ops.len() > 6 { samples.push(format!("{{\"case\":{},\"flags\":{},\"result\":\"flags == flags', bindings identical ({} bytes)\"}}", desc(), json_str(&flags1.join(" ")), r.c1.bindings.as_ref().map_or(0, |b| b.len()))); }
            continue;
        }
        *outcome_hist.entry(key).or_default() += 1;
        // which known region explains the failure?
        let only_hash = failures.iter().all(|f| f == "flag lists differ in hash-map order only");
        // a region explains the failure only if the MODEL's outcome is the one that region predicts
        let dec = |h: &str| unhx(h).unwrap_or_default();
        let sig = |k: &str| -> bool {
            let parts: Vec<&str> = mrt.split(':').collect();
            match k {
                "type_alias_flag" => parts.len() >= 3 && parts[1] == "unknownFlag" && dec(parts[2]) == "--type-alias",
                "leading_dash" => parts.len() >= 2 && (parts[1] == "leadingDash" || parts[1] == "unknownFlag" || parts[1] == "missingValue"),
                "empty_codegen_config" => parts.len() >= 3 && parts[1] == "badValue" && dec(parts[2]) == "--generate",
                "relative_rustfmt_path" => parts.len() >= 3 && parts[1] == "badValue" && dec(parts[2]) == "--rustfmt-configuration-file",
                "field_attr_codec" => (parts.len() >= 3 && parts[1] == "badValue" && dec(parts[2]) == "--field-attr") || mdiff.split(',').any(|f| f == "field_attr_patterns"),
                "formatter_override" => mrt == "ok" && mdiff.split(',').any(|f| f == "formatter"),
                "prefix_link_name_lost" => mrt == "ok" && mdiff.split(',').any(|f| f == "parse_callbacks"),
                "no_header" => mrt == "err:noHeader" || mrt != "ok",
                _ => false,
            }
        };
        let explained: Option<&str> =
            if only_hash && reg.contains("hash_order") { Some("hash_order") }
            else if !predicted && failures.iter().all(|f| f.starts_with("bindings differ") || f.starts_with("b2 does not generate")) && reg.contains("not_expressible") { Some("not_expressible") }
            else if !predicted { None }
            else {
                ["type_alias_flag", "leading_dash", "empty_codegen_config", "relative_rustfmt_path", "formatter_override", "field_attr_codec", "prefix_link_name_lost", "no_header"]
                    .iter().copied().find(|k| reg.contains(k) && sig(k))
                    .or_else(|| if reg.contains("not_expressible") { Some("not_expressible") } else { None })
            };
        // prefix_link_name: the model predicts the loss through the callback's empty cli_args (flags2 == flags, diff on parse_callbacks)
        match explained {
            Some(k) => {
                *known.entry(k.to_string()).or_default() += 1;
                known_samples.entry(k.to_string()).or_insert_with(|| format!("{{\"finding\":{},\"case\":{},\"flags\":{},\"observed\":{},\"model\":{}}}", json_str(k), desc(), json_str(&flags1.join(" ")), json_str(&failures.join("; ")), json_str(&format!("rt={mrt} diff={mdiff}"))));
            }
            None => oracle.push(format!("{{\"class\":{},\"case\":{},\"flags\":{},\"observed\":{},\"regions\":{},\"model_predicts_failure\":{},\"model\":{}}}",
                json_str(if predicted { "round trip fails outside every known region" } else { "round trip fails and the model does not predict it" }), desc(), json_str(&flags1.join(" ␟ ")),
                json_str(&failures.join("; ")), json_str(&reg.iter().cloned().collect::<Vec<_>>().join(",")), predicted, json_str(&format!("rt={mrt} diff={mdiff}")))),
        }
        let _ = i;
    }

    let listed: Vec<String> = METHODS.iter().map(|m| m.0.to_string()).collect();
    let mut j = String::from("{\n");
    j += &format!(" \"tier\": {}, \"seed\": {},\n", json_str(&args.tier), args.seed);
    j += &format!(" \"cases\": {}, \"child_runs\": {}, \"full_roundtrips\": {full_roundtrips},\n", cases.len(), results.iter().map(|r| 1 + r.c2.is_some() as usize).sum::<usize>());
    j += &format!(" \"distinct\": {},\n", distinct.len());
    j += &format!(" \"table\": {},\n", json_str(&table));
    j += &format!(" \"driver_methods\": [{}],\n", listed.iter().map(|s| json_str(s)).collect::<Vec<_>>().join(","));
    j += &format!(" \"unsettable\": [{}],\n", unsettable.iter().map(|s| json_str(s)).collect::<Vec<_>>().join(","));
    j += &format!(" \"class_histogram\": {{{}}},\n", class_hist.iter().map(|(k, v)| format!("{}: {v}", json_str(k))).collect::<Vec<_>>().join(", "));
    j += &format!(" \"ops_per_case_histogram\": {{{}}},\n", nops_hist.iter().map(|(k, v)| format!("\"{k}\": {v}")).collect::<Vec<_>>().join(", "));
    j += &format!(" \"outcome_histogram\": {{{}}},\n", outcome_hist.iter().map(|(k, v)| format!("{}: {v}", json_str(k))).collect::<Vec<_>>().join(", "));
    j += &format!(" \"known\": {{{}}},\n", known.iter().map(|(k, v)| format!("{}: {v}", json_str(k))).collect::<Vec<_>>().join(", "));
    j += &format!(" \"known_samples\": [{}],\n", known_samples.values().cloned().collect::<Vec<_>>().join(",\n  "));
    j += &format!(" \"samples\": [{}],\n", samples.join(",\n  "));
    j += &format!(" \"correspondence_mismatches\": [{}],\n \"correspondence_mismatch_count\": {},\n", corr.iter().take(25).cloned().collect::<Vec<_>>().join(",\n  "), corr.len());
    j += &format!(" \"oracle_failures\": [{}],\n \"oracle_failure_count\": {}\n}}\n", oracle.iter().take(25).cloned().collect::<Vec<_>>().join(",\n  "), oracle.len());
    write(&args.out.join("report.json"), &j);
    println!("c13: cases={} ok={full_roundtrips} corr={} oracle={} known={:?}", cases.len(), corr.len(), oracle.len(), known);
}
