//! C08: derive lists and hand-written impls of real outputs vs the Lean model
//! (`derives_of_item` fed by the model's own analyses), rustc as the soundness oracle,
//! execution of hand-written Default / PartialEq / Debug impls.
use bgverif::cppgen::{random_flags, Program};
use bgverif::drive::*;
use bgverif::irdump::parse_log;
use bgverif::rng::Rng;
use bgverif::util::{json_str, model, write, Args};
use quote::ToTokens;
use std::collections::{BTreeMap, BTreeSet};

#[derive(Default, Debug, Clone)]
struct Emitted {
    derives: BTreeSet<String>,
    packed: bool,
    impls: BTreeSet<String>,
    int_fields: Vec<String>,
    is_union: bool,
    generics: bool,
}

fn inventory(src: &str) -> Result<BTreeMap<String, Emitted>, String> {
    let file: syn::File = syn::parse_str(src).map_err(|e| format!("syn: {e}"))?;
    let mut out: BTreeMap<String, Emitted> = BTreeMap::new();
    fn attrs(attrs: &[syn::Attribute], e: &mut Emitted) {
        for a in attrs {
            let t = a.to_token_stream().to_string();
            if a.path().is_ident("derive") {
                if let Some(i) = t.find('(') {
                    let inner = &t[i + 1..t.rfind(')').unwrap_or(t.len())];
                    for d in inner.split(',') {
                        let d = d.trim();
                        if !d.is_empty() { e.derives.insert(d.to_owned()); }
                    }
                }
            }
            if a.path().is_ident("repr") && t.contains("packed") { e.packed = true; }
        }
    }
    for it in &file.items {
        match it {
            syn::Item::Struct(s) => {
                let e = out.entry(s.ident.to_string()).or_default();
                attrs(&s.attrs, e);
                e.generics = !s.generics.params.is_empty();
                for f in s.fields.iter() {
                    let ty = f.ty.to_token_stream().to_string();
                    if let Some(id) = &f.ident {
                        if ty.ends_with("c_int") || ty.ends_with("c_uint") || ty.ends_with("c_short") || ty.ends_with("c_longlong") || ty.ends_with("c_uchar") || ty.ends_with("c_char") {
                            e.int_fields.push(id.to_string());
                        }
                    }
                }
            }
            syn::Item::Union(s) => {
                let e = out.entry(s.ident.to_string()).or_default();
                attrs(&s.attrs, e);
                e.is_union = true;
                e.generics = !s.generics.params.is_empty();
            }
            syn::Item::Impl(i) => {
                if let Some((_, path, _)) = &i.trait_ {
                    let tr = path.segments.last().map(|s| s.ident.to_string()).unwrap_or_default();
                    let ty = i.self_ty.to_token_stream().to_string();
                    let name = ty.split(|c: char| !(c.is_alphanumeric() || c == '_')).next().unwrap_or("").to_owned();
                    if ["Default", "Clone", "Debug", "PartialEq"].contains(&tr.as_str()) {
                        out.entry(name).or_default().impls.insert(tr);
                    }
                }
            }
            _ => {}
        }
    }
    Ok(out)
}

fn set_of(s: &str) -> BTreeSet<String> {
    if s == "-" { BTreeSet::new() } else { s.split(',').map(|x| x.to_owned()).collect() }
}

/// does the generated header declare a member `X f<k>[n]…` (array whose element type is the record X)?
fn array_member_of(text: &str, x: &str) -> bool {
    let pat = format!("{x} f");
    let b = text.as_bytes();
    let mut from = 0;
    while let Some(i) = text[from..].find(&pat) {
        let start = from + i;
        let before_ok = start == 0 || !(b[start - 1].is_ascii_alphanumeric() || b[start - 1] == b'_');
        let mut j = start + pat.len();
        while j < b.len() && b[j].is_ascii_digit() { j += 1; }
        if before_ok && j > start + pat.len() && j < b.len() && b[j] == b'[' { return true; }
        from = start + pat.len();
    }
    false
}

/// X and every typedef name that leads to it (`typedef X T1; typedef T1 T2;`)
fn aliases_of(text: &str, x: &str) -> Vec<String> {
    let mut names = vec![x.to_string()];
    loop {
        let mut grew = false;
        for l in text.lines() {
            if let Some(rest) = l.trim().strip_prefix("typedef ") {
                let toks: Vec<&str> = rest.trim_end_matches(';').split_whitespace().collect();
                if toks.len() == 2 && names.iter().any(|n| n == toks[0]) && !names.iter().any(|n| n == toks[1]) { names.push(toks[1].to_string()); grew = true; }
            }
        }
        if !grew { break; }
    }
    names
}

/// is the record X an argument of some template instantiation in the header (`<X>`, `<X, …>`, `<…, X>`)?
fn template_arg_of(text: &str, x: &str) -> bool {
    [format!("<{x}>"), format!("<{x},"), format!(", {x}>"), format!(", {x},"), format!(",{x}>")].iter().any(|p| text.contains(p.as_str()))
}

fn main() {
    let args = Args::parse();
    quiet_panics();
    let mut rng = Rng::new(args.seed ^ 0xC08);
    let scratch = Scratch::new("c08");
    let thorough = args.thorough();
    let n_prog = if thorough { 700 } else { 70 };
    let n_opts = if thorough { 6 } else { 3 };
    let mut evaluations = 0u64;
    let mut types_compared = 0u64;
    let mut distinct: BTreeSet<String> = BTreeSet::new();
    let mut corr: Vec<String> = vec![];
    let mut oracle: Vec<String> = vec![];
    let mut machinery: Vec<String> = vec![];
    let mut samples: Vec<String> = vec![];
    let mut trait_hist: BTreeMap<String, u64> = BTreeMap::new();
    let mut impl_hist: BTreeMap<String, u64> = BTreeMap::new();
    let mut rustc_runs = 0u64;
    let mut known_hits: BTreeMap<String, u64> = BTreeMap::new();
    let mut behaviour_runs = 0u64;
    let mut gen_fail = 0u64;
    let mut idx = 0usize;
    // fixed shapes first (what the random generator reaches too rarely), then the generated programs
    let mut work: Vec<(String, Vec<String>)> = vec![];
    {
        // a blocklisted record reached directly, through a typedef and through a typedef of a typedef, in records
        // whose Debug / PartialEq must be written by hand
        let text = "struct B0 { int x; };\ntypedef B0 B0_t;\ntypedef B0_t B0_tt;\nstruct D1 { B0 b; int k; char big[40]; };\nstruct D2 { B0_t b; int k; char big[40]; };\nstruct D3 { char c; B0_tt b; char big[40]; };\nstruct D4 { D2 inner; int z; };\n".to_string();
        for fl in [vec!["--impl-debug", "--blocklist-type", "B0"], vec!["--impl-debug", "--impl-partialeq", "--with-derive-partialeq", "--with-derive-default", "--blocklist-type", "B0"],
                   vec!["--impl-debug", "--with-derive-hash", "--blocklist-type", "B0", "--no-derive-copy"]] {
            let mut f: Vec<String> = fl.iter().map(|x| x.to_string()).collect();
            f.push("--no-layout-tests".into());
            work.push((text.clone(), f));
        }
    }
    {
        // over-aligned vector types held by value in packed records (the record itself is not over-aligned, so only
        // the member's own answer keeps Default / Hash / PartialEq from being derived)
        let text = "typedef char V64 __attribute__((vector_size(64)));\ntypedef float V32 __attribute__((vector_size(32)));\ntypedef V64 V64_t;\nstruct __attribute__((packed)) PK1 { char c; V64 v; };\nstruct PK2 { PK1 inner; int z; };\n#pragma pack(push, 1)\nstruct PK3 { V64_t a; short s; };\n#pragma pack(pop)\nstruct A32 { V32 v; int k; };\nstruct __attribute__((packed)) PK4 { V64 arr[2]; char t; };\n".to_string();
        for fl in [vec!["--with-derive-default"], vec!["--with-derive-default", "--with-derive-hash", "--with-derive-partialeq", "--with-derive-eq"],
                   vec!["--with-derive-default", "--impl-debug", "--impl-partialeq", "--with-derive-partialeq", "--no-derive-copy"]] {
            let mut f: Vec<String> = fl.iter().map(|x| x.to_string()).collect();
            f.push("--no-layout-tests".into());
            work.push((text.clone(), f));
        }
    }
    {
        // hand-written Debug / PartialEq over bit-fields that do not start the record (a plain member, a second allocation unit,
        // a zero-width separator in front of them); Debug cannot be derived because of the 13-parameter function pointer
        let text = "typedef void (*bigfn)(int,int,int,int,int,int,int,int,int,int,int,int,int);\nstruct BF1 { long head; bigfn cb; unsigned ready : 1; unsigned mode : 3; unsigned count : 12; };\nstruct BF2 { char pad[12]; unsigned a : 5; int : 0; unsigned b : 7; bigfn cb; };\nstruct BF3 { bigfn cb; unsigned long long wide : 40; char mid; unsigned tail : 9; };\n".to_string();
        for fl in [vec!["--impl-debug"], vec!["--impl-debug", "--impl-partialeq", "--with-derive-partialeq"], vec!["--impl-debug", "--no-derive-copy", "--with-derive-default"]] {
            let mut f: Vec<String> = fl.iter().map(|x| x.to_string()).collect();
            f.push("--no-layout-tests".into());
            work.push((text.clone(), f));
        }
    }
    {
        // plain data (model-free completeness): records whose members are scalars, pointers, small arrays, a complex number or a
        // vector; whatever the allow-list mode, nothing the user asked for keeps them from Debug / Copy / Clone
        // (`PLAIN-DATA:` lists the names the oracle below looks at)
        // (vector members are written without a typedef: under --no-recursive-allowlist a typedef that is not allow-listed is, by
        // design, a type the user keeps for themselves)
        let text = "// PLAIN-DATA: PD1 PD2 PD3 PD4\nstruct PD1 { double _Complex z; int k; };\nstruct PD2 { int v __attribute__((vector_size(16))); int k; };\nstruct PD3 { int a; char b[8]; float f; void *p; };\nstruct PD4 { float _Complex zs[2]; float w __attribute__((vector_size(8))); short s; };\n".to_string();
        for fl in [vec![], vec!["--allowlist-type", "PD.*"], vec!["--allowlist-type", "PD.*", "--no-recursive-allowlist"],
                   vec!["--allowlist-type", "PD.*", "--no-recursive-allowlist", "--with-derive-partialeq", "--with-derive-default", "--impl-debug"]] {
            let mut f: Vec<String> = fl.iter().map(|x| x.to_string()).collect();
            f.push("--no-layout-tests".into());
            work.push((text.clone(), f));
        }
    }
    for _p in 0..n_prog {
        let n_units = 3 + rng.below(9) as usize;
        let prog = Program::generate(&mut rng, n_units);
        let text = prog.emit(&prog.natural_order());
        for _ in 0..n_opts {
            let mut flags = random_flags(&mut rng, &prog);
            // a derive-heavy bias: C08 wants all 2^9 combinations exercised over time
            flags.retain(|f| f != "--no-layout-tests");
            flags.push("--no-layout-tests".into());
            // Rust's own supertrait requirements between the derive options (Ord needs Eq and
            // PartialOrd, PartialOrd and Eq need PartialEq): mostly generate consistent sets
            if !rng.chance(1, 12) {
                let has = |fl: &Vec<String>, x: &str| fl.iter().any(|f| f == x);
                if has(&flags, "--with-derive-ord") { for x in ["--with-derive-eq", "--with-derive-partialord"] { if !has(&flags, x) { flags.push(x.into()); } } }
                if has(&flags, "--with-derive-partialord") || has(&flags, "--with-derive-eq") { if !has(&flags, "--with-derive-partialeq") { flags.push("--with-derive-partialeq".into()); } }
            }
            work.push((text.clone(), flags));
        }
    }
    for (text, flags) in work {
        {
            idx += 1;
            let h = scratch.path(&format!("c{idx}.hpp"));
            std::fs::write(&h, &text).unwrap();
            let mut fl = vec![h.to_string_lossy().into_owned(), "--formatter".into(), "none".into()];
            fl.extend(flags.iter().cloned());
            fl.extend(["--".to_string(), "-x".into(), "c++".into(), "-std=c++14".into()]);
            let log_path = scratch.path(&format!("c{idx}.vlog"));
            let out = generate_with_flags(&fl, Some(&log_path));
            evaluations += 1;
            let Some(bindings) = out.bindings.clone() else { gen_fail += 1; continue };
            let log = parse_log(out.log.as_deref().unwrap_or(""));
            if log.dumps.is_empty() { machinery.push(format!("no dump for case {idx}")); continue; }
            let inv = match inventory(&bindings) { Ok(i) => i, Err(e) => { machinery.push(e); continue } };
            // id -> rust name of compound types
            let mut names: BTreeMap<u64, String> = BTreeMap::new();
            let mut count: BTreeMap<String, u32> = BTreeMap::new();
            let mut comp_ids: BTreeSet<u64> = BTreeSet::new();
            let mut dump_packed: BTreeSet<u64> = BTreeSet::new();
            for r in &log.dumps[0] {
                if r.tag == "type" && r.get("k") == "Comp" {
                    comp_ids.insert(r.num("id").unwrap_or(0));
                    if r.flag("is_packed") { dump_packed.insert(r.num("id").unwrap_or(0)); }
                }
            }
            for r in &log.dumps[0] {
                if r.tag == "item" && r.get("kind") == "type" {
                    let id = r.num("id").unwrap_or(0);
                    if comp_ids.contains(&id) && r.flag("codegen") && !r.flag("blocklisted") {
                        let path = r.get("path");
                        let last = bgverif::irdump::unesc(path.rsplit("::").next().unwrap_or(""));
                        *count.entry(last.clone()).or_default() += 1;
                        names.insert(id, last);
                    }
                }
            }
            let dump_packed_names: BTreeSet<String> = names.iter().filter(|(id, _)| dump_packed.contains(id)).map(|(_, n)| n.clone()).collect();
            let mut req: Vec<String> = vec!["ir-begin".into()];
            req.extend(log.raw_ir_lines[0].iter().cloned());
            req.push("ir-end".into());
            req.push("irderives".into());
            let ans = model(&req);
            let line = ans.iter().find(|l| l.starts_with("irderives")).cloned().unwrap_or_default();
            if line.is_empty() || line.contains("skipped") { machinery.push(format!("no irderives answer for case {idx}")); continue; }
            for tok in line.split(' ').skip(1) {
                let parts: Vec<&str> = tok.split(':').collect();
                if parts.len() != 3 { continue; }
                let id: u64 = parts[0].parse().unwrap_or(0);
                let Some(name) = names.get(&id) else { continue };
                if count.get(name).copied().unwrap_or(0) != 1 { continue; }
                let Some(e) = inv.get(name) else { continue };
                let (d0, d1) = parts[1].split_once('|').unwrap_or(("-", "-"));
                let (m0, m1) = parts[2].split_once('|').unwrap_or(("-", "-"));
                // `packed` argument of derives_of_item: is_packed(), or set late when the emitted
                // struct needs repr(packed) (visible in the emitted attribute)
                let pk = e.packed || dump_packed.contains(&id);
                let md = set_of(if pk { d1 } else { d0 });
                let mm = set_of(if pk { m1 } else { m0 });
                types_compared += 1;
                for d in &e.derives { *trait_hist.entry(d.clone()).or_default() += 1; }
                for d in &e.impls { *impl_hist.entry(d.clone()).or_default() += 1; }
                distinct.insert(format!("{:?}|{:?}|{}|{}", e.derives, e.impls, e.packed, flags.iter().filter(|f| f.starts_with("--with") || f.starts_with("--impl") || f.starts_with("--no-derive")).cloned().collect::<Vec<_>>().join(",")));
                if md != e.derives || mm != e.impls {
                    corr.push(format!(
                        "{{\"class\":\"derive-list\",\"type\":{},\"model_derives\":{},\"real_derives\":{},\"model_impls\":{},\"real_impls\":{},\"packed\":{},\"flags\":{},\"header\":{}}}",
                        json_str(name), json_str(&format!("{md:?}")), json_str(&format!("{:?}", e.derives)),
                        json_str(&format!("{mm:?}")), json_str(&format!("{:?}", e.impls)), e.packed,
                        json_str(&flags.join(" ")), json_str(&text)));
                }
                if samples.len() < 3 && !e.derives.is_empty() && e.derives.len() > 3 {
                    samples.push(format!("{{\"type\":{},\"derives\":{},\"impls\":{},\"flags\":{}}}", json_str(name), json_str(&format!("{:?}", e.derives)), json_str(&format!("{:?}", e.impls)), json_str(&flags.join(" "))));
                }
            }
            // oracle 0 (fixed plain-data shapes): Debug, Copy and Clone are derived (they are on by default and no option of
            // these cases turns them off)
            if let Some(l) = text.lines().next().and_then(|l| l.strip_prefix("// PLAIN-DATA: ")) {
                for n in l.split(' ') {
                    match inv.get(n) {
                        None => oracle.push(format!("{{\"class\":\"plain-data-missing\",\"errors\":{},\"flags\":{},\"header\":{}}}", json_str(&format!("`{n}` is not in the bindings")), json_str(&flags.join(" ")), json_str(&text))),
                        Some(e) => {
                            let missing: Vec<&str> = ["Debug", "Copy", "Clone"].into_iter().filter(|t| !e.derives.iter().any(|d| d == t)).collect();
                            if !missing.is_empty() {
                                oracle.push(format!("{{\"class\":\"trait-withheld-from-plain-data\",\"errors\":{},\"flags\":{},\"header\":{}}}",
                                    json_str(&format!("`{n}` is plain data but is emitted without derive({}) (has {:?})", missing.join(", "), e.derives)), json_str(&flags.join(" ")), json_str(&text)));
                            }
                        }
                    }
                }
            }
            // oracle 1: rustc accepts every emitted derive / impl (soundness of derives)
            // blocklisted record types: the user supplies the definition — here one with the C size and alignment
            // and NO trait at all, so that any derive / hand-written impl that goes through it is rejected
            let mut stubs = String::new();
            let mut stub_names: BTreeSet<String> = BTreeSet::new();
            let mut stubs_ok = true;
            if flags.iter().any(|f| f == "--blocklist-type") {
                let mut bl: BTreeMap<u64, String> = BTreeMap::new();
                for r in &log.dumps[0] {
                    if r.tag == "item" && r.get("kind") == "type" && r.flag("blocklisted") {
                        let id = r.num("id").unwrap_or(0);
                        if comp_ids.contains(&id) { bl.insert(id, bgverif::irdump::unesc(r.get("path").rsplit("::").next().unwrap_or(""))); }
                    }
                }
                for r in &log.dumps[0] {
                    if r.tag != "type" { continue; }
                    let Some(n) = bl.get(&r.num("id").unwrap_or(0)) else { continue };
                    if n.is_empty() || n.contains('<') || !stub_names.insert(n.clone()) { continue; }
                    let lay: Vec<u64> = r.get("layout").split(',').filter_map(|x| x.parse().ok()).collect();
                    if lay.len() >= 2 && lay[1].is_power_of_two() && !r.flag("fwd") {
                        stubs.push_str(&format!("#[repr(C, align({}))] pub struct {n} {{ _b: [u8; {}] }}\n", lay[1], lay[0]));
                    } else { stubs_ok = false; }
                }
            }
            let uses_blocklist = flags.iter().any(|f| f == "--no-recursive-allowlist") || !stubs_ok || (flags.iter().any(|f| f == "--blocklist-type") && stubs.is_empty() && false);
            if !uses_blocklist {
                rustc_runs += 1;
                if !stubs.is_empty() { *known_hits.entry("(cases compiled against trait-less stubs of blocklisted types)".to_owned()).or_default() += 1; }
                let src = format!("#![allow(warnings)]\n{stubs}{bindings}\n");
                if let Err(e) = rustc_check_lib(&scratch, &format!("b{idx}"), &src, "2021") {
                    let errs: Vec<&str> = e.lines().filter(|l| l.starts_with("error[")).collect();
                    let has = |x: &str| flags.iter().any(|f| f == x);
                    let inconsistent = (has("--with-derive-ord") && !(has("--with-derive-eq") && has("--with-derive-partialord")))
                        || ((has("--with-derive-partialord") || has("--with-derive-eq")) && !has("--with-derive-partialeq"));
                    let packed_manual = inv.values().any(|t| t.packed && (t.impls.contains("Debug") || t.impls.contains("PartialEq")));
                    let any_packed = inv.values().any(|t| t.packed);
                    let mut unknown: Vec<&str> = vec![];
                    for l in &errs {
                        let helper = |l: &str, pre: &str| l.contains(&format!("{pre}`__BindgenOpaqueArray")) || l.contains(&format!("{pre}`__BindgenUnionField"));
                        if l.contains("E0425") || l.contains("E0412") || l.contains("E0433") {
                            // unresolved names: not a derive / impl question (C01's domain); counted, not judged here
                            *known_hits.entry("(unresolved-name errors, judged by C01)".to_owned()).or_default() += 1;
                            continue;
                        }
                        let region = if l.contains("E0277") && (helper(l, "can't compare ") || (helper(l, "the trait bound ") && (l.contains(": Ord`") || l.contains(": PartialOrd`")))) && (has("--with-derive-partialord") || has("--with-derive-ord")) {
                            Some("opaque_array_wrapper_no_partialord")
                        } else if l.contains("E0793") && packed_manual {
                            Some("packed_manual_impl_takes_reference")
                        } else if l.contains("E0277") && l.contains("doesn't implement `Debug`") && has("--impl-debug") && has("--no-debug") {
                            Some("impl_debug_member_without_debug")
                        } else if l.contains("E0277") && l.contains("doesn't implement `Debug`") && has("--impl-debug") && stub_names.iter().any(|x| l.contains(&format!("`{x}`")) && (aliases_of(&text, x).iter().any(|a| array_member_of(&text, a) || template_arg_of(&text, a)) || array_member_of(&text, x) || template_arg_of(&text, x))) {
                            // input-defined: --impl-debug and a blocklisted record type is the element type of an array member or an
                            // argument of a template instantiation used as a member
                            Some("impl_debug_through_blocklisted")
                        } else if (l.contains("E0204") || (l.contains("E0277") && (l.contains(": Clone`") || l.contains(": Copy`")))) && text.contains("T arr[") {
                            Some("type_param_array_not_through_arrays")
                        } else if l.contains("E0588") && any_packed {
                            Some("packed_contains_aligned")
                        } else if l.contains("E0133") && l.contains("__BindgenUnionField") {
                            Some("wrapper_union_bitfield_accessor_unsafe")
                        } else if (l.contains("E0277") || l.contains("E0369")) && {
                            // the type the error is about: `X`, `[X; N]`
                            let named: Vec<String> = l.split('`').skip(1).step_by(2).flat_map(|t| t.split(|c: char| !(c.is_alphanumeric() || c == '_')).map(|x| x.to_owned()).collect::<Vec<_>>()).filter(|x| !x.is_empty()).collect();
                            named.iter().any(|x| inv.get(x).map_or(false, |t| (t.packed || dump_packed_names.contains(x)) && !t.derives.contains("Copy")))
                        } {
                            Some("packed_noncopy_member")
                        } else if l.contains("E0277") && inconsistent && !l.contains("__Bindgen") && (l.contains("can't compare") || l.contains("is not satisfied")) {
                            Some("derive_supertrait_options")
                        } else { None };
                        match region { Some(r) => { *known_hits.entry(r.to_owned()).or_default() += 1; } None => unknown.push(l) }
                    }
                    if !unknown.is_empty() || errs.is_empty() {
                        let first: String = if errs.is_empty() { e.chars().take(400).collect() } else { unknown.iter().take(3).cloned().collect::<Vec<_>>().join(" | ") };
                        oracle.push(format!("{{\"class\":\"rustc-rejects-bindings\",\"errors\":{},\"flags\":{},\"header\":{}}}", json_str(&first), json_str(&flags.join(" ")), json_str(&text)));
                    }
                    continue;
                }
                // oracle 2: behaviour of hand-written impls
                let manual: Vec<(&String, &Emitted)> = inv.iter().filter(|(_, e)| !e.impls.is_empty() && !e.generics).collect();
                if !manual.is_empty() && (thorough || behaviour_runs < 25) {
                    behaviour_runs += 1;
                    let mut body = String::new();
                    for (name, e) in &manual {
                        if e.impls.contains("Default") && (e.derives.contains("PartialEq") || e.impls.contains("PartialEq")) && !e.is_union {
                            // padding is not preserved by a move, so compare field-wise with the all-zero object
                            body.push_str(&format!("{{ let x: {name} = Default::default(); let z: {name} = unsafe {{ std::mem::zeroed() }}; if !(x == z) {{ println!(\"FAIL default-not-zero {name}\"); }} }}\n"));
                        }
                        if e.impls.contains("Debug") {
                            body.push_str(&format!("{{ let x: {name} = unsafe {{ std::mem::zeroed() }}; let s = format!(\"{{:?}}\", x); if s.is_empty() {{ println!(\"FAIL debug-empty {name}\"); }} }}\n"));
                        }
                        if e.impls.contains("PartialEq") && !e.is_union {
                            body.push_str(&format!("{{ let a: {name} = unsafe {{ std::mem::zeroed() }}; let b: {name} = unsafe {{ std::mem::zeroed() }}; if !(a == b) {{ println!(\"FAIL partialeq-zero-ne {name}\"); }} }}\n"));
                            for f in &e.int_fields {
                                body.push_str(&format!("{{ let a: {name} = unsafe {{ std::mem::zeroed() }}; let mut b: {name} = unsafe {{ std::mem::zeroed() }}; b.{f} = 1 as _; if a == b {{ println!(\"FAIL partialeq-ignores-field {name}.{f}\"); }} }}\n"));
                            }
                        }
                    }
                    let prog_src = format!("#![allow(warnings)]\nmod b {{ {stubs}{bindings} }}\nuse b::*;\nfn main() {{\n// big stack: the probed types can be megabytes large (arrays of arrays of records)\nstd::thread::Builder::new().stack_size(3 << 30).spawn(|| {{\n{body}\nprintln!(\"done\");\n}}).unwrap().join().unwrap();\n}}\n");
                    match rustc_bin(&scratch, &format!("t{idx}"), &prog_src, &[], &[]) {
                        Ok(exe) => {
                            let (rc, o, e) = run_exe(&exe);
                            if rc != 0 || o.contains("FAIL") || !o.contains("done") {
                                oracle.push(format!("{{\"class\":\"manual-impl-behaviour\",\"output\":{},\"flags\":{},\"header\":{}}}", json_str(&format!("rc={rc} {o} {}", e.chars().take(300).collect::<String>())), json_str(&flags.join(" ")), json_str(&text)));
                            }
                        }
                        Err(e) => {
                            // unresolved externs (methods) only matter at link time: retry as lib is already done; ignore link errors
                            if !e.contains("undefined reference") && !e.contains("linking") {
                                machinery.push(format!("behaviour probe did not compile: {}", e.lines().filter(|l| l.starts_with("error")).take(2).collect::<Vec<_>>().join(" | ")));
                            }
                        }
                    }
                }
            }
        }
    }
    let map_json = |m: &BTreeMap<String, u64>| format!("{{{}}}", m.iter().map(|(k, v)| format!("{}:{}", json_str(k), v)).collect::<Vec<_>>().join(","));
    let report = format!(
        "{{\"known_region_hits\":{},\"evaluations\":{},\"types_compared\":{},\"distinct_nontrivial\":{},\"rustc_runs\":{},\"behaviour_runs\":{},\"generation_failures\":{},\"derive_histogram\":{},\"manual_impl_histogram\":{},\"samples\":[{}],\"correspondence_failures\":[{}],\"oracle_failures\":[{}],\"machinery\":[{}]}}",
        map_json(&known_hits), evaluations, types_compared, distinct.len(), rustc_runs, behaviour_runs, gen_fail, map_json(&trait_hist), map_json(&impl_hist),
        samples.join(","), corr.iter().take(20).cloned().collect::<Vec<_>>().join(","), oracle.iter().take(400).cloned().collect::<Vec<_>>().join(","),
        machinery.iter().take(20).map(|m| json_str(m)).collect::<Vec<_>>().join(","));
    write(&args.out.join("report.json"), &report);
    println!("evaluations={evaluations} types={types_compared} corr={} oracle={} machinery={}", corr.len(), oracle.len(), machinery.len());
}
