//! C04 — functions and globals bind the right symbol with a call-compatible signature.
//!
//! A. function-level correspondence: `bindgen::verif::names_identical` vs the Lean model.
//! B. whole-program: generated C libraries -> real bindgen (in-process, optional renaming
//!    callbacks) -> syn inventory vs the model's prediction from the IR dump (identifier, link
//!    attribute, lowered signature shapes) -> ONE executable per library linking the clang-compiled
//!    C with a rustc-compiled caller -> checksums / globals compared with the reference
//!    semantics; `nm` for symbol identity.
//! C. probes of the known-finding regions; symbol-text checks for Mach-O / Win32; C++ classes.
use bgverif::c04gen::*;
use bgverif::drive::*;
use bgverif::inv::{self, ExternFn, Inventory};
use bgverif::irdump::{self, Record};
use bgverif::rng::Rng;
use bgverif::util::{self, json_str, Args};
use std::collections::{BTreeMap, BTreeSet};
use std::fmt::Write as _;
use std::path::{Path, PathBuf};
use std::process::Command;

// ------------------------------------------------------------------ renaming callbacks

#[derive(Debug, Clone, Copy, PartialEq)]
pub enum CbMode {
    None,
    /// `item_name`: `c04_f…` -> `rn_f…`
    ItemName,
    /// `generated_name_override`: same renaming through the other callback
    NameOverride,
    /// `item_name`: strip one leading underscore (the known-finding region on ELF)
    StripUnderscore,
    /// `item_name`: `twin` -> `twin_pub`, `_twin` -> `twin` (wrong symbol, links)
    Twin,
    /// `generated_link_name_override` for everything named `lk_*`: `real_*`
    LinkOverride,
}

pub fn rename(mode: CbMode, name: &str) -> Option<String> {
    match mode {
        CbMode::ItemName | CbMode::NameOverride => name.strip_prefix("c04_f").map(|r| format!("rn_f{r}")),
        CbMode::StripUnderscore => name.strip_prefix('_').filter(|r| !r.is_empty() && !r.starts_with('_')).map(|r| r.to_owned()),
        CbMode::Twin => match name { "twin" => Some("twin_pub".into()), "_twin" => Some("twin".into()), _ => None },
        _ => None,
    }
}

#[derive(Debug)]
struct Renamer(CbMode);
impl bindgen::callbacks::ParseCallbacks for Renamer {
    fn item_name(&self, info: bindgen::callbacks::ItemInfo<'_>) -> Option<String> {
        use bindgen::callbacks::ItemKind;
        if !matches!(info.kind, ItemKind::Function | ItemKind::Var) {
            return None;
        }
        match self.0 {
            CbMode::ItemName | CbMode::StripUnderscore | CbMode::Twin => rename(self.0, info.name),
            _ => None,
        }
    }
    fn generated_name_override(&self, info: bindgen::callbacks::ItemInfo<'_>) -> Option<String> {
        match self.0 {
            CbMode::NameOverride => rename(self.0, info.name),
            _ => None,
        }
    }
    fn generated_link_name_override(&self, info: bindgen::callbacks::ItemInfo<'_>) -> Option<String> {
        match self.0 {
            CbMode::LinkOverride => info.name.strip_prefix("lk_").map(|r| format!("real_{r}")),
            _ => None,
        }
    }
}

fn panic_message(e: Box<dyn std::any::Any + Send>) -> String {
    if let Some(s) = e.downcast_ref::<&str>() { (*s).to_owned() } else if let Some(s) = e.downcast_ref::<String>() { s.clone() } else { "<panic>".into() }
}

/// in-process bindgen with a renaming callback and the IR log
fn generate(flags: &[String], mode: CbMode, log_to: &Path) -> GenOut {
    let _ = std::fs::remove_file(log_to);
    std::env::set_var("BINDGEN_VERIF_LOG", log_to);
    let args: Vec<String> = std::iter::once("bindgen".to_owned()).chain(flags.iter().cloned()).collect();
    let r = std::panic::catch_unwind(std::panic::AssertUnwindSafe(|| {
        let (mut builder, _o, _v) = bindgen::builder_from_flags(args.into_iter()).map_err(|e| format!("io: {e}"))?;
        if mode != CbMode::None {
            builder = builder.parse_callbacks(Box::new(Renamer(mode)));
        }
        let b = builder.generate().map_err(|e| format!("{e:?}"))?;
        Ok::<String, String>(b.to_string())
    }));
    std::env::remove_var("BINDGEN_VERIF_LOG");
    let log = std::fs::read_to_string(log_to).ok();
    match r {
        Ok(Ok(s)) => GenOut { bindings: Some(s), error: None, panic: None, log },
        Ok(Err(e)) => GenOut { bindings: None, error: Some(e), panic: None, log },
        Err(p) => GenOut { bindings: None, error: None, panic: Some(panic_message(p)), log },
    }
}

fn hex(s: &str) -> String {
    if s.is_empty() { "-".into() } else { s.bytes().map(|b| format!("{b:02x}")).collect() }
}
fn unhex(s: &str) -> String {
    if s == "-" { return String::new(); }
    let b: Vec<u8> = (0..s.len() / 2).filter_map(|i| u8::from_str_radix(&s[2 * i..2 * i + 2], 16).ok()).collect();
    String::from_utf8_lossy(&b).into_owned()
}

// ------------------------------------------------------------------ failures

#[derive(Debug, Clone)]
struct Failure {
    /// "correspondence" (model vs implementation) or "oracle" (implementation vs C / rustc / nm)
    kind: &'static str,
    class: String,
    detail: String,
    case: String,
}

#[derive(Default)]
struct Stats {
    failures: Vec<Failure>,
    known: BTreeMap<String, u64>,
    counters: BTreeMap<String, u64>,
    distinct: BTreeSet<String>,
    samples: Vec<String>,
}
impl Stats {
    fn bump(&mut self, k: &str, n: u64) { *self.counters.entry(k.into()).or_insert(0) += n; }
    fn fail(&mut self, kind: &'static str, class: &str, detail: String, case: &str) {
        if self.failures.iter().filter(|f| f.class == class).count() < 6 && self.failures.len() < 120 {
            self.failures.push(Failure { kind, class: class.into(), detail, case: case.into() });
        }
        self.bump(&format!("failures_{kind}"), 1);
    }
}

// ------------------------------------------------------------------ A. names_identical

fn part_a(args: &Args, st: &mut Stats) {
    let n: usize = if args.thorough() { 3_000_000 } else { 300_000 };
    let mut r = Rng::new(args.seed ^ 0xA11);
    let ccs = ["var", "unknown", "C", "stdcall", "efiapi", "fastcall", "thiscall", "vectorcall", "aapcs", "win64", "C-unwind", "system"];
    let atoms = ["", "f", "foo", "_", "_foo", "__", "@", "@foo", "foo@8", "é", "naïve", "f0", "0", "foo_", "x$y", "?f@@YAHH@Z", "_Z3fooi", "a", "ab"];
    let mut reqs: Vec<String> = Vec::with_capacity(n);
    let mut meta: Vec<(usize, String, String, u8)> = Vec::with_capacity(n);
    for _ in 0..n {
        let cc = r.below(ccs.len() as u64) as usize;
        let c: String = if r.chance(1, 3) {
            (0..r.below(5)).map(|_| *r.pick(&['f', 'o', '_', '@', '0', '8', '$', 'é', 'x'])).collect()
        } else { (*r.pick(&atoms)).to_string() };
        let digits: String = (0..r.below(4)).map(|_| char::from(b'0' + r.below(10) as u8)).collect();
        let class = r.below(14) as u8;
        let m = match class {
            0 => c.clone(),
            1 => format!("_{c}"),
            2 => format!("@{c}"),
            3 => format!("_{c}@{digits}"),
            4 => format!("@{c}@{digits}"),
            5 => format!("{c}@{digits}"),
            6 => format!("_{c}@"),
            7 => format!("_{c}@{digits}x"),
            8 => format!("_{c}_"),
            9 => format!("{c}@@{digits}"),
            10 => { let mut s = format!("_{c}"); s.pop(); s }
            11 => format!("_{}", c.to_uppercase()),
            12 => format!("__{c}"),
            _ => (*r.pick(&atoms)).to_string(),
        };
        reqs.push(format!("c04 ni {} {} {}", ccs[cc], hex(&c), hex(&m)));
        meta.push((cc, c, m, class));
    }
    let ans = util::model(&reqs);
    let mut dis = 0u64;
    for (i, (cc, c, m, class)) in meta.iter().enumerate() {
        let real = bindgen::verif::names_identical(c, m, if ccs[*cc] == "var" { None } else { Some(ccs[*cc]) });
        let model = ans.get(i).map(|s| s.as_str()).unwrap_or("");
        let want = if real { "1" } else { "0" };
        st.distinct.insert(format!("ni:{}:{}:{}", ccs[*cc], class, want));
        if model != want {
            dis += 1;
            st.fail("correspondence", "names_identical", format!("cc={} canonical={c:?} mangled={m:?} implementation={real} model={model}", ccs[*cc]), &reqs[i]);
        }
        if i % 100_003 == 7 && st.samples.len() < 4 {
            st.samples.push(format!("names_identical(cc={}, {:?}, {:?}) = {} (model {})", ccs[*cc], c, m, real, model));
        }
    }
    st.bump("ni_triples", n as u64);
    st.bump("ni_disagreements", dis);
}

// ------------------------------------------------------------------ IR -> model requests

struct Ir {
    recs: Vec<Record>,
    types: BTreeMap<u64, usize>,
    items: BTreeMap<u64, usize>,
}
impl Ir {
    /// `Item::canonical_name` before the renaming callback and `rust_mangle`: the names of the
    /// item and of its ancestors joined with `_`; namespaces take part unless
    /// `--enable-cxx-namespaces` turns them into modules.
    fn canonical_base(&self, id: u64) -> String {
        let ns_modules = self.recs.iter().find(|r| r.tag == "opt").is_some_and(|r| r.flag("enable_cxx_namespaces"));
        let Some(it) = self.item(id) else { return String::new() };
        let comps: Vec<String> = it.get("path").split("::").map(irdump::unesc).collect();
        // with namespaces as modules the path is `root::<modules…>::<canonical name>`
        if ns_modules { return comps.last().cloned().unwrap_or_default(); }
        let skip = if comps.first().map(|c| c.as_str()) == Some("root") && comps.len() > 1 { 1 } else { 0 };
        comps[skip..].join("_")
    }
    fn new(recs: Vec<Record>) -> Ir {
        let mut types = BTreeMap::new();
        let mut items = BTreeMap::new();
        for (i, r) in recs.iter().enumerate() {
            if r.tag == "type" { if let Some(id) = r.num("id") { types.insert(id, i); } }
            if r.tag == "item" { if let Some(id) = r.num("id") { items.insert(id, i); } }
        }
        Ir { recs, types, items }
    }
    fn ty(&self, id: u64) -> Option<&Record> { self.types.get(&id).map(|i| &self.recs[*i]) }
    fn item(&self, id: u64) -> Option<&Record> { self.items.get(&id).map(|i| &self.recs[*i]) }
    fn konst(&self, id: u64) -> bool { self.ty(id).is_some_and(|t| t.flag("const")) }
}

/// expected Rust text of scalar kinds (the harness's own table, not bindgen's)
fn scalar_text(r: &Record) -> Option<String> {
    let raw = |s: &str| format!("<::std::os::raw::{s}>");
    Some(match r.get("k") {
        "Int" => match r.get("ik") {
            "Bool" => "<bool>".into(),
            "Char" => raw("c_char"),
            "SChar" => raw("c_schar"),
            "UChar" => raw("c_uchar"),
            "Short" => raw("c_short"),
            "UShort" => raw("c_ushort"),
            "Int" => raw("c_int"),
            "UInt" => raw("c_uint"),
            "Long" => raw("c_long"),
            "ULong" => raw("c_ulong"),
            "LongLong" => raw("c_longlong"),
            "ULongLong" => raw("c_ulonglong"),
            "I128" => "<i128>".into(),
            "U128" => "<u128>".into(),
            "WChar" => "<::std::os::raw::c_int>".into(),
            _ => return None,
        },
        "Float" => match r.get("fk") { "Float" => "<f32>".into(), "Double" => "<f64>".into(), "LongDouble" => "<u128>".into(), _ => return None },
        _ => return None,
    })
}

fn stdint_text(name: &str) -> Option<&'static str> {
    Some(match name {
        "int8_t" => "<i8>", "uint8_t" => "<u8>", "int16_t" => "<i16>", "uint16_t" => "<u16>",
        "int32_t" => "<i32>", "uint32_t" => "<u32>", "int64_t" => "<i64>", "uint64_t" => "<u64>",
        "size_t" | "uintptr_t" => "<usize>", "ssize_t" | "intptr_t" | "ptrdiff_t" => "<isize>",
        _ => return None,
    })
}

/// type term for the model + table of expected leaf texts (`P<k>` / `C<id>` / `A<id>`)
struct TermCtx<'a> { ir: &'a Ir, leaf: BTreeMap<String, String>, scalars: Vec<String>, c_naming: bool }
impl<'a> TermCtx<'a> {
    fn scalar(&mut self, text: String) -> String {
        let k = match self.scalars.iter().position(|s| *s == text) { Some(k) => k, None => { self.scalars.push(text.clone()); self.scalars.len() - 1 } };
        self.leaf.insert(format!("P{k}"), text);
        format!("s{k}")
    }
    fn item_name(&self, id: u64, prefix: &str) -> String {
        let n = self.ir.canonical_base(id);
        // under --c-naming the path component already carries the `struct_` / `union_` / `enum_` prefix
        let _ = (prefix, self.c_naming);
        format!("<{n}>")
    }
    fn term(&mut self, id: u64, depth: u32) -> Option<String> {
        if depth > 40 { return None; }
        let r = self.ir.ty(id)?.clone();
        Some(match r.get("k") {
            "Void" => "v".into(),
            "Int" | "Float" => { let t = scalar_text(&r)?; self.scalar(t) }
            "Comp" => { let p = if r.get("ck") == "union" { "union" } else { "struct" }; self.leaf.insert(format!("C{id}"), self.item_name(id, p)); format!("c{id}") }
            "Enum" => { self.leaf.insert(format!("C{id}"), self.item_name(id, "enum")); format!("c{id}") }
            "Alias" => {
                let name = r.opt_str("name").unwrap_or_default();
                if let Some(t) = stdint_text(&name) { return Some(self.scalar(t.to_string())); }
                self.leaf.insert(format!("A{id}"), format!("<{name}>"));
                format!("a{id}({})", self.term(r.num("inner")?, depth + 1)?)
            }
            "ResolvedTypeRef" => self.term(r.num("inner")?, depth + 1)?,
            "Pointer" => { let inner = r.num("inner")?; format!("p{}({})", self.ir.konst(inner) as u8, self.term(inner, depth + 1)?) }
            "Array" => { let inner = r.num("inner")?; format!("r{},{}({})", self.ir.konst(inner) as u8, r.get("len"), self.term(inner, depth + 1)?) }
            "Function" => {
                let mut s = format!("f{}{}({}", r.get("variadic"), r.get("divergent"), self.term(r.num("ret")?, depth + 1)?);
                let a = r.get("args");
                if a != "-" {
                    for p in a.split(',') {
                        let aid: u64 = p.split(':').next()?.parse().ok()?;
                        s.push_str(&format!(";{}{}", self.ir.konst(aid) as u8, self.term(aid, depth + 1)?));
                    }
                }
                s.push(')');
                s
            }
            _ => return None,
        })
    }
    /// replace the model's leaf tokens by the expected Rust text
    fn expand(&self, shape: &str) -> String {
        let mut out = String::new();
        let b: Vec<char> = shape.chars().collect();
        let mut i = 0;
        while i < b.len() {
            if matches!(b[i], 'P' | 'C' | 'A') && i + 1 < b.len() && b[i + 1].is_ascii_digit() {
                let mut j = i + 1;
                while j < b.len() && b[j].is_ascii_digit() { j += 1; }
                let key: String = b[i..j].iter().collect();
                out.push_str(self.leaf.get(&key).map(|s| s.as_str()).unwrap_or("<?>"));
                i = j;
            } else {
                out.push(b[i]);
                i += 1;
            }
        }
        out
    }
}

// ------------------------------------------------------------------ B. libraries

#[derive(Clone, Debug)]
enum ArgVal { Plain(Val), Arr(Vec<Val>), Arr2(Vec<Vec<Val>>), UnionLeaf(Val) }

struct Call { args: Vec<ArgVal>, tail: Vec<Val>, ret_cb_args: Vec<Val> }

#[derive(Default, Debug, Clone, PartialEq)]
struct Expect { last: u64, ret: u64, wb: u64, cb: u64 }

fn sc_of(p: &CbP) -> usize { match p { CbP::Sc(s) | CbP::PtrSc(_, s) => *s } }

fn tail_leaf(v: &VarArg) -> Leaf {
    match v { VarArg::Int => Leaf::Sc(SC_INT), VarArg::UInt => Leaf::Sc(SC_UINT), VarArg::Long => Leaf::Sc(SC_LONG), VarArg::Ull => Leaf::Sc(SC_ULL), VarArg::Double => Leaf::Sc(SC_DOUBLE), VarArg::Anchor => Leaf::PtrVoid }
}

fn gen_call(lib: &Lib, f: &Func, r: &mut Rng) -> Call {
    let mut args = vec![];
    for (_, p) in &f.params {
        args.push(match p {
            Param::Val(t) => match lib.resolve(t) {
                Ty::Union(u) => { let m = f.union_member % lib.unions[*u].members.len(); ArgVal::UnionLeaf(gen_leaf_val(lib, &Leaf::Sc(lib.unions[*u].members[m]), r)) }
                _ => ArgVal::Plain(gen_val(lib, t, r)),
            },
            Param::Arr { elem, len, .. } => ArgVal::Arr((0..*len).map(|_| gen_leaf_val(lib, &Leaf::Sc(*elem), r)).collect()),
            Param::Arr2 { elem, n1, n2 } => ArgVal::Arr2((0..*n1).map(|_| (0..*n2).map(|_| gen_leaf_val(lib, &Leaf::Sc(*elem), r)).collect()).collect()),
            Param::TdArr { td, .. } => { let (_, sc, n) = &lib.arr_typedefs[*td]; ArgVal::Arr((0..*n).map(|_| gen_leaf_val(lib, &Leaf::Sc(*sc), r)).collect()) }
        });
    }
    let tail = f.tail.as_ref().map(|t| t.iter().map(|v| { let l = tail_leaf(v); if l == Leaf::PtrVoid { Val::Anchor } else { gen_leaf_val(lib, &l, r) } }).collect()).unwrap_or_default();
    let ret_cb_args = match f.ret.as_ref().map(|t| lib.resolve(t)) {
        Some(Ty::FnPtr(s)) => lib.cbsigs[*s].params.iter().map(|p| gen_leaf_val(lib, &Leaf::Sc(sc_of(p)), r)).collect(),
        _ => vec![],
    };
    Call { args, tail, ret_cb_args }
}

/// hash a Rust callback computes from the argument values C hands it; C-side functions handed
/// out as pointers use the same scheme with a different seed
fn cb_hash(lib: &Lib, sig: &CbSig, seed: u64, vals: &[Val]) -> u64 {
    let mut hh = seed;
    for (p, v) in sig.params.iter().zip(vals) {
        hh = lib.leaf_image(&Leaf::Sc(sc_of(p)), v, hh);
    }
    hh
}

fn simulate(lib: &Lib, fi: usize, f: &Func, init: u64, call: &Call) -> Expect {
    let mut h = init;
    let mut cb = INIT;
    for (k, ((_, p), a)) in f.params.iter().zip(&call.args).enumerate() {
        match (p, a) {
            (Param::Val(t), ArgVal::UnionLeaf(v)) => {
                if let Ty::Union(u) = lib.resolve(t) {
                    let m = f.union_member % lib.unions[*u].members.len();
                    h = lib.leaf_image(&Leaf::Sc(lib.unions[*u].members[m]), v, h);
                }
            }
            (Param::Val(t), ArgVal::Plain(v)) => match (lib.resolve(t), v) {
                (Ty::FnPtr(s), Val::Cb) => {
                    let sig = &lib.cbsigs[*s];
                    let vals: Vec<Val> = sig.params.iter().enumerate().map(|(j, p)| lib.make_leaf(&Leaf::Sc(sc_of(p)), fold(h, 200 + j as u64))).collect();
                    let hh = cb_hash(lib, sig, INIT ^ (0xab00 + (fi * 16 + k) as u64), &vals);
                    cb = fold(cb, hh);
                    let h0 = h;
                    let _ = h0;
                    if let Some(rs) = sig.ret {
                        h = lib.leaf_image(&Leaf::Sc(rs), &lib.make_leaf(&Leaf::Sc(rs), hh), h);
                    }
                    for (j, p) in sig.params.iter().enumerate() {
                        if let CbP::PtrSc(false, sc) = p {
                            h = lib.leaf_image(&Leaf::Sc(*sc), &lib.make_leaf(&Leaf::Sc(*sc), fold(hh, j as u64 + 1)), h);
                        }
                    }
                }
                (Ty::FnPtr(_), _) => h = fold(h, 0xdead),
                _ => h = lib.fold_val(t, v, h),
            },
            (Param::Arr { elem, .. }, ArgVal::Arr(vs)) => for v in vs { h = lib.leaf_image(&Leaf::Sc(*elem), v, h); },
            (Param::TdArr { td, .. }, ArgVal::Arr(vs)) => for v in vs { h = lib.leaf_image(&Leaf::Sc(lib.arr_typedefs[*td].1), v, h); },
            (Param::Arr2 { elem, .. }, ArgVal::Arr2(vss)) => for vs in vss { for v in vs { h = lib.leaf_image(&Leaf::Sc(*elem), v, h); } },
            other => panic!("simulate {other:?}"),
        }
    }
    if let Some(t) = &f.tail {
        for (v, x) in t.iter().zip(&call.tail) { h = lib.leaf_image(&tail_leaf(v), x, h); }
    }
    let mut wb = INIT;
    for (k, ((_, p), a)) in f.params.iter().zip(&call.args).enumerate() {
        match (p, a) {
            (Param::Val(t), ArgVal::Plain(Val::P(_))) => if let Ty::Ptr(false, inner) = lib.resolve(t) {
                if let Ty::Sc(sc) = lib.resolve(inner) {
                    wb = lib.leaf_image(&Leaf::Sc(*sc), &lib.make_leaf(&Leaf::Sc(*sc), fold(h, 100 + k as u64)), wb);
                }
            },
            (Param::Arr { elem, konst: false, .. }, _) => wb = lib.leaf_image(&Leaf::Sc(*elem), &lib.make_leaf(&Leaf::Sc(*elem), fold(h, 100 + k as u64)), wb),
            _ => {}
        }
    }
    let ret = match f.ret.as_ref() {
        None => INIT,
        Some(t) => match lib.resolve(t) {
            Ty::FnPtr(s) => {
                let sig = &lib.cbsigs[*s];
                let hh = cb_hash(lib, sig, INIT ^ (0xcb00 + *s as u64), &call.ret_cb_args);
                let mut x = fold(INIT, 1);
                if let Some(rs) = sig.ret { x = lib.leaf_image(&Leaf::Sc(rs), &lib.make_leaf(&Leaf::Sc(rs), hh), x); }
                x
            }
            Ty::Union(u) => lib.leaf_image(&Leaf::Sc(lib.unions[*u].members[0]), &lib.make_leaf(&Leaf::Sc(lib.unions[*u].members[0]), h), INIT),
            _ => lib.fold_val(t, &lib.make_val(t, h), INIT),
        },
    };
    Expect { last: h, ret, wb, cb }
}

// ---- Rust renderers

fn rs_fold_leaf(l: &Leaf, e: &str, out: &mut String) {
    match l {
        Leaf::Sc(i) => {
            let sc = &SCALARS[*i];
            match sc.k {
                SK::Int if sc.bits == 128 => { let _ = writeln!(out, "h = fold(h, ({e}) as u128 as u64); h = fold(h, ((({e}) as u128) >> 64) as u64);"); }
                SK::Int => { let _ = writeln!(out, "h = fold(h, (({e}) as i128) as u64);"); }
                SK::Bool => { let _ = writeln!(out, "h = fold(h, ({e}) as u64);"); }
                SK::F32 | SK::F64 => { let _ = writeln!(out, "h = fold(h, ({e}).to_bits() as u64);"); }
            }
        }
        Leaf::Enum(_) => { let _ = writeln!(out, "h = fold(h, (({e}) as i128) as u64);"); }
        Leaf::PtrVoid => { let _ = writeln!(out, "h = fold(h, ((({e}) as usize) == anchor_addr) as u64);"); }
    }
}

fn rs_fold(lib: &Lib, t: &Ty, e: &str, out: &mut String) {
    match lib.resolve(t) {
        Ty::Struct(_) => {
            let mut ls = vec![];
            lib.leaves(t, "", &mut ls);
            for (p, l) in ls { rs_fold_leaf(&l, &format!("({e}){p}"), out); }
        }
        Ty::Sc(i) => rs_fold_leaf(&Leaf::Sc(*i), e, out),
        Ty::Enum(i) => rs_fold_leaf(&Leaf::Enum(*i), e, out),
        Ty::Ptr(_, p) if **p == Ty::Void => rs_fold_leaf(&Leaf::PtrVoid, e, out),
        Ty::Ptr(_, p) => {
            let _ = writeln!(out, "if !({e}).is_null() {{");
            rs_fold(lib, p, &format!("(*({e}))"), out);
            let _ = writeln!(out, "}} else {{ h = fold(h, 0xdead); }}");
        }
        other => panic!("rs_fold {other:?}"),
    }
}

fn rs_lit_leaf(l: &Leaf, v: &Val, anchor: &str) -> String {
    match (l, v) {
        (_, Val::I(b)) => format!("(0x{b:x}u128) as _"),
        (_, Val::B(b)) => format!("{b}"),
        (_, Val::F32(b)) => format!("f32::from_bits(0x{b:x})"),
        (_, Val::F64(b)) => format!("f64::from_bits(0x{b:x})"),
        (Leaf::PtrVoid, Val::Anchor) => format!("::std::ptr::addr_of_mut!({anchor}) as *mut ::std::os::raw::c_void"),
        (Leaf::PtrVoid, Val::Null) => "::std::ptr::null_mut()".into(),
        other => panic!("rs_lit_leaf {other:?}"),
    }
}

fn rs_make_leaf(sc: usize, hx: &str, ty: &str) -> String {
    let s = &SCALARS[sc];
    match s.k {
        SK::Int if s.bits == 128 => format!("((((fold({hx}, 1) as u128) << 64) | ({hx}) as u128) as {ty})"),
        SK::Int => format!("(({hx}) as u64 as {ty})"),
        SK::Bool => format!("((({hx}) & 1) != 0)"),
        SK::F32 => format!("(((({hx}) & 0xFFFF) as i32 as f32) * 0.5)"),
        SK::F64 => format!("(((({hx}) & 0xFFFF_FFFF) as i64 as f64) * 0.25)"),
    }
}

/// statements initialising `let mut <name>: <ty>` with value `v` of (by-value) type `t`
fn rs_init(lib: &Lib, t: &Ty, v: &Val, name: &str, ty: &str, anchor: &str, out: &mut String) {
    match (lib.resolve(t), v) {
        (Ty::Struct(_), Val::Agg(vs)) => {
            let _ = writeln!(out, "let mut {name}: {ty} = ::std::mem::zeroed();");
            let mut ls = vec![];
            lib.leaves(t, "", &mut ls);
            for ((p, l), v) in ls.iter().zip(vs) { let _ = writeln!(out, "{name}{p} = {};", rs_lit_leaf(l, v, anchor)); }
        }
        (Ty::Sc(i), v) => { let _ = writeln!(out, "let mut {name}: {ty} = {};", rs_lit_leaf(&Leaf::Sc(*i), v, anchor)); }
        (Ty::Enum(i), v) => { let _ = writeln!(out, "let mut {name}: {ty} = {};", rs_lit_leaf(&Leaf::Enum(*i), v, anchor)); }
        (Ty::Ptr(_, p), v) if **p == Ty::Void => { let _ = writeln!(out, "let mut {name}: {ty} = {} as _;", rs_lit_leaf(&Leaf::PtrVoid, v, anchor)); }
        other => panic!("rs_init {other:?}"),
    }
}

struct Opts { merge: bool, sort: bool, c_naming: bool, inline: bool, overrides: Vec<(String, String)>, mode: CbMode }

struct LibCase {
    idx: usize,
    dir: PathBuf,
    lib: Lib,
    inits: Vec<u64>,
    opts: Opts,
    flags: Vec<String>,
    inv: Option<Inventory>,
    calls: Vec<Option<(Call, Expect)>>,
    global_new: Vec<Option<Val>>,
    caller_ok: bool,
    /// C symbol -> generator index (functions / globals expected to be bound)
    expect_fn: BTreeMap<String, usize>,
    expect_absent: Vec<String>,
}

fn deref_tokens(inv: &Inventory, t: &syn::Type) -> Option<String> { inv.pointee(t).map(inv::tokens) }

/// render the Rust caller; Err = the bindings do not have the expected shape
fn render_caller(case: &mut LibCase, r: &mut Rng) -> Result<String, String> {
    let inv = case.inv.as_ref().unwrap();
    let lib = &case.lib;
    let fn_by_sym: BTreeMap<String, &ExternFn> = inv.fns.iter().map(|f| (inv::elf_symbol(&f.ident, &f.link_name), f)).collect();
    let st_by_sym: BTreeMap<String, &inv::ExternStatic> = inv.statics.iter().map(|s| (inv::elf_symbol(&s.ident, &s.link_name), s)).collect();
    let anchor = st_by_sym.get("c04_anchor").ok_or("no binding for c04_anchor")?.ident.clone();
    let last = st_by_sym.get("c04_last").ok_or("no binding for c04_last")?.ident.clone();
    let mut top = String::from("#![allow(warnings)]\ninclude!(\"bindings.rs\");\nfn fold(h: u64, x: u64) -> u64 { (h ^ x).wrapping_mul(0x100000001b3) }\n");
    let mut body = String::new();
    let _ = writeln!(body, "let anchor_addr = ::std::ptr::addr_of!({anchor}) as usize;");
    let mut ncb = 0usize;
    // globals
    for (gi, g) in lib.globals.iter().enumerate() {
        let s = st_by_sym.get(&g.name).ok_or_else(|| format!("no binding refers to global symbol {}", g.name))?;
        let gh = fn_by_sym.get(&format!("c04_ghash{gi}")).ok_or("ghash binding")?.ident.clone();
        let ga = fn_by_sym.get(&format!("c04_gaddr{gi}")).ok_or("gaddr binding")?.ident.clone();
        let id = &s.ident;
        let _ = writeln!(body, "{{ let mut h = 0x{INIT:x}u64;");
        let mut newv = None;
        let mut assign = String::new();
        match (&g.ty, &g.init) {
            (GTy::Arr(sc, n), _) => {
                for j in 0..*n { rs_fold_leaf(&Leaf::Sc(*sc), &format!("{id}[{j}]"), &mut body); }
                if !g.konst {
                    let vs: Vec<Val> = (0..*n).map(|_| gen_leaf_val(lib, &Leaf::Sc(*sc), r)).collect();
                    for (j, v) in vs.iter().enumerate() { let _ = writeln!(assign, "{id}[{j}] = {};", rs_lit_leaf(&Leaf::Sc(*sc), v, &anchor)); }
                    newv = Some(Val::Arr(vs));
                }
            }
            (GTy::Val(t), _) => {
                rs_fold(lib, t, id, &mut body);
                if !g.konst {
                    let v = gen_val(lib, t, r);
                    match (lib.resolve(t), &v) {
                        (Ty::Struct(_), Val::Agg(vs)) => {
                            let mut ls = vec![];
                            lib.leaves(t, "", &mut ls);
                            for ((p, l), v) in ls.iter().zip(vs) { let _ = writeln!(assign, "{id}{p} = {};", rs_lit_leaf(l, v, &anchor)); }
                        }
                        (Ty::Sc(i), v) => { let _ = writeln!(assign, "{id} = {};", rs_lit_leaf(&Leaf::Sc(*i), v, &anchor)); }
                        (Ty::Enum(i), v) => { let _ = writeln!(assign, "{id} = {};", rs_lit_leaf(&Leaf::Enum(*i), v, &anchor)); }
                        (Ty::Ptr(..), v) => { let _ = writeln!(assign, "{id} = {} as _;", rs_lit_leaf(&Leaf::PtrVoid, v, &anchor)); }
                        other => panic!("global assign {other:?}"),
                    }
                    newv = Some(v);
                }
            }
        }
        let _ = writeln!(body, "let h0 = h; let addr_ok = ({ga}() as usize) == (::std::ptr::addr_of!({id}) as usize);");
        body.push_str(&assign);
        let _ = writeln!(body, "let hc = {gh}(); println!(\"G {gi} {{:x}} {{}} {{:x}}\", h0, addr_ok as u8, hc); }}");
        case.global_new.push(newv);
    }
    // functions
    let mut nr_block = String::new();
    for (fi, f) in lib.funcs.iter().enumerate() {
        if f.is_static || (f.inline && !case.opts.inline) { case.calls.push(None); continue; }
        let b = fn_by_sym.get(&f.name).ok_or_else(|| format!("no binding refers to function symbol {}", f.name))?;
        let id = &b.ident;
        if f.inline {
            let _ = writeln!(body, "println!(\"I {fi} {{}}\", {id}(5));");
            case.calls.push(None);
            continue;
        }
        if b.args.len() != f.params.len() { return Err(format!("{}: {} parameters in the binding, {} in C", f.name, b.args.len(), f.params.len())); }
        if b.variadic != f.tail.is_some() { return Err(format!("{}: variadic mismatch", f.name)); }
        let call = gen_call(lib, f, r);
        let exp = simulate(lib, fi, f, case.inits[fi], &call);
        let mut blk = String::from("{\n");
        let mut argx: Vec<String> = vec![];
        let mut wbs = String::new();
        let mut cbs: Vec<usize> = vec![];
        for (k, ((_, p), a)) in f.params.iter().zip(&call.args).enumerate() {
            let pty = &b.args[k].1;
            let ptoks = inv::tokens(pty);
            match (p, a) {
                (Param::Val(t), ArgVal::UnionLeaf(v)) => {
                    if let Ty::Union(u) = lib.resolve(t) {
                        let m = f.union_member % lib.unions[*u].members.len();
                        let _ = writeln!(blk, "let mut a{k}: {ptoks} = ::std::mem::zeroed(); a{k}.m{m} = {};", rs_lit_leaf(&Leaf::Sc(lib.unions[*u].members[m]), v, &anchor));
                        argx.push(format!("a{k}"));
                    }
                }
                (Param::Val(t), ArgVal::Plain(v)) => match (lib.resolve(t), v) {
                    (Ty::FnPtr(s), Val::Cb) => {
                        let sig = &lib.cbsigs[*s];
                        let bf = inv::option_fn(inv.resolve_alias(pty)).ok_or_else(|| format!("{}: parameter {k} is not an Option<extern fn>: {ptoks}", f.name))?;
                        if bf.inputs.len() != sig.params.len() { return Err(format!("{}: callback parameter count", f.name)); }
                        let slot = ncb; ncb += 1; cbs.push(slot);
                        let mut def = format!("unsafe extern \"C\" fn rcb{slot}(");
                        for (j, a) in bf.inputs.iter().enumerate() { let _ = write!(def, "a{j}: {}, ", inv::tokens(&a.ty)); }
                        def.push(')');
                        let rty = match &bf.output { syn::ReturnType::Default => None, syn::ReturnType::Type(_, t) => Some(inv::tokens(t)) };
                        if rty.is_some() != sig.ret.is_some() { return Err(format!("{}: callback return type presence", f.name)); }
                        if let Some(rt) = &rty { let _ = write!(def, " -> {rt}"); }
                        let _ = writeln!(def, " {{ let mut h = 0x{:x}u64;", INIT ^ (0xab00 + (fi * 16 + k) as u64));
                        for (j, cp) in sig.params.iter().enumerate() {
                            match cp { CbP::Sc(sc) => rs_fold_leaf(&Leaf::Sc(*sc), &format!("a{j}"), &mut def), CbP::PtrSc(_, sc) => rs_fold_leaf(&Leaf::Sc(*sc), &format!("*a{j}"), &mut def) }
                        }
                        let _ = writeln!(def, "CBH[{slot}] = h;");
                        for (j, cp) in sig.params.iter().enumerate() {
                            if let CbP::PtrSc(false, sc) = cp {
                                let et = inv.pointee(&bf.inputs[j].ty).map(inv::tokens).ok_or("callback pointer parameter")?;
                                let _ = writeln!(def, "*a{j} = {};", rs_make_leaf(*sc, &format!("fold(h, {})", j + 1), &et));
                            }
                        }
                        if let (Some(rs), Some(rt)) = (sig.ret, &rty) { let _ = writeln!(def, "{}", rs_make_leaf(rs, "h", rt)); }
                        def.push_str("}\n");
                        top.push_str(&def);
                        argx.push(format!("Some(rcb{slot})"));
                    }
                    (Ty::FnPtr(_), _) => argx.push("None".into()),
                    (Ty::Ptr(_, inner), Val::P(pv)) if **inner != Ty::Void => {
                        let et = deref_tokens(inv, pty).ok_or_else(|| format!("{}: parameter {k} is not a raw pointer: {ptoks}", f.name))?;
                        match (lib.resolve(inner), &**pv) {
                            (Ty::Ptr(_, in2), Val::P(pv2)) => {
                                let et2 = inv.pointee(pty).and_then(|e| inv.pointee(e)).map(inv::tokens).ok_or_else(|| format!("{}: parameter {k} is not a pointer to pointer: {ptoks}", f.name))?;
                                rs_init(lib, in2, pv2, &format!("l{k}_0"), &et2, &anchor, &mut blk);
                                let _ = writeln!(blk, "let mut l{k}: {et} = &mut l{k}_0;");
                            }
                            (Ty::Ptr(_, _), _) => { let _ = writeln!(blk, "let mut l{k}: {et} = ::std::ptr::null_mut();"); }
                            _ => rs_init(lib, inner, pv, &format!("l{k}"), &et, &anchor, &mut blk),
                        }
                        argx.push(format!("&mut l{k}"));
                        if let (Ty::Ptr(false, _), Ty::Sc(sc)) = (lib.resolve(t), lib.resolve(inner)) { rs_fold_leaf(&Leaf::Sc(*sc), &format!("l{k}"), &mut wbs); }
                    }
                    (Ty::Ptr(_, inner), Val::Null) if **inner != Ty::Void => argx.push("::std::ptr::null_mut()".into()),
                    _ => { rs_init(lib, t, v, &format!("a{k}"), &ptoks, &anchor, &mut blk); argx.push(format!("a{k}")); }
                },
                (Param::Arr { .. } | Param::TdArr { .. }, ArgVal::Arr(vs)) => {
                    let sc = elem_of(p, lib);
                    let et = deref_tokens(inv, pty).ok_or_else(|| format!("{}: array parameter {k} did not decay to a pointer: {ptoks}", f.name))?;
                    let lits: Vec<String> = vs.iter().map(|v| rs_lit_leaf(&Leaf::Sc(sc), v, &anchor)).collect();
                    let _ = writeln!(blk, "let mut a{k}: [{et}; {}] = [{}];", vs.len(), lits.join(", "));
                    argx.push(format!("a{k}.as_mut_ptr()"));
                    if let Param::Arr { konst: false, .. } = p { rs_fold_leaf(&Leaf::Sc(sc), &format!("a{k}[0]"), &mut wbs); }
                }
                (Param::Arr2 { elem, .. }, ArgVal::Arr2(vss)) => {
                    let et = deref_tokens(inv, pty).ok_or_else(|| format!("{}: 2-d array parameter {k} did not decay: {ptoks}", f.name))?;
                    let rows: Vec<String> = vss.iter().map(|vs| format!("[{}]", vs.iter().map(|v| rs_lit_leaf(&Leaf::Sc(*elem), v, &anchor)).collect::<Vec<_>>().join(", "))).collect();
                    let _ = writeln!(blk, "let mut a{k}: [{et}; {}] = [{}];", vss.len(), rows.join(", "));
                    argx.push(format!("a{k}.as_mut_ptr()"));
                }
                other => panic!("render {other:?}"),
            }
        }
        if let Some(t) = &f.tail {
            for (v, x) in t.iter().zip(&call.tail) {
                argx.push(match v {
                    VarArg::Anchor => format!("::std::ptr::addr_of_mut!({anchor}) as *mut ::std::os::raw::c_void"),
                    VarArg::Double => rs_lit_leaf(&Leaf::Sc(SC_DOUBLE), x, &anchor),
                    other => { let l = tail_leaf(other); let Leaf::Sc(s) = l else { unreachable!() }; format!("({}) as {}", rs_lit_leaf(&l, x, &anchor).trim_end_matches(" as _"), SCALARS[s].rs) }
                });
            }
        }
        if f.noreturn {
            let _ = writeln!(blk, "use ::std::io::Write; ::std::io::stdout().flush().unwrap();\n{id}({});\nprintln!(\"NR-RETURNED\"); }}", argx.join(", "));
            nr_block = blk;
            case.calls.push(Some((call, exp)));
            continue;
        }
        let callx = format!("{id}({})", argx.join(", "));
        blk.push_str("let mut h = 0x");
        let _ = writeln!(blk, "{INIT:x}u64;");
        match f.ret.as_ref().map(|t| lib.resolve(t)) {
            None => { let _ = writeln!(blk, "{callx};"); }
            Some(Ty::FnPtr(s)) => {
                let sig = &lib.cbsigs[*s];
                let rty = b.ret.as_ref().ok_or_else(|| format!("{}: no return type in the binding", f.name))?;
                let bf = inv::option_fn(inv.resolve_alias(rty)).ok_or_else(|| format!("{}: return type is not an Option<extern fn>", f.name))?;
                let _ = writeln!(blk, "let r = {callx};\nmatch r {{ Some(rf) => {{");
                let mut ax = vec![];
                for (j, (cp, v)) in sig.params.iter().zip(&call.ret_cb_args).enumerate() {
                    match cp {
                        CbP::Sc(sc) => ax.push(rs_lit_leaf(&Leaf::Sc(*sc), v, &anchor)),
                        CbP::PtrSc(_, sc) => {
                            let et = bf.inputs.get(j).and_then(|a| inv.pointee(&a.ty)).map(inv::tokens).ok_or("returned fn pointer parameter")?;
                            let _ = writeln!(blk, "let mut q{j}: {et} = {};", rs_lit_leaf(&Leaf::Sc(*sc), v, &anchor));
                            ax.push(format!("&mut q{j}"));
                        }
                    }
                }
                let _ = writeln!(blk, "h = fold(h, 1);");
                if let Some(rs) = sig.ret { let _ = writeln!(blk, "let rr = rf({});", ax.join(", ")); rs_fold_leaf(&Leaf::Sc(rs), "rr", &mut blk); } else { let _ = writeln!(blk, "rf({});", ax.join(", ")); }
                let _ = writeln!(blk, "}} None => {{ h = fold(h, 0xdead); }} }}");
            }
            Some(Ty::Union(u)) => { let _ = writeln!(blk, "let r = {callx};"); rs_fold_leaf(&Leaf::Sc(lib.unions[*u].members[0]), "r.m0", &mut blk); }
            Some(_) => { let _ = writeln!(blk, "let r = {callx};"); rs_fold(lib, f.ret.as_ref().unwrap(), "r", &mut blk); }
        }
        let _ = writeln!(blk, "let hret = h; let hlast = {last}; let mut h = 0x{INIT:x}u64;");
        blk.push_str(&wbs);
        let _ = writeln!(blk, "let hwb = h; let mut h = 0x{INIT:x}u64;");
        for s in &cbs { let _ = writeln!(blk, "h = fold(h, CBH[{s}]);"); }
        let _ = writeln!(blk, "println!(\"F {fi} {{:x}} {{:x}} {{:x}} {{:x}}\", hlast, hret, hwb, h); }}");
        body.push_str(&blk);
        case.calls.push(Some((call, exp)));
    }
    let _ = writeln!(top, "static mut CBH: [u64; {}] = [0; {}];", ncb.max(1), ncb.max(1));
    Ok(format!("{top}fn main() {{ unsafe {{\n{body}\nprintln!(\"END\");\n{nr_block}\n}} }}\n"))
}

fn elem_of(p: &Param, lib: &Lib) -> usize {
    match p { Param::Arr { elem, .. } => *elem, Param::TdArr { td, .. } => lib.arr_typedefs[*td].1, Param::Arr2 { elem, .. } => *elem, _ => 0 }
}

fn gen_opts(lib: &Lib, r: &mut Rng, mode: CbMode) -> Opts {
    let mut overrides = vec![];
    for f in &lib.funcs {
        // (never for a function the header gives another convention: the override would make the binding lie about it)
        if f.name.starts_with("c04_f") && f.tail.is_none() && !f.inline && !f.is_static && !f.ms_abi && r.chance(1, 10) {
            overrides.push((f.name.clone(), (*r.pick(&["C-unwind", "system", "C"])).to_string()));
        }
    }
    Opts { merge: r.chance(1, 2), sort: r.chance(1, 2), c_naming: r.chance(1, 3), inline: r.chance(1, 2), overrides, mode }
}

fn flags_for(dir: &Path, o: &Opts) -> Vec<String> {
    let mut f = vec![dir.join("lib.h").to_string_lossy().into_owned(), "--formatter".into(), "none".into()];
    if o.merge { f.push("--merge-extern-blocks".into()); }
    if o.sort { f.push("--sort-semantically".into()); }
    if o.c_naming { f.push("--c-naming".into()); }
    if o.inline { f.push("--generate-inline-functions".into()); }
    for (n, a) in &o.overrides { f.push("--override-abi".into()); f.push(format!("{n}={a}")); }
    f
}

/// Compare the syn inventory with the model's prediction from the IR dump.
/// Returns the set of (ident, attr) the model predicts, for the region checks.
fn check_against_model(case_name: &str, tf: &str, ir: &Ir, inv: &Inventory, mode: CbMode, overrides: &[(String, String)], c_naming: bool,
                       cc_of: &dyn Fn(&str) -> String, argbytes_of: &dyn Fn(&str) -> u64, st: &mut Stats) -> Vec<(String, String, String)> {
    // fn / var records of items that were generated
    let mut fns = vec![];
    let mut vars = vec![];
    let mut sigs: Vec<(String, u64, String)> = vec![];
    let feats = enabled_abi_feats();
    // pass 1: ABI decision of every function (model: override lookup + feature gates)
    let mut fn_rows: Vec<(String, String, String, String, String, u64)> = vec![];
    let mut abi_reqs = vec![];
    for r in &ir.recs {
        let id = r.num("id").unwrap_or(0);
        let enabled = ir.item(id).is_some_and(|i| i.flag("codegen") && i.flag("enabled") && !i.flag("blocklisted"));
        if r.tag == "fn" && enabled {
            let name = irdump::unesc(r.get("name"));
            if r.get("linkage") == "Internal" { continue; }
            // methods: canonical name = <class>_<name> (Item::canonical_name joins the ancestors with `_`)
            let base = { let b = ir.canonical_base(id); if b.is_empty() { name.clone() } else if b.ends_with(&name) || !r.get("kind").starts_with("Function") { b } else { name.clone() } };
            let cname = match mode { CbMode::ItemName | CbMode::StripUnderscore | CbMode::Twin => rename(mode, &base).unwrap_or_else(|| base.clone()), _ => base.clone() };
            let clang_cc = cc_of(&name);
            let ovs: Vec<String> = overrides.iter().map(|(n, a)| format!("{a}.{}", (*n == name) as u8)).collect();
            let variadic = r.num("sig").and_then(|s| ir.ty(s)).map(|t| t.flag("variadic") && t.get("args") != "-").unwrap_or(false);
            abi_reqs.push(format!("c04 abi ovs={} clang={clang_cc} feats={} variadic={}", if ovs.is_empty() { "-".into() } else { ovs.join(",") }, feats, variadic as u8));
            fn_rows.push((name.clone(), cname, r.opt_str("mangled").map(|m| hex(&m)).unwrap_or_else(|| "-".into()),
                r.opt_str("link").map(|m| hex(&m)).unwrap_or_else(|| "-".into()), String::new(), argbytes_of(&name)));
            let sym = r.opt_str("mangled").unwrap_or_else(|| name.clone());
            sigs.push((name, r.num("sig").unwrap_or(0), sym));
        }
        if r.tag == "var" && enabled && r.get("val") == "-" {
            let name = irdump::unesc(r.get("name"));
            let base = { let b = ir.canonical_base(id); if b.is_empty() { name.clone() } else { b } };
            let cname = match mode { CbMode::ItemName | CbMode::StripUnderscore | CbMode::Twin => rename(mode, &base).unwrap_or_else(|| base.clone()), _ => base.clone() };
            vars.push(format!("{}:{}:{}:{}", hex(&name), hex(&cname),
                r.opt_str("mangled").map(|m| hex(&m)).unwrap_or_else(|| "-".into()),
                r.opt_str("link").map(|m| hex(&m)).unwrap_or_else(|| "-".into())));
        }
    }
    let abi_ans = if abi_reqs.is_empty() { vec![] } else { util::model(&abi_reqs) };
    let mut abi_by_name: BTreeMap<String, String> = BTreeMap::new();
    for ((name, cname, m, l, _, ab), a) in fn_rows.iter().zip(&abi_ans) {
        let (cc, skip) = if a == "unsupported" { ("C".to_string(), 1) } else { (a.clone(), 0) };
        abi_by_name.insert(name.clone(), a.clone());
        st.distinct.insert(format!("abi-decision:{a}"));
        fns.push(format!("{}:{}:{}:{}:{}:0:{}:{}", hex(name), hex(cname), m, l, cc, skip, ab));
    }
    let req = format!("c04 lib tf={tf} wrap=0 suffix=- fns={} vars={}", if fns.is_empty() { "-".into() } else { fns.join(";") }, if vars.is_empty() { "-".into() } else { vars.join(";") });
    // lowering requests
    let mut tc = TermCtx { ir, leaf: BTreeMap::new(), scalars: vec![], c_naming };
    let mut reqs = vec![req.clone()];
    let mut lower_meta: Vec<(String, usize, bool)> = vec![]; // (fn name, param index / usize::MAX for ret, _)
    for (_name, sig, sym) in &sigs {
        let name = sym;
        let Some(sr) = ir.ty(*sig).cloned() else { continue };
        // canonical type of the signature (through aliases / typerefs)
        let mut sr = sr;
        let mut guard = 0;
        while matches!(sr.get("k"), "Alias" | "ResolvedTypeRef") && guard < 20 { match sr.num("inner").and_then(|i| ir.ty(i)) { Some(x) => sr = x.clone(), None => break }; guard += 1; }
        if sr.get("k") != "Function" { continue; }
        if let Some(t) = sr.num("ret").and_then(|i| tc.term(i, 0)) {
            reqs.push(format!("c04 lower r{} {}", sr.get("divergent"), t));
            lower_meta.push((name.clone(), usize::MAX, false));
        }
        let a = sr.get("args");
        if a != "-" {
            for (k, p) in a.split(',').enumerate() {
                let Some(aid) = p.split(':').next().and_then(|x| x.parse::<u64>().ok()) else { continue };
                if let Some(t) = tc.term(aid, 0) {
                    reqs.push(format!("c04 lower p{} {}", ir.konst(aid) as u8, t));
                    lower_meta.push((name.clone(), k, false));
                }
            }
        }
    }
    let ans = util::model(&reqs);
    let lib_ans = ans.first().cloned().unwrap_or_default();
    let (fpart, vpart) = lib_ans.split_once('|').unwrap_or((&lib_ans, ""));
    let mut pred: Vec<(String, String, String)> = vec![];
    let mut pred_f = vec![];
    for e in fpart.split(',').filter(|s| !s.is_empty()) {
        let p: Vec<&str> = e.split(':').collect();
        if p.len() == 4 { pred_f.push(format!("fn {} {}", unhex(p[1]), attr_text(p[2]))); pred.push((unhex(p[1]), attr_text(p[2]), unhex(p[3]))); }
    }
    let mut pred_v = vec![];
    for e in vpart.split(',').filter(|s| !s.is_empty()) {
        let p: Vec<&str> = e.split(':').collect();
        if p.len() == 4 { pred_v.push(format!("static {} {}", unhex(p[1]), attr_text(p[2]))); pred.push((unhex(p[1]), attr_text(p[2]), unhex(p[3]))); }
    }
    let mut real_f: Vec<String> = inv.fns.iter().map(|f| format!("fn {} {}", f.ident, f.link_name.clone().unwrap_or_else(|| "none".into()))).collect();
    let mut real_v: Vec<String> = inv.statics.iter().map(|f| format!("static {} {}", f.ident, f.link_name.clone().unwrap_or_else(|| "none".into()))).collect();
    pred_f.sort(); pred_v.sort(); real_f.sort(); real_v.sort();
    st.bump("inventory_items_compared", (real_f.len() + real_v.len()) as u64);
    if pred_f != real_f || pred_v != real_v {
        let only_m: Vec<&String> = pred_f.iter().chain(&pred_v).filter(|x| !real_f.contains(x) && !real_v.contains(x)).collect();
        let only_r: Vec<&String> = real_f.iter().chain(&real_v).filter(|x| !pred_f.contains(x) && !pred_v.contains(x)).collect();
        st.fail("correspondence", "extern-inventory", format!("model-only={only_m:?} implementation-only={only_r:?}"), case_name);
    }
    // ABI strings: extern block ABI of each fn = override or clang's
    for f in &inv.fns {
        let sym = if tf == "elf" { inv::elf_symbol(&f.ident, &f.link_name) } else { String::new() };
        if tf == "elf" {
            let irname = sigs.iter().find(|(_, _, s)| *s == sym).map(|(n, _, _)| n.clone()).unwrap_or_else(|| sym.clone());
            let want = abi_by_name.get(&irname).cloned().unwrap_or_else(|| cc_of(&irname));
            if f.abi != want { st.fail("correspondence", "abi", format!("{}: extern \"{}\" but the model says \"{}\"", f.ident, f.abi, want), case_name); }
            st.distinct.insert(format!("abi:{}", f.abi));
        }
    }
    // lowered shapes
    let by_sym: BTreeMap<String, &ExternFn> = inv.fns.iter().map(|f| (f.ident.clone(), f)).collect();
    let ident_of: BTreeMap<String, String> = {
        // map C-level function name -> Rust ident through the prediction order (same order as sigs after dedup): use symbol
        let mut m = BTreeMap::new();
        for f in &inv.fns { m.insert(inv::elf_symbol(&f.ident, &f.link_name), f.ident.clone()); }
        m
    };
    for ((name, k, _), a) in lower_meta.iter().zip(ans.iter().skip(1)) {
        // the IR `name` is post-`generated_name_override`; find the binding by the mangled symbol when possible
        let ident = ident_of.get(name).cloned();
        let Some(ident) = ident else { continue };
        let Some(f) = by_sym.get(&ident) else { continue };
        let want = tc.expand(a);
        let got = if *k == usize::MAX { f.ret.as_ref().map(inv::shape).unwrap_or_else(|| "U".into()) } else { match f.args.get(*k) { Some((_, t)) => inv::shape(t), None => "<missing>".into() } };
        st.bump("lowered_types_compared", 1);
        let cls: String = a.chars().filter(|c| !c.is_ascii_digit()).collect();
        st.distinct.insert(format!("lower:{}:{}", if *k == usize::MAX { "r" } else { "p" }, cls));
        if want != got && want != strip_ns(&got) {
            st.fail("correspondence", "lowering", format!("{name} {}: model {want} (raw {a}) implementation {got}", if *k == usize::MAX { "return".into() } else { format!("param {k}") }), case_name);
        }
    }
    pred
}

/// the ABI features of the default Rust target, as the real `RustFeatures::new` reports them
fn enabled_abi_feats() -> String {
    let t = bindgen::RustTarget::default().to_string();
    let dbg = bindgen::verif::rust_features(&t, "2021").unwrap_or_default();
    let v: Vec<&str> = ["thiscall_abi", "vectorcall_abi", "c_unwind_abi", "abi_efiapi"].into_iter().filter(|f| dbg.contains(&format!("{f}: true"))).collect();
    if v.is_empty() { "-".into() } else { v.join(",") }
}

/// `<root::ns::X>` -> `<X>` (with --enable-cxx-namespaces types are named by their module path)
fn strip_ns(shape: &str) -> String {
    let mut out = String::new();
    let mut rest = shape;
    while let Some(i) = rest.find("<root::") {
        out.push_str(&rest[..i + 1]);
        let end = rest[i..].find('>').map(|e| i + e).unwrap_or(rest.len());
        let inner = &rest[i + 1..end];
        out.push_str(inner.rsplit("::").next().unwrap_or(inner));
        rest = &rest[end..];
    }
    out.push_str(rest);
    out
}

fn attr_text(a: &str) -> String {
    if a == "none" { "none".into() } else if let Some(h) = a.strip_prefix("raw.") { format!("\u{1}{}", unhex(h)) } else if let Some(h) = a.strip_prefix("plain.") { unhex(h) } else { a.into() }
}

fn prepare_lib(idx: usize, root: &Path, r: &mut Rng, thorough: bool, st: &mut Stats) -> Option<LibCase> {
    let lib = gen_lib(r, &GenCfg { max_funcs: if thorough { 40 } else { 24 }, lib_index: idx });
    let mode = match r.below(6) { 0 => CbMode::ItemName, 1 => CbMode::NameOverride, _ => CbMode::None };
    let opts = gen_opts(&lib, r, mode);
    let dir = root.join(format!("lib{idx}"));
    std::fs::create_dir_all(&dir).unwrap();
    let inits: Vec<u64> = (0..lib.funcs.len()).map(|i| INIT ^ ((i as u64 + 1).wrapping_mul(0x9e3779b97f4a7c15))).collect();
    util::write(&dir.join("lib.h"), &lib.header());
    util::write(&dir.join("lib.c"), &lib.c_source(&inits));
    let flags = flags_for(&dir, &opts);
    let name = format!("lib{idx}");
    let out = generate(&flags, mode, &dir.join("ir.log"));
    st.bump("libraries", 1);
    st.bump("functions", lib.funcs.len() as u64);
    st.bump("globals", lib.globals.len() as u64);
    let Some(bindings) = out.bindings.clone() else {
        st.fail("oracle", "bindgen-failed", format!("error={:?} panic={:?}", out.error, out.panic), &name);
        keep_case(&dir, &name);
        return None;
    };
    util::write(&dir.join("bindings.rs"), &bindings);
    let inventory = match inv::inventory(&bindings) { Ok(i) => i, Err(e) => { st.fail("oracle", "bindings-unparsable", e, &name); keep_case(&dir, &name); return None; } };
    let log = irdump::parse_log(out.log.as_deref().unwrap_or(""));
    if let Some(d) = log.dumps.into_iter().last() {
        let ir = Ir::new(d);
        let before = st.failures.len();
        let mut ms: std::collections::BTreeSet<String> = lib.funcs.iter().filter(|f| f.ms_abi).map(|f| f.name.clone()).collect();
        for m in ms.clone() { if let Some(rn) = rename(mode, &m) { ms.insert(rn); } }
        check_against_model(&name, "elf", &ir, &inventory, mode, &opts.overrides, opts.c_naming, &|n| if ms.contains(n) { "win64".into() } else { "C".into() }, &|_| 0, st);
        if st.failures.len() > before { keep_case(&dir, &name); }
    } else {
        st.fail("correspondence", "ir-dump-missing", "no IR dump".into(), &name);
    }
    let mut expect_fn = BTreeMap::new();
    let mut expect_absent = vec![];
    for (i, f) in lib.funcs.iter().enumerate() {
        if f.is_static || (f.inline && !opts.inline) { expect_absent.push(f.name.clone()); } else { expect_fn.insert(f.name.clone(), i); }
    }
    let mut case = LibCase { idx, dir, lib, inits, opts, flags, inv: Some(inventory), calls: vec![], global_new: vec![], caller_ok: false, expect_fn, expect_absent };
    // option distribution
    st.bump(&format!("opt_merge_{}", case.opts.merge as u8), 1);
    st.bump(&format!("opt_sort_{}", case.opts.sort as u8), 1);
    st.bump(&format!("opt_cnaming_{}", case.opts.c_naming as u8), 1);
    st.bump(&format!("opt_inline_{}", case.opts.inline as u8), 1);
    st.bump(&format!("opt_callback_{:?}", case.opts.mode), 1);
    st.bump("opt_abi_overrides", case.opts.overrides.len() as u64);
    match render_caller(&mut case, r) {
        Ok(src) => { util::write(&case.dir.join("caller.rs"), &src); case.caller_ok = true; }
        Err(e) => { st.fail("oracle", "binding-shape", e, &name); keep_case(&case.dir, &name); }
    }
    // absent / mutability / symbol-level expectations on the inventory
    let inv = case.inv.as_ref().unwrap();
    for a in &case.expect_absent {
        if inv.fns.iter().any(|f| inv::elf_symbol(&f.ident, &f.link_name) == *a) {
            st.fail("oracle", "unexpected-binding", format!("{a} (static / inline without --generate-inline-functions) has a binding"), &name);
        }
    }
    for g in &case.lib.globals {
        if let Some(s) = inv.statics.iter().find(|s| inv::elf_symbol(&s.ident, &s.link_name) == g.name) {
            if s.mutable == g.konst { st.fail("oracle", "global-mutability", format!("{}: const={} but `static{}`", g.name, g.konst, if s.mutable { " mut" } else { "" }), &name); }
            st.distinct.insert(format!("global:{}:{}", g.konst, matches!(g.ty, GTy::Arr(..))));
        }
    }
    // duplicates: one binding per symbol
    let mut seen = BTreeSet::new();
    for f in &inv.fns { if !seen.insert(inv::elf_symbol(&f.ident, &f.link_name)) { st.fail("oracle", "duplicate-binding", format!("two bindings refer to {}", f.ident), &name); } }
    Some(case)
}

fn keep_case(dir: &Path, name: &str) {
    if let Ok(keep) = std::env::var("C04_KEEP") {
        let dst = Path::new(&keep).join(name);
        let _ = std::fs::create_dir_all(&dst);
        for f in ["lib.h", "lib.c", "bindings.rs", "caller.rs"] { let _ = std::fs::copy(dir.join(f), dst.join(f)); }
    }
}

struct RunOut { clang_err: Option<String>, nm: BTreeSet<String>, rustc_err: Option<String>, stdout: String, rc: i32 }

fn build_and_run(dir: &Path) -> RunOut {
    let mut o = RunOut { clang_err: None, nm: BTreeSet::new(), rustc_err: None, stdout: String::new(), rc: -1 };
    let (rc, _s, e) = util::run(Command::new("clang").args(["-O1", "-w", "-std=gnu11", "-c"]).arg(dir.join("lib.c")).arg("-o").arg(dir.join("lib.o")).current_dir(dir));
    if rc != 0 { o.clang_err = Some(e); return o; }
    let (_rc, s, _e) = util::run(Command::new("nm").args(["-g", "--defined-only"]).arg(dir.join("lib.o")));
    for l in s.lines() { if let Some(n) = l.split_whitespace().nth(2) { o.nm.insert(n.to_owned()); } }
    let (rc, _s, e) = util::run(Command::new("rustc").args(["--edition", "2021", "--cap-lints", "allow", "-C", "opt-level=1", "-C", "debuginfo=0"])
        .arg("-C").arg(format!("link-arg={}", dir.join("lib.o").display())).arg("-o").arg(dir.join("caller")).arg(dir.join("caller.rs")).current_dir(dir));
    if rc != 0 { o.rustc_err = Some(e); return o; }
    let (rc, s, _e) = util::run(&mut Command::new(dir.join("caller")));
    o.stdout = s; o.rc = rc;
    o
}

fn judge(case: &LibCase, ro: &RunOut, st: &mut Stats) {
    let name = format!("lib{}", case.idx);
    let before = st.failures.len();
    if let Some(e) = &ro.clang_err { st.fail("oracle", "generator-c-invalid", e.chars().take(1500).collect(), &name); keep_case(&case.dir, &name); return; }
    let inv = case.inv.as_ref().unwrap();
    // nm: every binding the generator expects refers to a defined symbol of that very name
    for (sym, _) in &case.expect_fn {
        st.bump("nm_symbols_checked", 1);
        if !ro.nm.contains(sym) { st.fail("oracle", "generator-symbol-missing", format!("{sym} not defined by the C object"), &name); }
        match inv.fns.iter().find(|f| inv::elf_symbol(&f.ident, &f.link_name) == *sym) {
            None => st.fail("oracle", "symbol-unbound", format!("no binding refers to {sym}"), &name),
            Some(f) => { st.distinct.insert(format!("link:{}", match &f.link_name { None => "none", Some(l) if l.starts_with('\u{1}') => "raw", Some(_) => "plain" })); }
        }
    }
    for f in &inv.fns {
        let s = inv::elf_symbol(&f.ident, &f.link_name);
        if s.starts_with("c04") && !ro.nm.contains(&s) && !case.expect_absent.contains(&s) { st.fail("oracle", "symbol-undefined", format!("binding {} refers to {s}, which the C object does not define", f.ident), &name); }
    }
    if let Some(e) = &ro.rustc_err {
        st.fail("oracle", "rustc-or-link", e.chars().take(2500).collect(), &name);
        keep_case(&case.dir, &name);
        return;
    }
    let mut seen_f = BTreeSet::new();
    let mut seen_g = BTreeSet::new();
    let mut ended = false;
    let mut nr_seen = None;
    for l in ro.stdout.lines() {
        let t: Vec<&str> = l.split_whitespace().collect();
        match t.first().copied() {
            Some("F") if t.len() == 6 => {
                let fi: usize = t[1].parse().unwrap_or(usize::MAX);
                seen_f.insert(fi);
                let got = Expect { last: u64::from_str_radix(t[2], 16).unwrap_or(0), ret: u64::from_str_radix(t[3], 16).unwrap_or(0), wb: u64::from_str_radix(t[4], 16).unwrap_or(0), cb: u64::from_str_radix(t[5], 16).unwrap_or(0) };
                if let Some(Some((_, exp))) = case.calls.get(fi) {
                    st.bump("calls_checked", 1);
                    let f = &case.lib.funcs[fi];
                    if *exp != got {
                        let what = if exp.last != got.last { "arguments-into-callee" } else if exp.ret != got.ret { "return-value" } else if exp.wb != got.wb { "write-back" } else { "callback-arguments" };
                        st.fail("oracle", &format!("checksum:{what}"), format!("{}: `{}` expected {exp:x?} observed {got:x?}", f.name, case.lib.proto(f, true, false)), &name);
                    }
                }
            }
            Some("G") if t.len() == 5 => {
                let gi: usize = t[1].parse().unwrap_or(usize::MAX);
                seen_g.insert(gi);
                if let Some(g) = case.lib.globals.get(gi) {
                    st.bump("globals_checked", 1);
                    let h0 = u64::from_str_radix(t[2], 16).unwrap_or(0);
                    let hc = u64::from_str_radix(t[4], 16).unwrap_or(0);
                    let fold_g = |v: &Val| -> u64 { match (&g.ty, v) {
                        (GTy::Arr(sc, _), Val::Arr(vs)) => vs.iter().fold(INIT, |h, v| case.lib.leaf_image(&Leaf::Sc(*sc), v, h)),
                        (GTy::Val(t), v) => case.lib.fold_val(t, v, INIT),
                        _ => 0 } };
                    let e0 = fold_g(&g.init);
                    let e1 = match case.global_new.get(gi) { Some(Some(v)) => fold_g(v), _ => e0 };
                    if h0 != e0 { st.fail("oracle", "global-read", format!("{}: Rust read {h0:x}, C initialiser is {e0:x}", g.name), &name); }
                    if t[3] != "1" { st.fail("oracle", "global-address", format!("{}: binding does not alias the C object", g.name), &name); }
                    if hc != e1 { st.fail("oracle", "global-write", format!("{}: C sees {hc:x} after the Rust store, expected {e1:x}", g.name), &name); }
                }
            }
            Some("I") if t.len() == 3 => { st.bump("inline_calls_checked", 1); if t[2] != "16" { st.fail("oracle", "inline-call", format!("inline function returned {}", t[2]), &name); } }
            Some("END") => ended = true,
            Some("NR") if t.len() == 2 => nr_seen = u64::from_str_radix(t[1], 16).ok(),
            Some("NR-RETURNED") => st.fail("oracle", "noreturn-returned", "a noreturn function returned".into(), &name),
            _ => {}
        }
    }
    if !ended { st.fail("oracle", "caller-crashed", format!("exit code {} output tail {:?}", ro.rc, ro.stdout.lines().last()), &name); }
    for (fi, c) in case.calls.iter().enumerate() {
        let f = &case.lib.funcs[fi];
        if let Some((_, exp)) = c {
            if f.noreturn {
                st.bump("noreturn_calls_checked", 1);
                if nr_seen != Some(exp.last) { st.fail("oracle", "checksum:noreturn", format!("{} expected {:x} observed {:x?}", f.name, exp.last, nr_seen), &name); }
            } else if ended && !seen_f.contains(&fi) { st.fail("oracle", "call-missing", f.name.clone(), &name); }
        }
    }
    if st.failures.len() > before { keep_case(&case.dir, &name); }
    else if st.samples.len() < 8 && case.idx % 7 == 0 {
        if let Some(f) = case.lib.funcs.iter().find(|f| !f.is_static && !f.inline) {
            st.samples.push(format!("lib{}: {} functions, {} globals, options {:?}; e.g. `{}` called through its binding: checksums equal", case.idx, case.lib.funcs.len(), case.lib.globals.len(), case.flags[3..].join(" "), case.lib.proto(f, true, false)));
        }
    }
}

fn part_b(args: &Args, root: &Path, st: &mut Stats) {
    let n = if args.thorough() { 1500 } else { 150 };
    let mut r = Rng::new(args.seed ^ 0xB0B);
    let threads = std::thread::available_parallelism().map(|x| x.get()).unwrap_or(4).min(16);
    let mut idx = 0;
    while idx < n {
        let batch = (n - idx).min(threads * 4);
        let mut cases = vec![];
        for k in 0..batch { if let Some(c) = prepare_lib(idx + k, root, &mut r, args.thorough(), st) { cases.push(c); } }
        idx += batch;
        // parallel build + run
        let dirs: Vec<(usize, PathBuf, bool)> = cases.iter().enumerate().map(|(i, c)| (i, c.dir.clone(), c.caller_ok)).collect();
        let next = std::sync::atomic::AtomicUsize::new(0);
        let results: std::sync::Mutex<Vec<(usize, RunOut)>> = std::sync::Mutex::new(vec![]);
        std::thread::scope(|s| {
            for _ in 0..threads {
                s.spawn(|| loop {
                    let i = next.fetch_add(1, std::sync::atomic::Ordering::SeqCst);
                    if i >= dirs.len() { break; }
                    if !dirs[i].2 { continue; }
                    let ro = build_and_run(&dirs[i].1);
                    results.lock().unwrap().push((dirs[i].0, ro));
                });
            }
        });
        let mut res = results.into_inner().unwrap();
        res.sort_by_key(|x| x.0);
        for (i, ro) in res { judge(&cases[i], &ro, st); st.bump("executables_run", 1); }
        for c in &cases { let _ = std::fs::remove_dir_all(&c.dir); }
    }
}

// ------------------------------------------------------------------ C. probes, other targets

/// region predicate of the known finding (same as `Link.renameClash` in Lean): the attribute is
/// omitted (names "identical") although the backend's rendering of the Rust name is not the C symbol
fn rename_clash(prefixing: bool, canonical: &str, mangled: &str, cc: Option<&str>) -> bool {
    bindgen::verif::names_identical(canonical, mangled, cc) && (if prefixing { canonical == mangled } else { canonical != mangled })
}

fn probe(name: &str, header: &str, csrc: &str, caller_body: &str, mode: CbMode, root: &Path, st: &mut Stats) -> Option<(Inventory, Vec<(String, String, String)>, RunOut)> {
    probe_cc(name, header, csrc, caller_body, mode, root, &|_| "C".into(), st)
}

/// `cc_of`: the calling convention the header gives each function (what the model is told)
fn probe_cc(name: &str, header: &str, csrc: &str, caller_body: &str, mode: CbMode, root: &Path, cc_of: &dyn Fn(&str) -> String, st: &mut Stats) -> Option<(Inventory, Vec<(String, String, String)>, RunOut)> {
    let dir = root.join(name);
    std::fs::create_dir_all(&dir).unwrap();
    util::write(&dir.join("lib.h"), header);
    util::write(&dir.join("lib.c"), &format!("#include \"lib.h\"\n{csrc}"));
    let flags = vec![dir.join("lib.h").to_string_lossy().into_owned(), "--formatter".into(), "none".into()];
    let out = generate(&flags, mode, &dir.join("ir.log"));
    let b = match out.bindings { Some(b) => b, None => { st.fail("oracle", "bindgen-failed", format!("{:?} {:?}", out.error, out.panic), name); return None; } };
    util::write(&dir.join("bindings.rs"), &b);
    let inventory = inv::inventory(&b).ok()?;
    let log = irdump::parse_log(out.log.as_deref().unwrap_or(""));
    let ir = Ir::new(log.dumps.into_iter().last()?);
    let pred = check_against_model(name, "elf", &ir, &inventory, mode, &[], false, cc_of, &|_| 0, st);
    util::write(&dir.join("caller.rs"), &format!("#![allow(warnings)]\ninclude!(\"bindings.rs\");\nfn main() {{ unsafe {{ {caller_body} }} }}\n"));
    let ro = build_and_run(&dir);
    let _ = std::fs::remove_dir_all(&dir);
    st.bump("probes", 1);
    Some((inventory, pred, ro))
}

fn part_c_probes(root: &Path, st: &mut Stats) {
    // 1. ELF, renaming callback strips a leading underscore from a function
    if let Some((inv, pred, ro)) = probe("probe_strip_fn", "int _c04hid(int x);\n", "int _c04hid(int x) { return x + 1; }\n", "println!(\"R {}\", c04hid(1));", CbMode::StripUnderscore, root, st) {
        let f = inv.fns.iter().find(|f| f.ident == "c04hid");
        let in_region = rename_clash(false, "c04hid", "_c04hid", Some("C"));
        let model_sym = pred.iter().find(|p| p.0 == "c04hid").map(|p| p.2.clone());
        match (f, &ro.rustc_err) {
            (Some(f), Some(e)) if f.link_name.is_none() && e.contains("c04hid") && in_region && model_sym.as_deref() == Some("c04hid") => {
                *st.known.entry("link_name_omitted_after_rename: `int _c04hid(int)` + ParseCallbacks::item_name stripping the underscore -> `pub fn c04hid` without #[link_name] -> undefined symbol `c04hid` at link time (as the model predicts)".into()).or_insert(0) += 1;
            }
            (Some(f), None) if f.link_name.is_some() => { st.distinct.insert("probe:strip:fixed".into()); }
            other => st.fail("oracle", "probe-strip-fn", format!("unexpected outcome: binding={:?} rustc_err={:?} model_symbol={model_sym:?} stdout={:?}", other.0.map(|f| (&f.ident, &f.link_name)), other.1.as_ref().map(|e| e.chars().take(300).collect::<String>()), ro.stdout), "probe_strip_fn"),
        }
    }
    // 2. wrong symbol that links: twin / _twin
    if let Some((inv, pred, ro)) = probe("probe_twin", "int twin(int x);\nint _twin(int x);\n", "int twin(int x) { return x + 100; }\nint _twin(int x) { return x + 200; }\n",
        "println!(\"R {} {}\", twin_pub(1), twin(1));", CbMode::Twin, root, st) {
        let f = inv.fns.iter().find(|f| f.ident == "twin");
        let model_sym = pred.iter().find(|p| p.0 == "twin").map(|p| p.2.clone());
        let in_region = rename_clash(false, "twin", "_twin", Some("C"));
        match f {
            Some(f) if f.link_name.is_none() && ro.stdout.trim() == "R 101 101" && in_region && model_sym.as_deref() == Some("twin") => {
                *st.known.entry("link_name_omitted_after_rename: `int twin(int); int _twin(int);` + item_name {twin->twin_pub, _twin->twin}: the binding `twin` generated for C `_twin` has no #[link_name] and calls C `twin` (observed 101, C `_twin` returns 201)".into()).or_insert(0) += 1;
            }
            Some(f) if f.link_name.is_some() && ro.stdout.trim() == "R 101 201" => { st.distinct.insert("probe:twin:fixed".into()); }
            _ => st.fail("oracle", "probe-twin", format!("unexpected outcome: stdout={:?} rustc_err={:?} model={model_sym:?}", ro.stdout, ro.rustc_err.as_ref().map(|e| e.chars().take(300).collect::<String>())), "probe_twin"),
        }
    }
    // 3. the same for a variable
    if let Some((inv, pred, ro)) = probe("probe_strip_var", "extern int _c04hv;\n", "int _c04hv = 5;\n", "println!(\"R {}\", c04hv);", CbMode::StripUnderscore, root, st) {
        let f = inv.statics.iter().find(|f| f.ident == "c04hv");
        let model_sym = pred.iter().find(|p| p.0 == "c04hv").map(|p| p.2.clone());
        match (f, &ro.rustc_err) {
            (Some(f), Some(e)) if f.link_name.is_none() && e.contains("c04hv") && rename_clash(false, "c04hv", "_c04hv", None) && model_sym.as_deref() == Some("c04hv") => {
                *st.known.entry("link_name_omitted_after_rename: `extern int _c04hv;` + item_name stripping the underscore -> `pub static mut c04hv` without #[link_name] -> undefined symbol at link time".into()).or_insert(0) += 1;
            }
            (Some(f), None) if f.link_name.is_some() => { st.distinct.insert("probe:stripvar:fixed".into()); }
            _ => st.fail("oracle", "probe-strip-var", format!("unexpected outcome: rustc_err={:?} stdout={:?}", ro.rustc_err.as_ref().map(|e| e.chars().take(300).collect::<String>()), ro.stdout), "probe_strip_var"),
        }
    }
    // 3b. no callback at all: an assembler label with a leading underscore (`__asm__("_name")`) is the symbol; on ELF the
    //     Rust name `name` is not that symbol, so the attribute is needed (same region as the renaming cases)
    if let Some((inv, pred, ro)) = probe("probe_asm_label", "int c04_al(int x) __asm__(\"_c04_al\");\nint c04_al2(int x) __asm__(\"c04_other\");\n",
        "int c04_al(int x) { return x + 7; }\nint c04_al2(int x) { return x + 9; }\n", "println!(\"R {} {}\", c04_al(1), c04_al2(1));", CbMode::None, root, st) {
        let f = inv.fns.iter().find(|f| f.ident == "c04_al");
        let f2 = inv.fns.iter().find(|f| f.ident == "c04_al2");
        let model_sym = pred.iter().find(|p| p.0 == "c04_al").map(|p| p.2.clone());
        if f2.and_then(|f| f.link_name.clone()).as_deref() != Some("\u{1}c04_other") { st.fail("oracle", "probe-asm-label", format!("`c04_al2` with label `c04_other`: link_name {:?}", f2.map(|f| &f.link_name)), "probe_asm_label"); }
        match (f, &ro.rustc_err) {
            (Some(f), Some(e)) if f.link_name.is_none() && e.contains("c04_al") && rename_clash(false, "c04_al", "_c04_al", Some("C")) && model_sym.as_deref() == Some("c04_al") => {
                *st.known.entry("link_name_omitted_after_rename: `int c04_al(int) __asm__(\"_c04_al\")` (no callback involved): the binding `c04_al` has no #[link_name], the symbol is `_c04_al` -> undefined symbol `c04_al` at link time on ELF (as the model predicts)".into()).or_insert(0) += 1;
            }
            (Some(f), None) if f.link_name.is_some() && ro.stdout.trim() == "R 8 10" => { st.distinct.insert("probe:asm-label:fixed".into()); }
            other => st.fail("oracle", "probe-asm-label", format!("unexpected outcome: binding={:?} rustc_err={:?} model_symbol={model_sym:?} stdout={:?}", other.0.map(|f| (&f.ident, &f.link_name)), other.1.as_ref().map(|e| e.chars().take(300).collect::<String>()), ro.stdout), "probe_asm_label"),
        }
    }
    // 4. renaming that keeps the symbol reachable (sanity: a correct renaming links and runs)
    if let Some((_inv, _pred, ro)) = probe("probe_rename_ok", "int c04_f9(int x);\nextern int c04_f10;\n", "int c04_f9(int x) { return x * 2; }\nint c04_f10 = 7;\n", "println!(\"R {} {}\", rn_f9(4), rn_f10);", CbMode::ItemName, root, st) {
        if ro.stdout.trim() != "R 8 7" { st.fail("oracle", "probe-rename-ok", format!("stdout={:?} err={:?}", ro.stdout, ro.rustc_err.as_ref().map(|e| e.chars().take(400).collect::<String>())), "probe_rename_ok"); }
    }
    // 5. explicit link-name override: honoured for functions, dropped for variables (model: C04_var_link_override_ignored)
    if let Some((inv, _pred, ro)) = probe("probe_link_override", "int lk_f(int x);\nextern int lk_v;\n", "int real_f(int x) { return x + 3; }\nint real_v = 9;\nint lk_v = 1;\n", "println!(\"R {} {}\", lk_f(1), lk_v);", CbMode::LinkOverride, root, st) {
        let fl = inv.fns.iter().find(|f| f.ident == "lk_f").and_then(|f| f.link_name.clone());
        let vl = inv.statics.iter().find(|f| f.ident == "lk_v").and_then(|f| f.link_name.clone());
        st.samples.push(format!("generated_link_name_override: function link_name={fl:?}, variable link_name={vl:?}, run output {:?}", ro.stdout.trim()));
        if fl.as_deref() != Some("\u{1}real_f") { st.fail("oracle", "probe-link-override", format!("function override not honoured: {fl:?}"), "probe_link_override"); }
        if vl.is_none() && ro.stdout.trim() == "R 4 1" { st.bump("observation_var_link_override_ignored", 1); }
    }
    // 6. long double by value: rendered u128 (INTEGER class), the C callee expects X87 class
    if let Some((inv, _pred, ro)) = probe("probe_long_double", "int c04_ldy(long double x, int y);\n", "int c04_ldy(long double x, int y) { return y; }\n", "println!(\"R {}\", c04_ldy(0x1234, 7));", CbMode::None, root, st) {
        let ty = inv.fns.iter().find(|f| f.ident == "c04_ldy").and_then(|f| f.args.first().map(|a| inv::shape(&a.1)));
        match (ty.as_deref(), ro.stdout.trim()) {
            // model: x is INTEGER class -> occupies rdi:rsi, y travels in rdx; the callee reads y from edi = low half of x
            (Some("<u128>"), "R 4660") => { *st.known.entry("long_double_by_value: `int c04_ldy(long double x, int y)` is bound as fn(x: u128, y: c_int); called with (0x1234, 7) the C callee sees y = 0x1234 (x passed in INTEGER registers instead of X87 class, as the class model predicts)".into()).or_insert(0) += 1; }
            (Some(t), "R 7") if t != "<u128>" => { st.distinct.insert("probe:longdouble:fixed".into()); }
            (t, o) => st.fail("oracle", "probe-long-double", format!("unexpected outcome: type {t:?} output {o:?} err {:?}", ro.rustc_err.as_ref().map(|e| e.chars().take(300).collect::<String>())), "probe_long_double"),
        }
    }
    // 6b. a global that is not `const` but has an initialiser visible in the header: the declared mutability
    //     must survive (`static mut`), the C side may change it
    if let Some((inv, _pred, ro)) = probe("probe_nonconst_global", "int c04_nc = 5;\ndouble c04_ncd = 1.5;\nvoid c04_bump(void);\n", "void c04_bump(void) { c04_nc += 1; c04_ncd += 1.0; }\n",
        "c04_bump(); println!(\"R {} {}\", c04_nc, c04_ncd);", CbMode::None, root, st) {
        let is_static = inv.statics.iter().any(|s| s.ident == "c04_nc") && inv.statics.iter().any(|s| s.ident == "c04_ncd");
        match (is_static, ro.stdout.trim()) {
            (false, "R 5 1.5") => { *st.known.entry("nonconst_global_emitted_as_const: `int c04_nc = 5; double c04_ncd = 1.5;` (not const, initialiser visible) are bound as `pub const c04_nc: c_int = 5` / `pub const c04_ncd: f64 = 1.5`; after the C side changed them to 6 / 2.5 the Rust side still reads 5 / 1.5".into()).or_insert(0) += 1; }
            (true, "R 6 2.5") => { st.distinct.insert("probe:nonconst-global:fixed".into()); }
            (s, o) => st.fail("oracle", "probe-nonconst-global", format!("unexpected outcome: static={s} output {o:?} err {:?}", ro.rustc_err.as_ref().map(|e| e.chars().take(300).collect::<String>())), "probe_nonconst_global"),
        }
    }
    // 6c. declared mutability of array globals, however many dimensions: `const` belongs to the elements
    if let Some((inv, _pred, ro)) = probe("probe_global_mut", "extern const int c04_m2[2][3];\nextern int c04_w2[2][2];\nextern const long c04_k1[3];\nextern const char *const c04_nn[2][2];\nextern const char *c04_pn[2][2];\nextern const short c04_m3[2][2][2];\n",
        "const int c04_m2[2][3] = {{1,2,3},{4,5,6}};\nint c04_w2[2][2] = {{1,2},{3,4}};\nconst long c04_k1[3] = {7,8,9};\nconst char *const c04_nn[2][2] = {{\"a\",\"b\"},{\"c\",\"d\"}};\nconst char *c04_pn[2][2] = {{\"a\",\"b\"},{\"c\",\"d\"}};\nconst short c04_m3[2][2][2] = {{{1,2},{3,4}},{{5,6},{7,8}}};\n",
        "c04_w2[1][1] = 9; println!(\"R {} {} {} {}\", c04_m2[1][2], c04_w2[1][1], c04_k1[2], c04_m3[1][1][1]);", CbMode::None, root, st) {
        let want = [("c04_m2", false), ("c04_w2", true), ("c04_k1", false), ("c04_nn", false), ("c04_pn", true), ("c04_m3", false)];
        let got: Vec<(String, Option<bool>)> = want.iter().map(|(n, _)| (n.to_string(), inv.statics.iter().find(|s| s.ident == *n).map(|s| s.mutable))).collect();
        let bad: Vec<String> = want.iter().zip(got.iter()).filter(|((_, w), (_, g))| *g != Some(*w)).map(|((n, w), (_, g))| format!("{n}: declared {} but bound {:?}", if *w { "mutable" } else { "const" }, g.map(|m| if m { "static mut" } else { "static" }))).collect();
        if !bad.is_empty() { st.fail("oracle", "probe-global-mutability", format!("array globals do not have the declared mutability: {bad:?}"), "probe_global_mut"); }
        else if ro.stdout.trim() != "R 6 9 9 8" { st.fail("oracle", "probe-global-mutability", format!("output {:?} err {:?}", ro.stdout, ro.rustc_err.as_ref().map(|e| e.chars().take(300).collect::<String>())), "probe_global_mut"); }
        else { st.distinct.insert("probe:global-mutability".into()); }
    }
    // 6d. a global with internal linkage and no constant value (`static int c;`): there is no symbol a binding could name
    if let Some((inv, _pred, ro)) = probe("probe_static_global", "static int c04_sv;\nstatic const int c04_sk = 3;\nint c04_svget(void);\n", "int c04_svget(void) { return c04_sv + c04_sk; }\n",
        "println!(\"R {} {}\", c04_sk, c04_sv);", CbMode::None, root, st) {
        let bound = inv.statics.iter().any(|s| s.ident == "c04_sv");
        match (bound, &ro.rustc_err) {
            (true, Some(e)) if e.contains("c04_sv") => { *st.known.entry("internal_linkage_global_bound: `static int c04_sv;` (internal linkage, no constant value) is bound as `extern { pub static mut c04_sv }`: no object file defines that symbol, a use fails at link time".into()).or_insert(0) += 1; }
            (false, _) => { st.distinct.insert("probe:static-global:fixed".into()); }
            (b, e) => st.fail("oracle", "probe-static-global", format!("unexpected outcome: bound={b} err={:?} out={:?}", e.as_ref().map(|e| e.chars().take(300).collect::<String>()), ro.stdout), "probe_static_global"),
        }
    }
    // 7. C overload sets (`__attribute__((overloadable))`) with one transparent (unmangled) member at every
    //    position: the member that is renamed `<name><k>` must still reach the symbol `<name>`
    let tys: [(&str, &str); 6] = [("long", "l"), ("double", "d"), ("int", "i"), ("unsigned", "j"), ("short", "s"), ("float", "f")];
    for (pi, (k, plain)) in [(2usize, 1usize), (3, 2), (3, 0), (4, 1), (3, 3)].into_iter().enumerate() {
        // plain == k: no transparent member
        let name = format!("c04ov{}x", (b'a' + pi as u8) as char);
        let mut header = String::new();
        let mut csrc = String::new();
        let mut syms = vec![];
        for i in 0..k {
            let (t, code) = tys[(i + pi) % tys.len()];
            let attr = if i == plain { "" } else { " __attribute__((overloadable))" };
            header += &format!("int {name}({t} a){attr};\n");
            csrc += &format!("int {name}({t} a){attr} {{ return (int)a + {}; }}\n", 100 * (i + 1));
            syms.push(if i == plain { name.clone() } else { format!("_Z{}{name}{code}", name.len()) });
        }
        // a decoy that owns the symbol the renamed member would wrongly bind
        header += &format!("int {name}9(int a);\n");
        csrc += &format!("int {name}9(int a) {{ return a + 9000; }}\n");
        let pname = format!("probe_overload_{pi}");
        // first pass: learn the bindings, second: call them by symbol
        let dir = root.join(&pname);
        std::fs::create_dir_all(&dir).unwrap();
        util::write(&dir.join("lib.h"), &header);
        let flags = vec![dir.join("lib.h").to_string_lossy().into_owned(), "--formatter".into(), "none".into()];
        let out = generate(&flags, CbMode::None, &dir.join("ir.log"));
        let _ = std::fs::remove_dir_all(&dir);
        let Some(b) = out.bindings else { st.fail("oracle", "bindgen-failed", format!("{:?} {:?}", out.error, out.panic), &pname); continue };
        let Ok(inv0) = inv::inventory(&b) else { continue };
        let mut body = String::new();
        let mut expect = String::from("R");
        let mut missing = vec![];
        for (i, sym) in syms.iter().enumerate() {
            match inv0.fns.iter().find(|f| inv::elf_symbol(&f.ident, &f.link_name) == *sym) {
                Some(f) => { body += &format!("print!(\" {{}}\", {}(7 as _));", f.ident); expect += &format!(" {}", 7 + 100 * (i + 1)); }
                None => missing.push(sym.clone()),
            }
        }
        if !missing.is_empty() {
            st.fail("oracle", "symbol-unbound", format!("overload set {header:?}: no binding refers to {missing:?}; bindings: {:?}", inv0.fns.iter().map(|f| (f.ident.clone(), f.link_name.clone())).collect::<Vec<_>>()), &pname);
        }
        if let Some((_inv, _pred, ro)) = probe(&pname, &header, &csrc, &format!("print!(\"R\"); {body} println!();"), CbMode::None, root, st) {
            if ro.stdout.trim() != expect { st.fail("oracle", "probe-overload", format!("overload set {header:?}: output {:?}, expected {expect:?}; rustc/link error: {:?}", ro.stdout, ro.rustc_err.as_ref().map(|e| e.chars().take(300).collect::<String>())), &pname); }
            else { st.distinct.insert(format!("probe:overload:k{k}:plain{plain}")); }
        }
    }
}

/// the chain of function types of a binding type: (extern ABI, number of parameters) per level, following `Option<fn>` return types
fn fn_levels(t: &syn::Type, out: &mut Vec<(String, usize)>) {
    let bf = match t {
        syn::Type::Path(tp) => {
            let last = tp.path.segments.last().unwrap();
            if last.ident != "Option" { return; }
            match &last.arguments {
                syn::PathArguments::AngleBracketed(ab) => match ab.args.first() { Some(syn::GenericArgument::Type(syn::Type::BareFn(bf))) => bf, _ => return },
                _ => return,
            }
        }
        syn::Type::BareFn(bf) => bf,
        _ => return,
    };
    let abi = bf.abi.as_ref().and_then(|a| a.name.as_ref()).map(|n| n.value()).unwrap_or_else(|| "Rust".into());
    out.push((abi, bf.inputs.len()));
    if let syn::ReturnType::Type(_, r) = &bf.output { fn_levels(r, out); }
}

/// nested function declarators: a function / typedef / member / parameter whose type is a function returning a
/// pointer to function written without a typedef.  Every level has its own parameter list; the Rust caller is
/// written from the C declaration (literal argument counts, hand-written callback types), so a binding that gives
/// a level the parameters of another level does not compile, and one that compiles is run against the C side.
fn part_c_nested(args: &Args, root: &Path, st: &mut Stats) {
    let mut r = Rng::new(args.seed ^ 0x9E57ED);
    const TYS: &[(&str, &str)] = &[("int", "::std::os::raw::c_int"), ("long", "::std::os::raw::c_long"), ("char", "::std::os::raw::c_char"),
        ("short", "::std::os::raw::c_short"), ("double", "f64"), ("unsigned", "::std::os::raw::c_uint"), ("long long", "::std::os::raw::c_longlong")];
    let rounds = if args.thorough() { 48 } else { 8 };
    for k in 0..rounds {
        // fixed shapes first: outer longer than inner, inner longer than outer, one level empty
        let (np, nq) = match k { 0 => (3, 1), 1 => (1, 2), 2 => (0, 1), 3 => (2, 0), _ => (r.below(5) as usize, r.below(4) as usize) };
        let ps: Vec<usize> = (0..np).map(|_| r.below(TYS.len() as u64) as usize).collect();
        let qs: Vec<usize> = (0..nq).map(|_| r.below(TYS.len() as u64) as usize).collect();
        let named = r.below(2) == 0;
        let list = |v: &[usize], pre: &str, names: bool| if v.is_empty() { "void".to_string() } else {
            v.iter().enumerate().map(|(i, t)| if names { format!("{} {pre}{i}", TYS[*t].0) } else { TYS[*t].0.to_string() }).collect::<Vec<_>>().join(", ") };
        let (pl, ql) = (list(&ps, "p", named), list(&qs, "q", named));
        let (pln, qln) = (list(&ps, "p", true), list(&qs, "q", true));
        let n = format!("c04nd{k}");
        // calling conventions per level: the function taking P (outer) and the returned pointer's function taking Q (inner)
        let (ms_o, ms_i) = match k { 4 => (false, true), 5 => (true, false), 0..=3 => (false, false), _ => (r.below(4) == 0, r.below(3) == 0) };
        const MS: &str = "__attribute__((ms_abi)) ";
        let (ao, ai) = (if ms_o { MS } else { "" }, if ms_i { MS } else { "" });
        let (rcc_o, rcc_i) = (if ms_o { "win64" } else { "C" }, if ms_i { "win64" } else { "C" });
        let header = format!("{ao}long ({ai}*{n}_get({pl}))({ql});\ntypedef long ({ai}*({ao}*{n}_td)({pl}))({ql});\nextern {n}_td {n}_ptr;\nstruct {n}_s {{ int tag; long ({ai}*({ao}*m)({pl}))({ql}); }};\nstruct {n}_s {n}_mk(void);\nlong {n}_take(long ({ai}*({ao}*cb)({pl}))({ql}));\nlong {n}_acc(void);\n");
        let wsum = |pre: &str, cnt: usize, base: i64| (0..cnt).map(|i| format!("{} * (long){pre}{i}", i as i64 + base)).collect::<Vec<_>>().join(" + ");
        let psum = if np == 0 { "0".to_string() } else { wsum("p", np, 2) };
        let qsum = if nq == 0 { "0".to_string() } else { wsum("q", nq, 5) };
        let pargs_c = (0..np).map(|i| format!("({}){}", TYS[ps[i]].0, 3 + i)).collect::<Vec<_>>().join(", ");
        let qargs_c = (0..nq).map(|i| format!("({}){}", TYS[qs[i]].0, 11 + i)).collect::<Vec<_>>().join(", ");
        let csrc = format!("static long acc;\nstatic {ai}long {n}_leaf({qln}) {{ return 1000 + {qsum}; }}\n{ao}long ({ai}*{n}_get({pln}))({ql}) {{ acc = {psum}; return {n}_leaf; }}\n_Static_assert(__builtin_types_compatible_p(__typeof__(&{n}_get), {n}_td), \"conventions of the function and of the typedef differ\");\n_Static_assert(__builtin_types_compatible_p(__typeof__(&{n}_leaf), __typeof__({n}_get({pargs_c}))), \"conventions of the leaf and of the returned pointer differ\");\n{n}_td {n}_ptr = {n}_get;\nstruct {n}_s {n}_mk(void) {{ struct {n}_s s; s.tag = 1; s.m = {n}_get; return s; }}\nlong {n}_take(long ({ai}*({ao}*cb)({pl}))({ql})) {{ return cb({pargs_c})({qargs_c}); }}\nlong {n}_acc(void) {{ return acc; }}\n");
        let pv: Vec<i64> = (0..np).map(|i| 3 + i as i64).collect();
        let qv: Vec<i64> = (0..nq).map(|i| 11 + i as i64).collect();
        let pexp: i64 = pv.iter().enumerate().map(|(i, v)| (i as i64 + 2) * v).sum();
        let qexp: i64 = 1000 + qv.iter().enumerate().map(|(i, v)| (i as i64 + 5) * v).sum::<i64>();
        let pa = pv.iter().map(|v| format!("{v} as _")).collect::<Vec<_>>().join(", ");
        let qa = qv.iter().map(|v| format!("{v} as _")).collect::<Vec<_>>().join(", ");
        let rs_params = |v: &[usize], pre: &str| v.iter().enumerate().map(|(i, t)| format!("{pre}{i}: {}", TYS[*t].1)).collect::<Vec<_>>().join(", ");
        let rs_sum = |pre: &str, cnt: usize, base: i64| if cnt == 0 { "0".to_string() } else { (0..cnt).map(|i| format!("{} * ({pre}{i} as i64)", i as i64 + base)).collect::<Vec<_>>().join(" + ") };
        let body = format!(
            "unsafe extern \"{rcc_i}\" fn rs_leaf({}) -> ::std::os::raw::c_long {{ (2000 + {}) as _ }}\n\
             unsafe extern \"{rcc_o}\" fn rs_cb({}) -> ::std::option::Option<unsafe extern \"{rcc_i}\" fn({}) -> ::std::os::raw::c_long> {{ RS_ACC = {}; Some(rs_leaf) }}\n\
             static mut RS_ACC: i64 = 0;\n\
             let a = {n}_get({pa}).unwrap()({qa}); let a2 = {n}_acc();\n\
             let b = {n}_ptr.unwrap()({pa}).unwrap()({qa});\n\
             let c = {n}_mk().m.unwrap()({pa}).unwrap()({qa});\n\
             let d = {n}_take(Some(rs_cb)); let d2 = RS_ACC;\n\
             println!(\"R {{}} {{}} {{}} {{}} {{}} {{}}\", a, a2, b, c, d, d2);",
            rs_params(&qs, "q"), rs_sum("q", nq, 5), rs_params(&ps, "p"), qs.iter().map(|t| TYS[*t].1).collect::<Vec<_>>().join(", "), rs_sum("p", np, 2));
        let expect = format!("R {qexp} {pexp} {qexp} {qexp} {} {pexp}", qexp + 1000);
        let pname = format!("probe_nested_{k}");
        let get_name = format!("{n}_get");
        let cc_of = |f: &str| if f == get_name && ms_o { "win64".to_string() } else { "C".to_string() };
        if let Some((inv, _pred, ro)) = probe_cc(&pname, &header, &csrc, &body, CbMode::None, root, &cc_of, st) {
            st.bump("nested_declarator_cases", 1);
            // correspondence with Model/FnSig.lean: parameters and convention of every level, as the model computes them
            // from what `from_ty` is offered (prototype, cursor arguments / ParmDecl children of the whole declaration)
            let ccn = |ms: bool| if ms { 2 } else { 1 };
            let reqs = vec![
                format!("c04 sig decl=1 targs={np} cur={np} kids=0 tycc={} pcc=- same=0", ccn(ms_o)),
                format!("c04 sig decl=1 targs={nq} cur={np} kids=0 tycc={} pcc=- same=0", ccn(ms_i)),
                format!("c04 sig decl=0 targs={np} cur=0 kids={} tycc={} pcc={} same=1", np + nq, ccn(ms_o), ccn(ms_o)),
                format!("c04 sig decl=0 targs={nq} cur=0 kids={} tycc={} pcc={} same=0", np + nq, ccn(ms_i), ccn(ms_o)),
            ];
            let ans = util::model(&reqs);
            let level = |a: &str| -> Option<(String, usize)> {
                let tys = a.split(' ').find_map(|t| t.strip_prefix("types="))?;
                let cc = a.split(' ').find_map(|t| t.strip_prefix("cc="))?;
                Some((if cc == "2" { "win64".to_string() } else { "C".to_string() }, if tys.is_empty() { 0 } else { tys.split(',').count() }))
            };
            let model_levels: Vec<Option<(String, usize)>> = ans.iter().map(|a| level(a)).collect();
            if model_levels.len() == 4 && model_levels.iter().all(|l| l.is_some()) {
                let m: Vec<(String, usize)> = model_levels.into_iter().flatten().collect();
                let mut real_get = vec![];
                if let Some(f) = inv.fns.iter().find(|f| f.ident == get_name) {
                    real_get.push((f.abi.clone(), f.args.len()));
                    if let Some(r) = &f.ret { fn_levels(r, &mut real_get); }
                }
                let mut real_td = vec![];
                if let Some(t) = inv.aliases.get(&format!("{n}_td")) { fn_levels(t, &mut real_td); }
                let mut real_cb = vec![];
                if let Some(f) = inv.fns.iter().find(|f| f.ident == format!("{n}_take")) { if let Some((_, t)) = f.args.first() { fn_levels(t, &mut real_cb); } }
                st.bump("nested_declarator_levels_compared", 6);
                if real_get != m[0..2] { st.fail("correspondence", "fnsig", format!("{get_name}: Model/FnSig.lean gives the levels {:?}, the bindings have {:?} (header {header:?})", &m[0..2], real_get), &pname); }
                if real_td != m[2..4] { st.fail("correspondence", "fnsig", format!("{n}_td: Model/FnSig.lean gives the levels {:?}, the bindings have {:?} (header {header:?})", &m[2..4], real_td), &pname); }
                if real_cb != m[2..4] { st.fail("correspondence", "fnsig", format!("{n}_take(cb): Model/FnSig.lean gives the levels {:?}, the bindings have {:?} (header {header:?})", &m[2..4], real_cb), &pname); }
            } else {
                st.fail("correspondence", "fnsig", format!("no answer from the model for `c04 sig`: {ans:?}"), &pname);
            }
            if let Some(e) = &ro.clang_err { st.fail("oracle", "generator-c-invalid", format!("nested declarators: clang rejects the generated C: {}", e.chars().take(600).collect::<String>()), &pname); continue; }
            if ro.stdout.trim() != expect {
                st.fail("oracle", "nested-declarator", format!("header {header:?}: expected output {expect:?}, got {:?}; rustc/link error: {:?}", ro.stdout.trim(), ro.rustc_err.as_ref().map(|e| e.chars().take(600).collect::<String>())), &pname);
            } else { st.distinct.insert(format!("probe:nested:p{np}:q{nq}:named{}:{rcc_o}:{rcc_i}", named as u8)); }
        }
    }
}

struct TFn { name: String, cc: &'static str, attr: &'static str, params: Vec<&'static str> }

fn argbytes(params: &[&str]) -> u64 {
    params.iter().map(|p| match *p { "char" | "short" | "int" | "float" | "void*" | "long" => 4, "long long" | "double" => 8, _ => 4 }).sum()
}

fn part_c_targets(args: &Args, root: &Path, st: &mut Stats) {
    let mut r = Rng::new(args.seed ^ 0x7A6);
    let rounds = if args.thorough() { 40 } else { 4 };
    for round in 0..rounds {
        for (tf, triple, ccs) in [("macho", "x86_64-apple-darwin", &[("C", "")][..]),
                                  ("win32", "i686-pc-windows-msvc", &[("C", ""), ("stdcall", "__attribute__((stdcall))"), ("fastcall", "__attribute__((fastcall))"), ("vectorcall", "__attribute__((vectorcall))"), ("thiscall", "__attribute__((thiscall))")][..]),
                                  ("win64", "x86_64-pc-windows-msvc", &[("C", "")][..]),
                                  ("elf", "x86_64-unknown-linux-gnu", &[("C", "")][..])] {
            let mut fns: Vec<TFn> = vec![];
            let mut names = vec!["_".to_string(), "match".into(), "c04$t".into(), "_c04lead".into(), "c04plain".into(), "__c04dbl".into()];
            for k in 0..r.range(2, 10) { names.push(format!("c04t{}_{}", k, r.below(1000))); }
            for n in names {
                let (cc, attr) = *r.pick(ccs);
                let np = if cc == "thiscall" { r.range(1, 4) } else { r.range(0, 4) };
                let mut params: Vec<&'static str> = (0..np).map(|_| *r.pick(&["char", "short", "int", "long long", "double", "float", "void*"])).collect();
                if cc == "thiscall" { params[0] = "void*"; }
                if cc == "vectorcall" { for p in params.iter_mut() { if *p == "double" || *p == "float" { *p = "int"; } } }
                fns.push(TFn { name: n, cc, attr, params });
            }
            let vars = ["c04tv", "_c04tv2", "type"];
            let mut h = String::new();
            let mut c = String::new();
            for f in &fns {
                let ps = if f.params.is_empty() { "void".to_string() } else { f.params.iter().enumerate().map(|(i, p)| format!("{p} a{i}")).collect::<Vec<_>>().join(", ") };
                let _ = writeln!(h, "int {} {}({ps});", f.attr, f.name);
                let _ = writeln!(c, "int {} {}({ps}) {{ return 1; }}", f.attr, f.name);
            }
            for v in vars { let _ = writeln!(h, "extern int {v};"); let _ = writeln!(c, "int {v} = 1;"); }
            let name = format!("target_{tf}_{round}");
            let dir = root.join(&name);
            std::fs::create_dir_all(&dir).unwrap();
            util::write(&dir.join("lib.h"), &h);
            util::write(&dir.join("lib.c"), &format!("{h}{c}"));
            let flags = vec![dir.join("lib.h").to_string_lossy().into_owned(), "--formatter".into(), "none".into(), "--".into(), format!("--target={triple}")];
            let out = generate(&flags, CbMode::None, &dir.join("ir.log"));
            let Some(b) = out.bindings else { st.fail("oracle", "bindgen-failed", format!("{:?} {:?}", out.error, out.panic), &name); continue };
            let Ok(inventory) = inv::inventory(&b) else { continue };
            let log = irdump::parse_log(out.log.as_deref().unwrap_or(""));
            let Some(d) = log.dumps.into_iter().last() else { continue };
            let ir = Ir::new(d);
            let cc_of = |n: &str| fns.iter().find(|f| f.name == n).map(|f| f.cc.to_string()).unwrap_or_else(|| "C".into());
            let ab_of = |n: &str| fns.iter().find(|f| f.name == n).map(|f| argbytes(&f.params)).unwrap_or(0);
            let pred = check_against_model(&name, tf, &ir, &inventory, CbMode::None, &[], false, &cc_of, &ab_of, st);
            // oracle: the symbols clang emits for this target
            let (rc, asm, e) = util::run(Command::new("clang").arg(format!("--target={triple}")).args(["-S", "-w", "-o", "-"]).arg(dir.join("lib.c")));
            if rc != 0 { st.fail("oracle", "generator-c-invalid", e.chars().take(600).collect(), &name); continue; }
            let globl: Vec<String> = asm.lines().filter_map(|l| l.trim().strip_prefix(".globl")).map(|s| s.split('#').next().unwrap_or("").trim().trim_matches('"').to_owned()).filter(|s| !s.ends_with("_fltused") && s != "@feat.00").collect();
            // extern blocks: ABI keyword
            for f in &inventory.fns {
                st.distinct.insert(format!("target:{tf}:{}:{}", f.abi, match &f.link_name { None => "none", Some(_) => "raw" }));
            }
            // prediction order = IR order = declaration order (functions then variables in `pred`)
            let decl: Vec<String> = fns.iter().map(|f| f.name.clone()).chain(vars.iter().map(|v| v.to_string())).collect();
            if globl.len() != decl.len() {
                st.fail("oracle", "target-symbol-count", format!("{} definitions, {} .globl symbols", decl.len(), globl.len()), &name);
                continue;
            }
            let feats = enabled_abi_feats();
            let bound: Vec<(String, String)> = decl.iter().cloned().zip(globl.iter().cloned())
                .filter(|(d, _)| !fns.iter().any(|f| f.name == *d && f.cc == "vectorcall" && !feats.contains("vectorcall_abi"))).collect();
            if pred.len() != bound.len() {
                st.fail("oracle", "target-binding-count", format!("{} bindable definitions, {} predicted bindings", bound.len(), pred.len()), &name);
                continue;
            }
            let (decl, globl): (Vec<String>, Vec<String>) = bound.into_iter().unzip();
            for ((d, g), p) in decl.iter().zip(&globl).zip(&pred) {
                st.bump("target_symbols_checked", 1);
                if p.2 != *g {
                    // region: attribute omitted although backend(Rust name) != C symbol
                    let canonical = &p.0;
                    let prefixing = tf == "macho" || tf == "win32";
                    let cc = fns.iter().find(|f| f.name == *d).map(|f| f.cc);
                    let mangled_by_libclang = ir.recs.iter().find(|r| (r.tag == "fn" || r.tag == "var") && irdump::unesc(r.get("name")) == *d).and_then(|r| r.opt_str("mangled")).unwrap_or_else(|| d.clone());
                    let binding_attr = inventory.fns.iter().find(|f| f.ident == *canonical).map(|f| f.link_name.clone()).or_else(|| inventory.statics.iter().find(|f| f.ident == *canonical).map(|f| f.link_name.clone())).flatten();
                    if p.1 == "none" && binding_attr.is_none() && rename_clash(prefixing, canonical, &mangled_by_libclang, if fns.iter().any(|f| f.name == *d) { cc } else { None }) {
                        *st.known.entry(format!("link_name_omitted_after_rename ({tf}): C `{d}` is emitted as `{g}`, the binding `{canonical}` carries no #[link_name] and the backend would reference `{}` (as the model predicts)", p.2)).or_insert(0) += 1;
                    } else {
                        st.fail("oracle", "target-symbol", format!("{tf}: C `{d}` is emitted by clang as `{g}` but the binding {:?} refers to `{}`", (&p.0, &p.1), p.2), &name);
                    }
                }
            }
            let _ = std::fs::remove_dir_all(&dir);
        }
    }
}

// ------------------------------------------------------------------ C++ classes

/// C++: a virtual method that overrides a method of a *secondary* base class (and a virtual destructor) has `this`-adjusting
/// thunks next to the method itself; the binding takes a pointer to the object and must name the method, not a thunk
fn part_cpp_thunks(root: &Path, st: &mut Stats) {
    let name = "cpp_thunks";
    let dir = root.join(name);
    std::fs::create_dir_all(&dir).unwrap();
    let h = "struct TA { virtual long fa(long p); long a; TA(); virtual ~TA(); };\nstruct TB { virtual long fb(long p); long b; TB(); virtual ~TB(); };\nstruct TC : TA, TB { long fb(long p) override; long fa(long p) override; long plain(long p); long c; TC(); ~TC() override; };\nextern long c04_tc_dtors;\n";
    let c = "#include \"lib.hpp\"\nlong c04_tc_dtors = 0;\nTA::TA() : a(1) {}\nTA::~TA() {}\nlong TA::fa(long p) { return p + a; }\nTB::TB() : b(5) {}\nTB::~TB() {}\nlong TB::fb(long p) { return p + b; }\nTC::TC() : c(7) {}\nTC::~TC() { c04_tc_dtors += c; }\nlong TC::fb(long p) { return p + c * 3 + b; }\nlong TC::fa(long p) { return p + c * 100 + a; }\nlong TC::plain(long p) { return p + c; }\n";
    util::write(&dir.join("lib.hpp"), h);
    util::write(&dir.join("lib.cpp"), c);
    let flags = vec![dir.join("lib.hpp").to_string_lossy().into_owned(), "--formatter".into(), "none".into(), "--".to_string(), "-x".into(), "c++".into(), "-std=c++14".into()];
    let out = generate(&flags, CbMode::None, &dir.join("ir.log"));
    st.bump("cpp_thunk_cases", 1);
    let Some(b) = out.bindings else { st.fail("oracle", "bindgen-failed", format!("{:?} {:?}", out.error, out.panic), name); return };
    util::write(&dir.join("bindings.rs"), &b);
    let Ok(inventory) = inv::inventory(&b) else { st.fail("oracle", "bindings-unparsable", String::new(), name); return };
    for f in &inventory.fns {
        let sym = inv::elf_symbol(&f.ident, &f.link_name);
        let bare = sym.trim_start_matches('\u{1}').trim_start_matches('_');
        if bare.starts_with("ZTh") || bare.starts_with("ZTv") || bare.starts_with("ZTc") {
            st.fail("oracle", "thunk-bound", format!("binding {} refers to the thunk {sym}: called with a pointer to the object, the thunk moves `this` off it (header {h:?})", f.ident), name);
        }
    }
    let caller = "#![allow(warnings)]\ninclude!(\"bindings.rs\");\nfn main() { unsafe {\n let mut o = TC::new();\n let p = &mut o as *mut TC;\n println!(\"R {} {} {}\", TC_fb(p as *mut _, 10), TC_fa(p as *mut _, 20), o.plain(30));\n TC_TC_destructor(p);\n println!(\"D {}\", c04_tc_dtors);\n} }\n";
    util::write(&dir.join("caller.rs"), caller);
    let (rc, _s, e) = util::run(Command::new("clang++").args(["-O1", "-w", "-std=c++14", "-c"]).arg(dir.join("lib.cpp")).arg("-o").arg(dir.join("lib.o")).current_dir(&dir));
    if rc != 0 { st.fail("oracle", "generator-c-invalid", e.chars().take(800).collect(), name); return; }
    let (rc, _s, e) = util::run(Command::new("rustc").args(["--edition", "2021", "--cap-lints", "allow", "-C", "opt-level=1"]).arg("-C").arg(format!("link-arg={}", dir.join("lib.o").display())).args(["-C", "link-arg=-lstdc++"]).arg("-o").arg(dir.join("caller")).arg(dir.join("caller.rs")).current_dir(&dir));
    if rc != 0 { st.fail("oracle", "rustc-or-link", format!("thunk probe: {}", e.chars().take(1500).collect::<String>()), name); return; }
    let (_rc, so, _e) = util::run(&mut Command::new(dir.join("caller")));
    // TC::fb(10) = 10 + 7*3 + 5, TC::fa(20) = 20 + 700 + 1, plain(30) = 37, destructor adds c = 7
    if so.trim() != "R 36 721 37\nD 7" { st.fail("oracle", "cpp-thunk-call", format!("calls through the bindings of overriding virtual methods: expected \"R 36 721 37 / D 7\", got {:?} (header {h:?})", so.trim()), name); }
    else { st.distinct.insert("cpp:thunks:ok".into()); }
    let _ = std::fs::remove_dir_all(&dir);
}

fn part_cpp(args: &Args, root: &Path, st: &mut Stats) {
    let n = if args.thorough() { 200 } else { 6 };
    let mut r = Rng::new(args.seed ^ 0xC99);
    for idx in 0..n {
        let name = format!("cpp{idx}");
        let dir = root.join(&name);
        std::fs::create_dir_all(&dir).unwrap();
        let ity = |r: &mut Rng| *r.pick(&["int", "long", "unsigned", "short", "long long", "unsigned char"]);
        let (t1, t2, t3, t4) = (ity(&mut r), ity(&mut r), ity(&mut r), ity(&mut r));
        let (c1, c2, c3, c4, c5) = (r.range(2, 90) as i64, r.range(2, 90) as i64, r.range(2, 90) as i64, r.range(2, 90) as i64, r.range(2, 90) as i64);
        let cls = *r.pick(&["K", "Widget", "type_", "Box2"]);
        let meth = *r.pick(&["get", "match", "value", "type"]);
        let virt = r.chance(1, 3);
        let ns = r.chance(1, 4);
        let mut h = String::new();
        if ns { h.push_str("namespace c04ns {\n"); }
        let _ = writeln!(h, "class {cls} {{\npublic:\n  long a; double b;\n  {cls}({t1} x);\n  {cls}({t1} x, double y);\n  {}~{cls}();\n  long {meth}({t2} p) const;\n  long {meth}(double p);\n  static long sm({t3} q);\n  void set({t4} v);\n}};", if virt { "virtual " } else { "" });
        let _ = writeln!(h, "long c04cpp_free({cls} *k);\nextern long c04_dtor_count;");
        if ns { h.push_str("}\n"); }
        let q = if ns { "c04ns::" } else { "" };
        let mut c = String::from("#include \"lib.hpp\"\n");
        if ns { c.push_str("namespace c04ns {\n"); }
        let _ = writeln!(c, "long c04_dtor_count = 0;\n{cls}::{cls}({t1} x) : a((long)x * {c1}), b(0.5) {{}}\n{cls}::{cls}({t1} x, double y) : a((long)x + {c2}), b(y) {{}}\n{cls}::~{cls}() {{ c04_dtor_count += a; }}");
        let _ = writeln!(c, "long {cls}::{meth}({t2} p) const {{ return a * {c3} + (long)p; }}\nlong {cls}::{meth}(double p) {{ a += 1; return (long)(p * 8) + a * {c4}; }}\nlong {cls}::sm({t3} q) {{ return (long)q * {c5}; }}\nvoid {cls}::set({t4} v) {{ a = (long)v - 1; }}\nlong c04cpp_free({cls} *k) {{ return k->a + (long)(k->b * 8); }}");
        if ns { c.push_str("}\n"); }
        let _ = q;
        util::write(&dir.join("lib.hpp"), &h);
        util::write(&dir.join("lib.cpp"), &c);
        let mut flags = vec![dir.join("lib.hpp").to_string_lossy().into_owned(), "--formatter".into(), "none".into()];
        let merge = r.chance(1, 2); let sort = r.chance(1, 2); let nsopt = ns && r.chance(1, 2);
        if merge { flags.push("--merge-extern-blocks".into()); }
        if sort { flags.push("--sort-semantically".into()); }
        if nsopt { flags.push("--enable-cxx-namespaces".into()); }
        flags.extend(["--".to_string(), "-x".into(), "c++".into(), "-std=c++14".into()]);
        let out = generate(&flags, CbMode::None, &dir.join("ir.log"));
        st.bump("cpp_cases", 1);
        let Some(b) = out.bindings else { st.fail("oracle", "bindgen-failed", format!("{:?} {:?}", out.error, out.panic), &name); continue };
        util::write(&dir.join("bindings.rs"), &b);
        let Ok(inventory) = inv::inventory(&b) else { st.fail("oracle", "bindings-unparsable", String::new(), &name); continue };
        let log = irdump::parse_log(out.log.as_deref().unwrap_or(""));
        let Some(d) = log.dumps.into_iter().last() else { continue };
        let ir = Ir::new(d);
        let before = st.failures.len();
        let pred = check_against_model(&name, "elf", &ir, &inventory, CbMode::None, &[], false, &|_| "C".into(), &|_| 0, st);
        st.bump("cpp_bindings_predicted", pred.len() as u64);
        // the Rust caller goes through the generated method wrappers
        let rcls = if cls == "type_" { "type_" } else { cls };
        let path = if nsopt { format!("root::c04ns::{rcls}") } else if ns { format!("c04ns_{rcls}") } else { rcls.to_string() };
        let pmod = if nsopt { "root::c04ns::" } else { "" };
        let rmeth = match meth { "match" => "match_", "type" => "type_", m => m };
        let pre = if nsopt { "root::c04ns::" } else if ns { "c04ns_" } else { "" };
        let (x1, x2, p1, q1, v1) = (r.range(1, 100) as i64, r.range(1, 100) as i64, r.range(1, 100) as i64, r.range(1, 100) as i64, r.range(2, 100) as i64);
        let pd = r.range(1, 64) as i64; // p = pd / 8
        let Some(dtor) = inventory.fns.iter().find(|f| inv::elf_symbol(&f.ident, &f.link_name).ends_with("D1Ev")).map(|f| f.ident.clone()) else { st.fail("oracle", "symbol-unbound", "no binding for the complete-object destructor (D1)".into(), &name); continue };
        let caller = format!("#![allow(warnings)]\ninclude!(\"bindings.rs\");\nfn main() {{ unsafe {{\n let mut k = {path}::new({x1} as _);\n let mut k2 = {path}::new1({x2} as _, 1.5);\n println!(\"A {{}} {{}} {{}}\", k.a, k2.a, (k2.b * 8.0) as i64);\n println!(\"B {{}}\", k.{rmeth}({p1} as _));\n println!(\"C {{}} {{}}\", k.{meth}1({pd} as f64 / 8.0), k.a);\n println!(\"D {{}}\", {path}::sm({q1} as _));\n k.set({v1} as _); println!(\"E {{}}\", k.a);\n println!(\"F {{}}\", {pre}c04cpp_free(&mut k2));\n {pmod}{dtor}(&mut k); {pmod}{dtor}(&mut k2); println!(\"G {{}}\", {pre}c04_dtor_count);\n}} }}\n");
        util::write(&dir.join("caller.rs"), &caller);
        let (rc, _s, e) = util::run(Command::new("clang++").args(["-O1", "-w", "-std=c++14", "-c"]).arg(dir.join("lib.cpp")).arg("-o").arg(dir.join("lib.o")).current_dir(&dir));
        if rc != 0 { st.fail("oracle", "generator-c-invalid", e.chars().take(800).collect(), &name); continue; }
        let (_rc, s, _e) = util::run(Command::new("nm").args(["-g", "--defined-only"]).arg(dir.join("lib.o")));
        let defined: BTreeSet<String> = s.lines().filter_map(|l| l.split_whitespace().nth(2).map(|x| x.to_owned())).collect();
        for f in &inventory.fns {
            let sym = inv::elf_symbol(&f.ident, &f.link_name);
            st.bump("cpp_symbols_checked", 1);
            if !defined.contains(&sym) { st.fail("oracle", "symbol-undefined", format!("binding {} refers to {sym}, not defined by the C++ object (defined: {:?})", f.ident, defined.iter().take(12).collect::<Vec<_>>()), &name); }
            st.distinct.insert(format!("cpp:{}:{}", if sym.contains("C1E") || sym.contains("C2E") { "ctor" } else if sym.contains("D1E") { "dtor" } else if f.args.first().is_some_and(|a| a.0 == "this") { "method" } else { "static-or-free" }, match f.args.first().map(|a| inv::shape(&a.1)) { Some(s) if s.starts_with("*c") => "const-this", Some(s) if s.starts_with("*m") => "mut-this", _ => "no-this" }));
        }
        let (rc, _s, e) = util::run(Command::new("rustc").args(["--edition", "2021", "--cap-lints", "allow", "-C", "opt-level=1"]).arg("-C").arg(format!("link-arg={}", dir.join("lib.o").display())).args(["-C", "link-arg=-lstdc++"]).arg("-o").arg(dir.join("caller")).arg(dir.join("caller.rs")).current_dir(&dir));
        if rc != 0 { st.fail("oracle", "rustc-or-link", e.chars().take(2000).collect(), &name); keep_case(&dir, &name); continue; }
        let (_rc, so, _e) = util::run(&mut Command::new(dir.join("caller")));
        // reference semantics
        let trunc = |t: &str, v: i64| -> i64 { match t { "int" => v as i32 as i64, "long" | "long long" => v, "unsigned" => v as u32 as i64, "short" => v as i16 as i64, "unsigned char" => v as u8 as i64, _ => v } };
        let a1 = trunc(t1, x1) * c1;
        let a2 = trunc(t1, x2) + c2;
        let bget = a1 * c3 + trunc(t2, p1);
        let a1b = a1 + 1;
        let cget = pd + a1b * c4;
        let dsm = trunc(t3, q1) * c5;
        let e = trunc(t4, v1) - 1;
        let f = a2 + 12;
        let g = e + a2;
        let want = format!("A {a1} {a2} 12\nB {bget}\nC {cget} {a1b}\nD {dsm}\nE {e}\nF {f}\nG {g}\n");
        st.bump("cpp_calls_checked", 9);
        if so != want { st.fail("oracle", "cpp-call", format!("class {cls} method {meth}: expected {want:?} observed {so:?}"), &name); keep_case(&dir, &name); }
        if st.failures.len() > before { let _ = std::fs::copy(dir.join("lib.hpp"), Path::new(&std::env::var("C04_KEEP").unwrap_or_else(|_| "/nonexistent".into())).join(format!("{name}.hpp"))); }
        let _ = std::fs::remove_dir_all(&dir);
    }
}

// ------------------------------------------------------------------ main / report

fn main() {
    let args = Args::parse();
    quiet_panics();
    let scratch = Scratch::new("c04");
    let root = scratch.0.clone();
    let mut st = Stats::default();
    let only: Option<String> = args.extra.iter().find_map(|a| a.strip_prefix("--only=").map(|s| s.to_owned()));
    let want = |p: &str| only.as_deref().map_or(true, |o| o.split(',').any(|x| x == p));
    if want("a") { part_a(&args, &mut st); }
    if want("c") { part_c_probes(&root, &mut st); part_c_nested(&args, &root, &mut st); part_c_targets(&args, &root, &mut st); }
    if want("cpp") { part_cpp_thunks(&root, &mut st); part_cpp(&args, &root, &mut st); }
    if want("b") { part_b(&args, &root, &mut st); }
    let mut j = String::from("{\n");
    let _ = writeln!(j, " \"tier\": {}, \"seed\": {},", json_str(&args.tier), args.seed);
    let _ = writeln!(j, " \"counters\": {{{}}},", st.counters.iter().map(|(k, v)| format!("{}: {v}", json_str(k))).collect::<Vec<_>>().join(", "));
    let _ = writeln!(j, " \"distinct_nontrivial\": {},", st.distinct.len());
    let _ = writeln!(j, " \"distinct_classes\": [{}],", st.distinct.iter().take(400).map(|s| json_str(s)).collect::<Vec<_>>().join(", "));
    let _ = writeln!(j, " \"samples\": [{}],", st.samples.iter().map(|s| json_str(s)).collect::<Vec<_>>().join(", "));
    let _ = writeln!(j, " \"known\": [{}],", st.known.iter().map(|(k, v)| format!("{{\"what\": {}, \"count\": {v}}}", json_str(k))).collect::<Vec<_>>().join(", "));
    let _ = writeln!(j, " \"failures\": [{}]", st.failures.iter().map(|f| format!("{{\"kind\": {}, \"class\": {}, \"detail\": {}, \"case\": {}}}", json_str(f.kind), json_str(&f.class), json_str(&f.detail), json_str(&f.case))).collect::<Vec<_>>().join(",\n  "));
    j.push_str("}\n");
    util::write(&args.out.join("report.json"), &j);
    println!("c04: {} failures, {} known, counters {:?}", st.failures.len(), st.known.len(), st.counters);
}
