//! C18 — extern-block merging and semantic sorting only regroup items.
//!
//! (a) function level: `bindgen::verif::postprocess(src, merge, sort)` on generated item lists
//!     vs the Lean model (`bgmodel`, `pp …`) on the syn inventory of the same source: exact ordered
//!     equality; plus the property oracle and idempotence on the implementation's output.
//! (b) whole program: real bindgen on repository headers and generated C++ headers with the four
//!     flag combinations; the model on the inventory of the unprocessed output must equal the
//!     inventory of the processed output; property oracle; idempotence; rustc on a sample.
use std::collections::BTreeMap;
use std::path::PathBuf;

use bgverif::drive::{self, Scratch};
use bgverif::postcanon::*;
use bgverif::rng::Rng;
use bgverif::util::{self, json_str, Args};

const CFGS: [(bool, bool); 4] = [(false, false), (true, false), (false, true), (true, true)];

// ------------------------------------------------------------------ generated Rust item trees

#[derive(Clone, Debug)]
enum G {
    Plain(String),
    Block { attrs: Vec<String>, unsafety: bool, abi: Option<String>, items: Vec<String> },
    Mod { head: String, items: Vec<G> },
}

fn render(items: &[G], out: &mut String) {
    for it in items {
        match it {
            G::Plain(t) => {
                out.push_str(t);
                out.push('\n');
            }
            G::Block { attrs, unsafety, abi, items } => {
                for a in attrs {
                    out.push_str(a);
                    out.push('\n');
                }
                if *unsafety {
                    out.push_str("unsafe ");
                }
                out.push_str("extern ");
                if let Some(a) = abi {
                    out.push_str(a);
                    out.push(' ');
                }
                out.push_str("{\n");
                for i in items {
                    out.push_str("    ");
                    out.push_str(i);
                    out.push('\n');
                }
                out.push_str("}\n");
            }
            G::Mod { head, items } => {
                out.push_str(head);
                out.push_str(" {\n");
                render(items, out);
                out.push_str("}\n");
            }
        }
    }
}

struct Gen {
    rng: Rng,
    n: u64,
    /// 0 = all blocks `unsafe extern`, 1 = none, 2 = mixed
    unsafe_mode: u64,
    plain_pool: Vec<String>,
    foreign_pool: Vec<String>,
    hist: BTreeMap<String, u64>,
}

const BLOCK_ATTRS: &[&[&str]] = &[
    &[],
    &[],
    &["#[link(wasm_import_module = \"x\")]"],
    &["#[link(wasm_import_module = \"y\")]"],
    &["#[link(name = \"foo\")]"],
    &["#[cfg(unix)]"],
    &["#[cfg(unix)]", "#[link(name = \"foo\")]"],
    &["#[link(name = \"foo\")]", "#[cfg(unix)]"],
    &["/// block doc"],
];
const ABIS: &[Option<&str>] = &[Some("\"C\""), Some("\"C\""), Some("\"C-unwind\""), Some("\"system\""), None, Some("r\"C\""), Some("\"stdcall\"")];

impl Gen {
    fn bump(&mut self, k: &str) {
        *self.hist.entry(k.to_owned()).or_insert(0) += 1;
    }
    fn fresh(&mut self) -> u64 {
        self.n += 1;
        self.n
    }
    fn plain(&mut self) -> String {
        if !self.plain_pool.is_empty() && self.rng.chance(1, 12) {
            self.bump("plain:duplicate");
            return self.rng.pick(&self.plain_pool).clone();
        }
        let n = self.fresh();
        let (k, mut t) = match self.rng.below(17) {
            0 => ("Type", format!("pub type T{n} = u32;")),
            1 => ("Struct", format!("#[repr(C)] #[derive(Debug, Copy, Clone)] pub struct S{n} {{ pub a: i32 }}")),
            2 => ("Const", format!("pub const C{n}: u32 = {n};")),
            3 => ("Fn", format!("pub fn f{n}() {{}}")),
            4 => ("Enum", format!("pub enum E{n} {{ A = 0 }}")),
            5 => ("Union", format!("pub union U{n} {{ pub a: u32 }}")),
            6 => ("Static", format!("pub static X{n}: u32 = 0;")),
            7 => ("Trait", format!("pub trait Tr{n} {{}}")),
            8 => ("TraitAlias", format!("pub trait TA{n} = Clone;")),
            9 => ("Impl", format!("impl S0 {{ pub fn m{n}(&self) {{}} }}")),
            10 => ("Mod", format!("mod ext{n};")),
            11 => ("Use", format!("use core::ffi::c_int as ci{n};")),
            12 => ("Verbatim", format!("fn nobody{n}();")),
            13 => ("ExternCrate", format!("extern crate core as c{n};")),
            14 => ("Macro", format!("macro_rules! m{n} {{ () => {{}} }}")),
            15 => ("Macro", format!("some_macro!({n});")),
            _ => ("Struct", format!("pub struct Tup{n}(pub u8);")),
        };
        if self.rng.chance(1, 6) {
            t = format!("/// doc {n}\n{t}");
        }
        self.bump(&format!("plain:{k}"));
        self.plain_pool.push(t.clone());
        t
    }
    fn foreign_item(&mut self) -> String {
        if !self.foreign_pool.is_empty() && self.rng.chance(1, 10) {
            self.bump("foreign:duplicate");
            return self.rng.pick(&self.foreign_pool).clone();
        }
        let n = self.fresh();
        let mut t = String::new();
        if self.rng.chance(1, 5) {
            t.push_str(&format!("/// doc of item {n}\n    "));
        }
        if self.rng.chance(1, 3) {
            t.push_str(&format!("#[link_name = \"\\u{{1}}_Z1g{n}\"] "));
        }
        let k = match self.rng.below(6) {
            0 | 1 | 2 => {
                if self.rng.chance(1, 4) {
                    t.push_str("#[must_use] ");
                }
                t.push_str(&format!("pub fn g{n}(a: i32) -> i32;"));
                "fn"
            }
            3 => {
                t.push_str(&format!("pub static mut v{n}: i32;"));
                "static-mut"
            }
            4 => {
                t.push_str(&format!("pub static c{n}: u8;"));
                "static"
            }
            _ => {
                t.push_str(&format!("pub type Op{n};"));
                "type"
            }
        };
        self.bump(&format!("foreign:{k}"));
        self.foreign_pool.push(t.clone());
        t
    }
    fn block(&mut self) -> G {
        let attrs: Vec<String> = self.rng.pick(BLOCK_ATTRS).iter().map(|s| s.to_string()).collect();
        let abi = self.rng.pick(ABIS).map(|s| s.to_owned());
        let unsafety = match self.unsafe_mode {
            0 => true,
            1 => false,
            _ => self.rng.chance(1, 2),
        };
        let k = if self.rng.chance(1, 12) { 0 } else { self.rng.range(1, 4) };
        let items = (0..k).map(|_| self.foreign_item()).collect();
        self.bump(&format!("block:attrs={}", attrs.len()));
        self.bump(&format!("block:abi={}", abi.as_deref().unwrap_or("none")));
        self.bump(&format!("block:unsafe={unsafety}"));
        G::Block { attrs, unsafety, abi, items }
    }
    fn level(&mut self, depth: u64, size: u64) -> Vec<G> {
        let mut v = vec![];
        for _ in 0..size {
            match self.rng.below(10) {
                0..=3 => {
                    let p = self.plain();
                    v.push(G::Plain(p))
                }
                4..=7 => {
                    let b = self.block();
                    v.push(b)
                }
                _ => {
                    if depth < 3 {
                        let n = if self.rng.chance(1, 5) { 1 } else { self.fresh() };
                        let head = match self.rng.below(3) {
                            0 => format!("pub mod m{n}"),
                            1 => format!("#[allow(non_snake_case)] pub mod ns{n}"),
                            _ => format!("mod p{n}"),
                        };
                        let sz = self.rng.range(0, 8);
                        let items = self.level(depth + 1, sz);
                        self.bump(&format!("module:depth={}", depth + 1));
                        v.push(G::Mod { head, items });
                    } else {
                        let p = self.plain();
                        v.push(G::Plain(p));
                    }
                }
            }
        }
        v
    }
}

// ------------------------------------------------------------------ failures

#[derive(Clone, Debug)]
struct Failure {
    kind: &'static str,  // correspondence | oracle | idempotence | rustc | impl-error
    layer: &'static str, // fn | wp
    cfg: (bool, bool),
    input: String,       // Rust source (fn layer) or header text (wp layer)
    flags: Vec<String>,
    detail: String,
    in_region: bool,
    matches_model: bool,
}

fn failure_json(f: &Failure) -> String {
    format!(
        "{{\"kind\":{},\"layer\":{},\"merge\":{},\"sort\":{},\"input\":{},\"flags\":[{}],\"detail\":{},\"in_region\":{},\"matches_model\":{}}}",
        json_str(f.kind),
        json_str(f.layer),
        f.cfg.0,
        f.cfg.1,
        json_str(&f.input),
        f.flags.iter().map(|s| json_str(s)).collect::<Vec<_>>().join(","),
        json_str(&f.detail),
        f.in_region,
        f.matches_model
    )
}

// ------------------------------------------------------------------ one comparison

struct Verdict {
    corr: Option<String>,
    oracle: Option<String>,
    idem: Option<String>,
    in_region: bool,
    nontrivial: bool,
}

/// `before`/`after` = unprocessed / processed bindings text; `model_answer` = bgmodel's line.
fn judge(before: &[CItem], after_src: &str, cfg: (bool, bool), request_tail: &str, model_answer: &str, int: &mut Interner) -> Verdict {
    let mut v = Verdict { corr: None, oracle: None, idem: None, in_region: mixed_unsafety(before), nontrivial: false };
    let after = match canon_file(after_src) {
        Ok(a) => a,
        Err(e) => {
            v.oracle = Some(format!("processed output does not parse: {e}"));
            return v;
        }
    };
    let mut toks = vec![];
    serialise(&after, int, &mut toks);
    let imp = toks.join(" ");
    let (model_tree, model_mixed) = match model_answer.rsplit_once(" | mixed=") {
        Some((t, m)) => (t.trim().to_owned(), m.trim() == "1"),
        None => (model_answer.to_owned(), false),
    };
    if model_answer.is_empty() && no_model() {
        // oracle-only mode
    } else if model_tree != imp {
        v.corr = Some(format!("model: {}\nimplementation: {}", clip(&model_tree), clip(&imp)));
    } else if model_mixed != v.in_region {
        v.corr = Some(format!("region predicate differs: lean={model_mixed} rust={}", v.in_region));
    }
    v.nontrivial = imp != request_tail;
    if let Err(e) = oracle(before, &after, cfg.0) {
        v.oracle = Some(e);
    }
    // idempotence on the implementation's own output
    match bindgen::verif::postprocess(after_src, cfg.0, cfg.1) {
        Ok(again) => match canon_file(&again) {
            Ok(a2) => {
                if a2 != after {
                    v.idem = Some("postprocess(processed) differs from processed".to_owned());
                }
            }
            Err(e) => v.idem = Some(format!("second output does not parse: {e}")),
        },
        Err(e) => v.idem = Some(format!("postprocess failed on processed output: {e}")),
    }
    v
}

/// `C18_NO_MODEL=1`: oracle-only mode for the failing-input search when the model driver cannot be built
fn no_model() -> bool {
    std::env::var("C18_NO_MODEL").map(|v| v == "1").unwrap_or(false)
}

fn ask_model(reqs: &[String]) -> Vec<String> {
    if no_model() {
        reqs.iter().map(|_| String::new()).collect()
    } else {
        util::model(reqs)
    }
}

fn clip(s: &str) -> String {
    if s.len() > 1500 {
        format!("{}…[{} bytes]", &s[..1500], s.len())
    } else {
        s.to_owned()
    }
}

fn request(before: &[CItem], cfg: (bool, bool), int: &mut Interner) -> (String, String) {
    let mut toks = vec![];
    serialise(before, int, &mut toks);
    let tail = toks.join(" ");
    (format!("pp {}{} {}", cfg.0 as u8, cfg.1 as u8, tail), tail)
}

// ------------------------------------------------------------------ function level

struct Stats {
    cases: u64,
    evaluations: u64,
    nontrivial: u64,
    distinct: std::collections::HashSet<u64>,
    known_hits: u64,
    known_hits_wp: u64,
    region_cases: u64,
    failures: Vec<Failure>,
    samples: Vec<String>,
    hist: BTreeMap<String, u64>,
    skipped: BTreeMap<String, u64>,
    rustc_ok: u64,
    rustc_baseline_fail: u64,
}

fn hash_str(s: &str) -> u64 {
    let mut h: u64 = 0xcbf29ce484222325;
    for b in s.bytes() {
        h ^= b as u64;
        h = h.wrapping_mul(0x100000001b3);
    }
    h
}

fn fails_fn(src: &str, cfg: (bool, bool)) -> Option<(Verdict, String)> {
    let before = canon_file(src).ok()?;
    let mut int = Interner::default();
    let (req, tail) = request(&before, cfg, &mut int);
    let ans = ask_model(&[req]);
    let after = bindgen::verif::postprocess(src, cfg.0, cfg.1).ok()?;
    let v = judge(&before, &after, cfg, &tail, ans.first().map(|s| s.as_str()).unwrap_or(""), &mut int);
    if v.corr.is_some() || v.oracle.is_some() || v.idem.is_some() {
        Some((v, after))
    } else {
        None
    }
}

/// greedy delta-debugging on the generated tree; `same` = the failure class to keep
fn shrink(tree: Vec<G>, cfg: (bool, bool), class: &str) -> Vec<G> {
    fn class_of(v: &Verdict) -> &'static str {
        if v.oracle.is_some() {
            "oracle"
        } else if v.corr.is_some() {
            "correspondence"
        } else {
            "idempotence"
        }
    }
    fn count(t: &[G]) -> usize {
        t.iter().map(|g| match g { G::Mod { items, .. } => 1 + count(items), G::Block { items, .. } => 1 + items.len(), _ => 1 }).sum()
    }
    // remove the k-th removable unit (pre-order); returns None when k is out of range
    fn remove(t: &[G], k: &mut isize) -> Vec<G> {
        let mut out = vec![];
        for g in t {
            if *k == 0 {
                *k -= 1;
                continue;
            }
            *k -= 1;
            match g {
                G::Mod { head, items } => out.push(G::Mod { head: head.clone(), items: remove(items, k) }),
                G::Block { attrs, unsafety, abi, items } => {
                    let mut its = vec![];
                    for i in items {
                        if *k == 0 {
                            *k -= 1;
                            continue;
                        }
                        *k -= 1;
                        its.push(i.clone());
                    }
                    out.push(G::Block { attrs: attrs.clone(), unsafety: *unsafety, abi: abi.clone(), items: its });
                }
                p => out.push(p.clone()),
            }
        }
        out
    }
    let mut cur = tree;
    let mut budget = 400;
    loop {
        let n = count(&cur);
        let mut progressed = false;
        let mut i = 0;
        while i < n && budget > 0 {
            let mut k = i as isize;
            let cand = remove(&cur, &mut k);
            let mut s = String::new();
            render(&cand, &mut s);
            budget -= 1;
            if let Some((v, _)) = fails_fn(&s, cfg) {
                if class_of(&v) == class {
                    cur = cand;
                    progressed = true;
                    break;
                }
            }
            i += 1;
        }
        if !progressed || budget == 0 {
            return cur;
        }
    }
}

fn run_fn_level(args: &Args, st: &mut Stats) {
    let ncases: u64 = if args.thorough() { 12000 } else { 1500 };
    let mut rng = Rng::new(args.seed ^ 0xC18);
    let batch = 250;
    let mut done = 0;
    while done < ncases {
        let mut trees = vec![];
        let mut srcs = vec![];
        let mut befores = vec![];
        let mut ints = vec![];
        let mut reqs = vec![];
        let mut tails = vec![];
        for _ in 0..batch.min(ncases - done) {
            let mode = match rng.below(10) {
                0..=3 => 0,
                4..=6 => 1,
                _ => 2,
            };
            let mut g = Gen { rng: rng.fork(), n: 1, unsafe_mode: mode, plain_pool: vec![], foreign_pool: vec![], hist: BTreeMap::new() };
            let size = match g.rng.below(10) {
                0 => g.rng.range(0, 2),
                1..=6 => g.rng.range(3, 14),
                _ => g.rng.range(15, 45),
            };
            let tree = g.level(0, size);
            for (k, n) in &g.hist {
                *st.hist.entry(k.clone()).or_insert(0) += n;
            }
            *st.hist.entry(format!("case:unsafe_mode={mode}")).or_insert(0) += 1;
            let mut src = String::new();
            render(&tree, &mut src);
            let before = match canon_file(&src) {
                Ok(b) => b,
                Err(e) => {
                    st.failures.push(Failure { kind: "impl-error", layer: "fn", cfg: (false, false), input: src.clone(), flags: vec![], detail: format!("generator produced unparsable source: {e}"), in_region: false, matches_model: false });
                    continue;
                }
            };
            let c = count_items(&before);
            *st.hist.entry(format!("case:items={}", bucket(c.0 + c.2 + c.3))).or_insert(0) += 1;
            let mut int = Interner::default();
            for cfg in CFGS {
                let (r, t) = request(&before, cfg, &mut int);
                reqs.push(r);
                tails.push(t);
            }
            trees.push(tree);
            srcs.push(src);
            befores.push(before);
            ints.push(int);
        }
        let answers = ask_model(&reqs);
        assert_eq!(answers.len(), reqs.len(), "bgmodel answered {} of {} requests", answers.len(), reqs.len());
        for (ci, src) in srcs.iter().enumerate() {
            st.cases += 1;
            for (k, cfg) in CFGS.iter().enumerate() {
                let idx = ci * 4 + k;
                st.evaluations += 1;
                let after = match bindgen::verif::postprocess(src, cfg.0, cfg.1) {
                    Ok(a) => a,
                    Err(e) => {
                        st.failures.push(Failure { kind: "impl-error", layer: "fn", cfg: *cfg, input: src.clone(), flags: vec![], detail: e, in_region: false, matches_model: false });
                        continue;
                    }
                };
                let v = judge(&befores[ci], &after, *cfg, &tails[idx], &answers[idx], &mut ints[ci]);
                if v.nontrivial {
                    st.nontrivial += 1;
                    st.distinct.insert(hash_str(&reqs[idx]));
                }
                if v.in_region && cfg.0 {
                    st.region_cases += 1;
                }
                if st.samples.len() < 3 && v.nontrivial && st.evaluations % 997 == 3 {
                    st.samples.push(format!("{{\"layer\":\"fn\",\"request\":{},\"model\":{},\"implementation_equal\":{}}}", json_str(&clip(&reqs[idx])), json_str(&clip(&answers[idx])), v.corr.is_none()));
                }
                record(st, &v, "fn", *cfg, src, &[], Some(&trees[ci]));
            }
        }
        done += batch.min(ncases - done);
    }
}

fn bucket(n: usize) -> &'static str {
    match n {
        0..=2 => "0-2",
        3..=9 => "3-9",
        10..=29 => "10-29",
        30..=99 => "30-99",
        100..=999 => "100-999",
        _ => "1000+",
    }
}

fn record(st: &mut Stats, v: &Verdict, layer: &'static str, cfg: (bool, bool), input: &str, flags: &[String], tree: Option<&Vec<G>>) {
    let matches_model = v.corr.is_none();
    let mut push = |kind: &'static str, detail: &str, st: &mut Stats| {
        let known = kind == "oracle" && v.in_region && matches_model && cfg.0;
        if known {
            st.known_hits += 1;
            if layer == "wp" {
                st.known_hits_wp += 1;
            }
            if st.failures.iter().any(|f| f.kind == "oracle" && f.layer == layer && f.in_region && f.matches_model) {
                return; // keep one representative of the known finding
            }
        } else if st.failures.iter().filter(|f| f.kind == kind).count() >= 3 {
            return;
        }
        let mut inp = input.to_owned();
        if let Some(t) = tree {
            let small = shrink(t.clone(), cfg, kind);
            inp.clear();
            render(&small, &mut inp);
        }
        let mut detail = detail.to_owned();
        if tree.is_some() {
            if let Some((v2, _)) = fails_fn(&inp, cfg) {
                detail = v2.oracle.or(v2.corr).or(v2.idem).unwrap_or(detail);
            }
        }
        st.failures.push(Failure { kind, layer, cfg, input: inp, flags: flags.to_vec(), detail, in_region: v.in_region, matches_model });
    };
    if let Some(d) = &v.oracle {
        push("oracle", d, st);
    }
    if let Some(d) = &v.corr {
        push("correspondence", d, st);
    }
    if let Some(d) = &v.idem {
        push("idempotence", d, st);
    }
}

// ------------------------------------------------------------------ whole program

fn gen_header(rng: &mut Rng, hist: &mut BTreeMap<String, u64>) -> (String, Vec<String>) {
    let mut n = 0u64;
    let mut text = String::new();
    fn decls(rng: &mut Rng, n: &mut u64, depth: u64, out: &mut String, hist: &mut BTreeMap<String, u64>) {
        let k = rng.range(2, 12);
        for _ in 0..k {
            *n += 1;
            let i = *n;
            let c = rng.below(16);
            let name = match c {
                0 | 1 => { out.push_str(&format!("int f{i}(int a);\n")); "fn" }
                2 => { out.push_str(&format!("/** doc of g{i} */\nint g{i}(void) __attribute__((warn_unused_result));\n")); "fn-doc-must-use" }
                3 => { out.push_str(&format!("extern int v{i};\n")); "var" }
                4 => { out.push_str(&format!("extern const char cv{i};\n")); "const-var" }
                5 => { out.push_str(&format!("struct S{i} {{ int a; char b; }};\n")); "struct" }
                6 => { out.push_str(&format!("typedef int T{i};\n")); "typedef" }
                7 => { out.push_str(&format!("enum E{i} {{ A{i}, B{i} }};\n")); "enum" }
                8 => { out.push_str(&format!("static const int K{i} = {i};\n")); "const" }
                9 => { out.push_str(&format!("union U{i} {{ int a; float b; }};\n")); "union" }
                10 => { out.push_str(&format!("class C{i} {{ public: int m(int); static int sm(); int x; }};\n")); "class" }
                11 => { out.push_str(&format!("int ms{i}(int) __attribute__((ms_abi));\n")); "fn-ms_abi" }
                12 => { out.push_str(&format!("int uw_{i}(int);\n")); "fn-unwind" }
                13 => { out.push_str(&format!("extern \"C\" int sy_{i}(int);\n")); "fn-system" }
                _ => {
                    if depth < 3 {
                        let nm = if rng.chance(1, 4) { 1 } else { i };
                        out.push_str(&format!("namespace ns{nm} {{\n"));
                        decls(rng, n, depth + 1, out, hist);
                        out.push_str("}\n");
                        "namespace"
                    } else {
                        out.push_str(&format!("int f{i}(int a);\n"));
                        "fn"
                    }
                }
            };
            *hist.entry(format!("header:{name}")).or_insert(0) += 1;
        }
    }
    decls(rng, &mut n, 0, &mut text, hist);
    let mut flags: Vec<String> = vec!["--no-layout-tests".into()];
    let ns = rng.chance(3, 4);
    if ns {
        flags.push("--enable-cxx-namespaces".into());
    }
    if rng.chance(1, 4) {
        flags.push("--wasm-import-module-name".into());
        flags.push("wm".into());
    }
    if rng.chance(1, 2) {
        flags.push("--enable-function-attribute-detection".into());
    }
    let old = rng.chance(1, 3);
    if old {
        flags.push("--rust-target".into());
        flags.push("1.77".into());
    }
    *hist.entry(format!("header:unsafe-extern-side={}", if old { "pre-1.82" } else { "post-1.82" })).or_insert(0) += 1;
    flags.push("--override-abi".into());
    flags.push("uw_.*=C-unwind".into());
    flags.push("--override-abi".into());
    flags.push("sy_.*=system".into());
    if ns && rng.chance(1, 3) {
        // user raw lines inside a module: the only way to get blocks that bindgen did not write itself
        let un = match rng.below(3) {
            0 => "unsafe ",
            _ => "",
        };
        let path = if rng.chance(1, 2) { "root" } else { "root::ns1" };
        flags.push("--module-raw-line".into());
        flags.push(path.into());
        flags.push(format!("{un}extern \"C\" {{ pub fn raw_fn(); }}"));
        *hist.entry(format!("header:module-raw-line-{}extern", un.trim())).or_insert(0) += 1;
    }
    flags.push("--".into());
    flags.push("-x".into());
    flags.push("c++".into());
    flags.push("-std=c++14".into());
    (text, flags)
}

const STRIP: &[&str] = &["--merge-extern-blocks", "--sort-semantically", "--no-rustfmt-bindings"];
// `--raw-line` text is written by `Bindings::write` in front of the module; it is not part of the token
// stream the passes see (module raw lines are, and stay)
const STRIP_WITH_VALUE: &[&str] = &["--formatter", "--rustfmt-configuration-file", "--raw-line"];
const SKIP_IF: &[&str] = &["--wrap-static-fns", "--depfile", "--emit-ir", "--emit-clang-ast", "--dump-preprocessed-input", "--emit-ir-graphviz"];

fn clean_flags(flags: &[String]) -> Option<Vec<String>> {
    let mut out = vec![];
    let mut i = 0;
    while i < flags.len() {
        let f = &flags[i];
        if f == "--" {
            out.extend_from_slice(&flags[i..]);
            break;
        }
        if SKIP_IF.iter().any(|s| f.starts_with(s)) {
            return None;
        }
        if STRIP.contains(&f.as_str()) {
            i += 1;
            continue;
        }
        if STRIP_WITH_VALUE.contains(&f.as_str()) {
            i += 2;
            continue;
        }
        if STRIP_WITH_VALUE.iter().any(|s| f.starts_with(&format!("{s}="))) {
            i += 1;
            continue;
        }
        out.push(f.clone());
        i += 1;
    }
    Some(out)
}

fn run_bindgen(header: &str, flags: &[String], cfg: (bool, bool)) -> drive::GenOut {
    let mut all: Vec<String> = vec![header.to_owned(), "--formatter".into(), "none".into()];
    if cfg.0 {
        all.push("--merge-extern-blocks".into());
    }
    if cfg.1 {
        all.push("--sort-semantically".into());
    }
    // clang-sys would spawn `clang --version` and `clang -E -v` for every run
    if !flags.iter().any(|f| f == "--no-include-path-detection") {
        all.push("--no-include-path-detection".into());
    }
    all.extend_from_slice(flags);
    drive::generate_with_flags(&all, None)
}

fn run_whole_program(args: &Args, st: &mut Stats) {
    let scratch = Scratch::new("c18wp");
    let mut rng = Rng::new(args.seed ^ 0x18C);
    let mut inputs: Vec<(String, String, Vec<String>)> = vec![]; // (label, header path, flags)
    // repository headers
    let mut repo = util::repo_headers();
    let nrepo = if args.thorough() { repo.len() } else { 120 };
    // always keep the headers that exercise the passes; sample the rest
    let mut chosen: Vec<(PathBuf, Vec<String>)> = vec![];
    repo.retain(|(p, f)| {
        let keep = f.iter().any(|x| x == "--merge-extern-blocks" || x == "--sort-semantically");
        if keep {
            chosen.push((p.clone(), f.clone()));
        }
        !keep
    });
    while chosen.len() < nrepo && !repo.is_empty() {
        let i = rng.below(repo.len() as u64) as usize;
        chosen.push(repo.swap_remove(i));
    }
    chosen.sort();
    for (p, f) in chosen {
        match clean_flags(&f) {
            Some(fl) => inputs.push((format!("repo:{}", p.file_name().unwrap().to_string_lossy()), p.to_string_lossy().into_owned(), fl)),
            None => *st.skipped.entry("repo-header-with-side-effect-flags".into()).or_insert(0) += 1,
        }
    }
    // corpus first: minimised past findings (`// bindgen-flags:` line as in the repository headers)
    let corpus = PathBuf::from(std::env::var("VERIF_DIR").unwrap_or_else(|_| "/verif".into())).join("corpus/C18");
    let mut corpus_files: Vec<PathBuf> = std::fs::read_dir(&corpus).map(|d| d.filter_map(|e| e.ok()).map(|e| e.path()).collect()).unwrap_or_default();
    corpus_files.sort();
    for p in corpus_files {
        let text = std::fs::read_to_string(&p).unwrap_or_default();
        if let Some(l) = text.lines().find_map(|l| l.strip_prefix("// bindgen-flags:")) {
            inputs.insert(0, (format!("corpus:{}", p.file_name().unwrap().to_string_lossy()), p.to_string_lossy().into_owned(), util::shell_split(l)));
            *st.hist.entry("wp:corpus".into()).or_insert(0) += 1;
        }
    }
    let ngen = if args.thorough() { 1500 } else { 150 };
    for i in 0..ngen {
        let (text, flags) = gen_header(&mut rng, &mut st.hist);
        let p = scratch.path(&format!("gen{i}.hpp"));
        std::fs::write(&p, &text).unwrap();
        inputs.push((format!("gen:{i}"), p.to_string_lossy().into_owned(), flags));
    }
    // headers mention paths relative to bindgen-tests
    let _ = std::env::set_current_dir("/repo/bindgen-tests");
    let rustc_every = if args.thorough() { 12 } else { 10 };
    let mut reqs = vec![];
    struct Pending {
        label: String,
        header: String,
        flags: Vec<String>,
        before: Vec<CItem>,
        before_src: String,
        int: Interner,
        outs: Vec<((bool, bool), String, String)>, // cfg, processed text, request tail
        first_req: usize,
    }
    let mut pend: Vec<Pending> = vec![];
    for (label, header, flags) in inputs {
        let base = run_bindgen(&header, &flags, (false, false));
        let before_src = match base.bindings {
            Some(b) => b,
            None => {
                let why = if base.panic.is_some() { "baseline-panic" } else { "baseline-error" };
                *st.skipped.entry(why.into()).or_insert(0) += 1;
                continue;
            }
        };
        let before = match canon_file(&before_src) {
            Ok(b) => b,
            Err(_) => {
                *st.skipped.entry("baseline-unparsable-by-syn".into()).or_insert(0) += 1;
                continue;
            }
        };
        let c = count_items(&before);
        *st.hist.entry(format!("wp:items={}", bucket(c.0 + c.2 + c.3))).or_insert(0) += 1;
        *st.hist.entry(format!("wp:blocks={}", bucket(c.1))).or_insert(0) += 1;
        *st.hist.entry(format!("wp:modules={}", bucket(c.3))).or_insert(0) += 1;
        let mut p = Pending { label, header, flags, before, before_src, int: Interner::default(), outs: vec![], first_req: reqs.len() };
        for cfg in CFGS {
            let out = run_bindgen(&p.header, &p.flags, cfg);
            let (r, t) = request(&p.before, cfg, &mut p.int);
            reqs.push(r);
            match out.bindings {
                Some(b) => p.outs.push((cfg, b, t)),
                None => {
                    st.failures.push(Failure { kind: "impl-error", layer: "wp", cfg, input: std::fs::read_to_string(&p.header).unwrap_or_default(), flags: p.flags.clone(), detail: format!("bindgen fails with the pass flags although it succeeds without: err={:?} panic={:?}", out.error, out.panic), in_region: false, matches_model: false });
                    p.outs.push((cfg, String::new(), t));
                }
            }
        }
        pend.push(p);
    }
    let answers = ask_model(&reqs);
    assert_eq!(answers.len(), reqs.len(), "bgmodel answered {} of {} requests", answers.len(), reqs.len());
    for (pi, p) in pend.iter_mut().enumerate() {
        st.cases += 1;
        let header_text = std::fs::read_to_string(&p.header).unwrap_or_default();
        let mut base_ok: Option<bool> = None;
        for (k, (cfg, out, tail)) in p.outs.iter().enumerate() {
            if out.is_empty() {
                continue;
            }
            st.evaluations += 1;
            let v = judge(&p.before, out, *cfg, tail, &answers[p.first_req + k], &mut p.int);
            if v.nontrivial {
                st.nontrivial += 1;
                st.distinct.insert(hash_str(&reqs[p.first_req + k]));
            }
            if v.in_region && cfg.0 {
                st.region_cases += 1;
            }
            if st.samples.len() < 5 && v.nontrivial && p.label.starts_with("repo:") && st.samples.iter().filter(|s| s.contains("\"wp\"")).count() < 2 {
                st.samples.push(format!("{{\"layer\":\"wp\",\"input\":{},\"merge\":{},\"sort\":{},\"request\":{},\"model\":{},\"implementation_equal\":{}}}", json_str(&p.label), cfg.0, cfg.1, json_str(&clip(&reqs[p.first_req + k])), json_str(&clip(&answers[p.first_req + k])), v.corr.is_none()));
            }
            let mut fl = p.flags.clone();
            fl.insert(0, p.label.clone());
            record(st, &v, "wp", *cfg, &header_text, &fl, None);
            // rustc on a sample: processed bindings compile whenever the unprocessed ones do
            if (cfg.0 || cfg.1) && v.nontrivial && (pi + k) % rustc_every == 0 {
                if base_ok.is_none() {
                    base_ok = Some(drive::rustc_check_lib(&scratch, "base", &p.before_src, "2021").is_ok());
                }
                if base_ok == Some(true) {
                    match drive::rustc_check_lib(&scratch, "proc", out, "2021") {
                        Ok(()) => st.rustc_ok += 1,
                        Err(e) => {
                            let known = v.in_region && v.corr.is_none();
                            st.failures.push(Failure { kind: "rustc", layer: "wp", cfg: *cfg, input: header_text.clone(), flags: fl.clone(), detail: clip(&e), in_region: known, matches_model: v.corr.is_none() });
                        }
                    }
                } else {
                    st.rustc_baseline_fail += 1;
                }
            }
        }
    }
}

fn main() {
    let args = Args::parse();
    drive::quiet_panics();
    let mut st = Stats { cases: 0, evaluations: 0, nontrivial: 0, distinct: Default::default(), known_hits: 0, known_hits_wp: 0, region_cases: 0, failures: vec![], samples: vec![], hist: BTreeMap::new(), skipped: BTreeMap::new(), rustc_ok: 0, rustc_baseline_fail: 0 };
    if let Some(r) = &args.replay {
        // replay file: first line `merge sort`, rest = Rust source (fn layer)
        let t = std::fs::read_to_string(r).unwrap();
        let (first, src) = t.split_once('\n').unwrap();
        let cfg = (first.contains("merge=1"), first.contains("sort=1"));
        match fails_fn(src, cfg) {
            Some((v, after)) => {
                println!("STILL-FAILS oracle={:?}\ncorrespondence={:?}\nidempotence={:?}\nin_region={}\n--- processed ---\n{}", v.oracle, v.corr, v.idem, v.in_region, after);
            }
            None => println!("PASSES-NOW"),
        }
        return;
    }
    let t0 = std::time::Instant::now();
    run_fn_level(&args, &mut st);
    let fn_cases = st.cases;
    let fn_evals = st.evaluations;
    let t1 = t0.elapsed().as_secs_f64();
    run_whole_program(&args, &mut st);
    let t2 = t0.elapsed().as_secs_f64() - t1;
    let hist = st.hist.iter().map(|(k, v)| format!("{}:{}", json_str(k), v)).collect::<Vec<_>>().join(",");
    let skipped = st.skipped.iter().map(|(k, v)| format!("{}:{}", json_str(k), v)).collect::<Vec<_>>().join(",");
    let report = format!(
        "{{\"fn_cases\":{},\"fn_evaluations\":{},\"wp_inputs\":{},\"wp_evaluations\":{},\"evaluations\":{},\"nontrivial\":{},\"distinct_nontrivial\":{},\"known_hits\":{},\"known_hits_wp\":{},\"region_cases\":{},\"rustc_ok\":{},\"rustc_baseline_fail\":{},\"fn_seconds\":{:.1},\"wp_seconds\":{:.1},\"failures\":[{}],\"samples\":[{}],\"distribution\":{{{}}},\"skipped\":{{{}}}}}",
        fn_cases,
        fn_evals,
        st.cases - fn_cases,
        st.evaluations - fn_evals,
        st.evaluations,
        st.nontrivial,
        st.distinct.len(),
        st.known_hits,
        st.known_hits_wp,
        st.region_cases,
        st.rustc_ok,
        st.rustc_baseline_fail,
        t1,
        t2,
        st.failures.iter().map(failure_json).collect::<Vec<_>>().join(","),
        st.samples.join(","),
        hist,
        skipped
    );
    util::write(&args.out.join("report.json"), &report);
    println!("c18: fn_cases={} wp_inputs={} evaluations={} nontrivial={} failures={} known_hits={}", fn_cases, st.cases - fn_cases, st.evaluations, st.nontrivial, st.failures.len(), st.known_hits);
}
