//! C02 — generated types match the C compiler's size, alignment, offsets and values.
//!
//! Per batch (one generated header with many records):
//!   real bindgen (in-process, IR dump) under several option sets
//!   → (a) correspondence: the model's `emit` (bgmodel `lay comp …`) vs the syn inventory of the
//!         emitted aggregate (repr attributes, field names, field types resolved to size/align);
//!   → (b) property instance: layout of the emitted aggregate (repr(C) rules) vs libclang's numbers;
//!   → tool validation: the repr(C) resolver and the model's `reprC` vs a rustc probe; libclang's
//!         numbers vs a clang constant table; the embedded `const _` assertions compile;
//!   → value round trip C ↔ Rust through the bindings on a sample.
//! Plus function-level correspondence of `align_to` / `Layout::for_size` on many arguments.
use std::collections::{BTreeMap, BTreeSet};
use std::fmt::Write as _;

use bgverif::cgraph::{self as cgen, Decl, GenCfg, MemberKind, Program};
use bgverif::drive::{self, Scratch};
use bgverif::inventory::{self, Inventory, Resolver};
use bgverif::irdump;
use bgverif::irlayout::{self, Ir, IrComp, ModelAgg, ModelOpts};
use bgverif::probe::{self, RQuery};
use bgverif::rng::Rng;
use bgverif::util::{self, json_str, Args};

#[derive(Debug, Clone)]
struct Issue {
    /// correspondence | oracle | spec-vs-rustc | libclang-vs-clang | asserts-compile | option-variance | roundtrip | bindgen-failed | machinery
    class: String,
    variant: String,
    comp: String,
    detail: String,
    known: Option<String>,
    header: String,
}

#[derive(Default)]
struct Stats {
    batches: u64,
    comps_checked: u64,
    comps_by_kind: BTreeMap<String, u64>,
    model_requests: u64,
    distinct_shapes: BTreeSet<String>,
    nontrivial: BTreeSet<String>,
    rustc_values: u64,
    clang_values: u64,
    roundtrip_leaves: u64,
    roundtrip_structs: u64,
    known_hits: u64,
    variants_run: u64,
    bindgen_errors: u64,
    fn_level: u64,
    samples: Vec<String>,
    branches: BTreeMap<String, u64>,
}

const VARIANTS: &[(&str, &[&str])] = &[
    ("base", &[]),
    ("explicit-padding", &["--explicit-padding"]),
    ("derives", &["--no-layout-tests", "--with-derive-default", "--with-derive-hash", "--with-derive-partialeq", "--with-derive-eq", "--impl-debug"]),
    ("styles-rust", &["--default-enum-style", "rust", "--default-alias-style", "new_type", "--default-non-copy-union-style", "manually_drop"]),
    ("namespaces", &["--enable-cxx-namespaces", "--default-enum-style", "newtype", "--no-layout-tests"]),
    ("nocopy", &["--default-enum-style", "moduleconsts", "--default-alias-style", "new_type_deref", "--no-derive-copy", "--no-derive-debug"]),
    ("nocopy-md", &["--no-derive-copy", "--default-non-copy-union-style", "manually_drop", "--explicit-padding"]),
];

struct RecInfo {
    c_type: String,
    packed_attr: bool,
    /// direct named plain / flexible members
    members: Vec<String>,
}

fn rec_infos(prog: &Program) -> BTreeMap<String, RecInfo> {
    let mut m = BTreeMap::new();
    for r in prog.records() {
        let members = r.members.iter().filter(|x| matches!(x.kind, MemberKind::Plain(_) | MemberKind::Flex(_))).map(|x| x.name.clone()).collect();
        m.insert(r.rust_name(), RecInfo { c_type: r.c_type(), packed_attr: r.packed, members });
    }
    m
}

/// corpus headers carry `//@ record <c type> <rust name> packed=0|1 : m1 m2 …` lines
fn rec_infos_from_directives(text: &str) -> BTreeMap<String, RecInfo> {
    let mut m = BTreeMap::new();
    for l in text.lines() {
        if let Some(r) = l.strip_prefix("//@ record ") {
            let (head, mem) = r.split_once(':').unwrap_or((r, ""));
            let h: Vec<&str> = head.split_whitespace().collect();
            if h.len() < 3 { continue; }
            let packed = h.iter().any(|x| *x == "packed=1");
            let ri = h.iter().rposition(|x| !x.starts_with("packed=")).unwrap();
            let rust = h[ri].to_string();
            let c_type = h[..ri].join(" ");
            m.insert(rust, RecInfo { c_type, packed_attr: packed, members: mem.split_whitespace().map(|s| s.to_string()).collect() });
        }
    }
    m
}

fn model_name_to_real(c: &IrComp, n: &str) -> String {
    if let Some(i) = n.strip_prefix("user") {
        if let Ok(i) = i.parse::<usize>() {
            return c.fields.iter().find(|f| f.idx == i).and_then(|f| f.name.clone()).unwrap_or_else(|| format!("<unnamed {i}>"));
        }
    }
    n.to_string()
}

struct VariantOut {
    ir: Ir,
    inv: Inventory,
    bindings: String,
    #[allow(dead_code)]
    models: BTreeMap<u64, ModelAgg>,
    /// aggregates whose attribute combination rustc rejects (region-classified)
    rejected_types: BTreeSet<String>,
}

fn has_inexact_pad_real(agg: &inventory::Agg) -> bool {
    agg.fields.iter().any(|(n, t)| {
        if !n.starts_with("__bindgen_padding_") { return false; }
        let tx = inventory::type_text(t).replace("root::", "");
        if let Some(r) = tx.strip_prefix("__BindgenOpaqueArray") {
            if let Some((a, rest)) = r.split_once("<[u8;") {
                if let (Ok(a), Ok(s)) = (a.parse::<u64>(), rest.trim_end_matches("]>").parse::<u64>()) {
                    return a > 1 && s % a != 0;
                }
            }
        }
        false
    })
}

#[allow(clippy::too_many_arguments)]
fn run_variant(scratch: &Scratch, header_name: &str, text: &str, vname: &str, flags: &[&str], clang_args: &[&str], infos: &BTreeMap<String, RecInfo>,
               stats: &mut Stats, issues: &mut Vec<Issue>, failure: &mut Option<(Option<String>, Option<String>)>) -> Option<VariantOut> {
    let out = drive::generate_text(scratch, header_name, text, flags, clang_args, true);
    stats.variants_run += 1;
    let mk = |class: &str, comp: &str, detail: String, known: Option<String>| Issue { class: class.into(), variant: vname.into(), comp: comp.into(), detail, known, header: text.to_string() };
    let bindings = match &out.bindings {
        Some(b) => b.clone(),
        None => {
            stats.bindgen_errors += 1;
            *failure = Some((out.error.clone(), out.panic.clone()));
            return None;
        }
    };
    let log = irdump::parse_log(out.log.as_deref().unwrap_or(""));
    let recs = match log.dumps.last() { Some(d) => d, None => { issues.push(mk("machinery", "", "no IR dump".into(), None)); return None; } };
    let ir = Ir::from_dump(recs);
    let inv = match Inventory::parse(&bindings) { Ok(i) => i, Err(e) => { issues.push(mk("machinery", "", e, None)); return None; } };
    for d in &inv.duplicates {
        issues.push(mk("oracle", d, "two definitions with the same name in the bindings".into(), None));
    }
    let mo = ModelOpts { force_padding: flags.contains(&"--explicit-padding"), ptr_size: 8, u64_align: 8,
                         manually_drop: flags.windows(2).any(|w| w[0] == "--default-non-copy-union-style" && w[1] == "manually_drop") };
    let comps: Vec<&IrComp> = ir.comps.iter().filter(|c| c.codegen && !c.nontype_tparams && c.all_tparams_empty).collect();
    let reqs: Vec<String> = comps.iter().map(|c| {
        let ca: Vec<bool> = c.fields.iter().map(|f| {
            if f.is_unit { return false; }
            match (inv.aggs.get(&c.rust_name), &f.name) {
                (Some(a), Some(n)) => a.fields.iter().find(|x| &x.0 == n).map_or(false, |x| inv.contains_align(&x.1, 0)),
                _ => false,
            }
        }).collect();
        irlayout::model_request(&ir, c, &mo, infos.get(&c.rust_name).map(|i| i.packed_attr), &ca)
    }).collect();
    let answers = if reqs.is_empty() { vec![] } else { util::model(&reqs) };
    stats.model_requests += reqs.len() as u64;
    // members are assumed faithful (each record is judged on its own; a wrong nested record is
    // reported once, at the nested record)
    let mut resolver = Resolver::new(&inv);
    for c in &ir.comps { if let Some(l) = c.layout { if !c.fwd { resolver.assume.insert(c.rust_name.clone(), l); } } }
    let mut models = BTreeMap::new();
    let mut rejected_types: BTreeSet<String> = BTreeSet::new();
    for ((c, req), ans) in comps.iter().zip(reqs.iter()).zip(answers.iter()) {
        stats.comps_checked += 1;
        let m = match irlayout::parse_model_answer(ans) {
            Some(m) => m,
            None => { issues.push(mk("machinery", &c.rust_name, format!("model answer unparsable: {ans} for {req}"), None)); continue; }
        };
        // shape statistics
        let kind = format!("{}{}{}{}{}", if c.is_union { "union" } else { "struct" }, if c.is_packed { "+packed" } else { "" },
                           if c.has_bitfields { "+bitfields" } else { "" }, if c.fwd { "+fwd" } else { "" }, if c.opaque { "+opaque" } else { "" });
        *stats.comps_by_kind.entry(kind).or_default() += 1;
        let shape = req.splitn(3, ' ').nth(2).unwrap_or("").to_string();
        if c.fields.len() >= 2 { stats.nontrivial.insert(shape.clone()); }
        stats.distinct_shapes.insert(shape);
        if m.packed.is_some() { *stats.branches.entry("repr_packed".into()).or_default() += 1; }
        if m.align.is_some() { *stats.branches.entry("repr_align".into()).or_default() += 1; }
        for f in &m.fields {
            let key = if f.0.starts_with("__bindgen_padding") { "padding_field" } else if f.0 == "_bindgen_align" { "bindgen_align" } else if f.0 == "bindgen_union_field" { "union_blob" }
                      else if f.0 == "_address" { "address" } else if f.0 == "_unused" { "unused" } else if f.0 == "_bindgen_opaque_blob" { "opaque_blob" } else if f.0.starts_with("_bitfield_") { "bitfield_unit" } else { continue };
            *stats.branches.entry(key.into()).or_default() += 1;
        }
        let agg = match inv.aggs.get(&c.rust_name) {
            Some(a) => a,
            None => { issues.push(mk("correspondence", &c.rust_name, format!("record {} (id {}) has no struct/union in the bindings", c.rust_name, c.id), None)); continue; }
        };
        let real_layout = resolver.agg_layout(&c.rust_name);
        // ---- (a) correspondence: model's emitted aggregate vs the real one
        let mut diffs = vec![];
        if m.panic {
            diffs.push("model predicts a panic but bindgen produced bindings".to_string());
        } else {
            if m.is_packed != c.is_packed { diffs.push(format!("is_packed: model {} real {}", m.is_packed, c.is_packed)); }
            if m.is_union != agg.is_union { diffs.push(format!("union: model {} real {}", m.is_union, agg.is_union)); }
            if m.packed != agg.packed { diffs.push(format!("repr packed: model {:?} real {:?}", m.packed, agg.packed)); }
            if m.align != agg.align { diffs.push(format!("repr align: model {:?} real {:?}", m.align, agg.align)); }
            let mnames: Vec<String> = m.fields.iter().map(|f| model_name_to_real(c, &f.0)).collect();
            let rnames: Vec<String> = agg.fields.iter().map(|f| f.0.clone()).collect();
            if mnames != rnames {
                diffs.push(format!("field names: model {mnames:?} real {rnames:?}"));
            } else if let Some(rl) = &real_layout {
                for (mf, (rn, rs, ra)) in m.fields.iter().zip(rl.fields.iter()) {
                    if (mf.1, mf.2) != (*rs, *ra) { diffs.push(format!("field {rn}: model type (size {}, align {}) real ({rs}, {ra})", mf.1, mf.2)); }
                    if mf.3 != "-" {
                        let real_t = inventory::type_text(&agg.fields.iter().find(|f| &f.0 == rn).unwrap().1).replace("root::", "");
                        if real_t != mf.3 { diffs.push(format!("field {rn}: model blob {} real {real_t}", mf.3)); }
                    }
                }
            } else {
                let bad: Vec<String> = agg.fields.iter().filter(|f| resolver.type_layout(&f.1, &BTreeMap::new()).is_none()).map(|f| format!("{}: {}", f.0, inventory::type_text(&f.1))).collect();
                diffs.push(format!("real aggregate could not be resolved to a layout: {bad:?}"));
            }
        }
        if !diffs.is_empty() {
            issues.push(mk("correspondence", &c.rust_name, format!("{} | request: {req} | answer: {ans}", diffs.join("; ")), None));
        }
        // ---- regions, read off the real aggregate (mirror of Model/LayoutRegions.lean)
        let mut regions: Vec<String> = vec![];
        {
            if agg.packed.is_none() && !agg.is_union && !c.is_union
                && (c.fields.iter().any(|f| !f.is_unit && match (f.off_bits, f.layout) { (Some(o), Some((_, a))) => (o / 8) % a.max(1) != 0, _ => false })
                    || (!has_inexact_pad_real(agg) && real_layout.as_ref().map_or(false, |rl| c.fields.iter().any(|f| !f.is_unit && match (&f.name, f.off_bits) { (Some(n), Some(o)) => rl.offsets.iter().any(|(rn, ro)| rn == n && o / 8 < *ro), _ => false })))) {
                regions.push("unpacked_misaligned_member".into());
            }
            let rejected_shape = agg.packed.is_some() && (agg.align.is_some() || agg.fields.iter().any(|f| inv.contains_align(&f.1, 0)));
            if let (Some(rl), false) = (&real_layout, rejected_shape) {
                if c.fields.iter().any(|f| f.is_unit && match (irlayout::unit_start_bits(f), rl.offsets.iter().find(|(n, _)| n == &format!("_bitfield_{}", f.nth))) { (Some(s), Some((_, o))) => o * 8 != s, _ => false }) {
                    regions.push("bitfield_unit_misplaced".into());
                }
            }
            if let (true, Some(rl), false, false) = (agg.packed.is_some() || c.is_packed, &real_layout, agg.is_union, rejected_shape) {
                if c.fields.iter().any(|f| !f.is_unit && match (&f.name, f.off_bits) { (Some(n), Some(o)) => rl.offsets.iter().any(|(rn, ro)| rn == n && *ro < o / 8), _ => false }) {
                    regions.push("packed_member_gap".into());
                }
            }
            let unit_short = c.is_union && c.fields.iter().any(|f| f.is_unit && f.layout.map_or(false, |(sz, _)| f.bfs.iter().map(|b| b.2 + b.3).max().unwrap_or(0) > 8 * sz));
            if let (true, false, false, Some((cs, _)), Some(rl)) = (c.is_union, unit_short, rejected_shape, c.layout, &real_layout) {
                if rl.size < cs { regions.push("union_bitfields_dropped".into()); }
            }
            let n = agg.fields.len();
            if n >= 2 && agg.fields[n - 1].0.starts_with("__bindgen_padding_") && agg.fields[n - 2].0.starts_with("__bindgen_padding_") { regions.push("explicit_padding_double_tail".into()); }
            if agg.fields.iter().any(|f| f.0.starts_with("__bindgen_padding_")) && agg.fields.iter().any(|f| f.0 == "bindgen_union_field") { regions.push("explicit_padding_union_wrapper".into()); }
            if c.is_union && c.fields.iter().any(|f| f.is_unit && f.layout.map_or(false, |(sz, _)| f.bfs.iter().map(|b| b.2 + b.3).max().unwrap_or(0) > 8 * sz)) { regions.push("union_bitfield_unit_short".into()); }
        }
        if has_inexact_pad_real(agg) { regions.push("pad_blob_inexact".into()); }
        if agg.packed.is_some() && agg.align.is_some() { regions.push("packed_align_conflict".into()); }
        if agg.packed.is_some() && agg.fields.iter().any(|f| inv.contains_align(&f.1, 0)) { regions.push("packed_contains_aligned".into()); }
        if let (Some((_, ca)), Some(rl)) = (c.layout, &real_layout) {
            if c.is_packed && !c.opaque && agg.packed.is_none() && rl.fields.iter().any(|f| f.2 > ca) { regions.push("packed_dropped".into()); }
        }
        if let Some(n) = agg.packed {
            let rejected_shape = agg.align.is_some() || agg.fields.iter().any(|f| inv.contains_align(&f.1, 0));
            if n > 1 && !agg.is_union && (c.fields.iter().any(|f| !f.is_unit && match (f.off_bits, f.layout) { (Some(o), Some((_, a))) => (o / 8) % a.max(1).min(n) != 0, _ => false })
                || (!rejected_shape && real_layout.as_ref().map_or(false, |rl| c.fields.iter().any(|f| !f.is_unit && match (&f.name, f.off_bits) { (Some(nm), Some(o)) => rl.offsets.iter().any(|(rn, ro)| rn == nm && o / 8 < *ro), _ => false })))) {
                regions.push("packedN_misplaces".into());
            }
        }
        regions.sort();
        let mut model_regions = m.regions.clone();
        model_regions.sort();
        let regions_agree = diffs.is_empty() && regions == model_regions;
        if diffs.is_empty() && regions != model_regions {
            issues.push(mk("correspondence", &c.rust_name, format!("regions: model {:?} harness {:?} | request: {req} | answer: {ans}", m.regions, regions), None));
        }
        let rejected = regions.iter().any(|r| r == "packed_align_conflict" || r == "packed_contains_aligned");
        if rejected {
            // rustc refuses the type: nothing to measure; the probe confirms the rejection
            let known = if regions_agree && m.reprc.is_none() { Some(regions.join("+")) } else { None };
            if known.is_some() { stats.known_hits += 1; }
            issues.push(mk("oracle", &c.rust_name, format!("rustc rejects the emitted type ({}) | request: {req} | answer: {ans}", regions.join("+")), known));
            rejected_types.insert(c.rust_name.clone());
        }
        // ---- (b) property instance: emitted aggregate's layout vs libclang's numbers
        if let (Some((cs, ca)), Some(rl)) = (c.layout, &real_layout) {
            if !c.fwd && !rejected {
                let mut bad = vec![];
                if rl.size != cs { bad.push(format!("size rust {} C {}", rl.size, cs)); }
                if rl.align != ca { bad.push(format!("align rust {} C {}", rl.align, ca)); }
                let mut offs_real = vec![];
                for f in c.fields.iter().filter(|f| !f.is_unit) {
                    if let (Some(n), Some(ob)) = (&f.name, f.off_bits) {
                        if let Some((_, ro)) = rl.offsets.iter().find(|(rn, _)| rn == n) {
                            offs_real.push((f.idx, *ro));
                            if *ro != ob / 8 { bad.push(format!("offset of {n}: rust {ro} C {}", ob / 8)); }
                        }
                    }
                }
                let units_only = bad.is_empty();
                let mut units_real = vec![];
                for f in c.fields.iter().filter(|f| f.is_unit) {
                    if let Some((_, ro)) = rl.offsets.iter().find(|(rn, _)| rn == &format!("_bitfield_{}", f.nth)) {
                        units_real.push((f.nth, *ro));
                        if let Some(s) = irlayout::unit_start_bits(f) {
                            if ro * 8 != s { bad.push(format!("bit-field unit _bitfield_{}: rust byte {ro}, C bit {s} (byte {})", f.nth, s / 8)); }
                        }
                    }
                }
                if !bad.is_empty() {
                    // known finding? region on the real aggregate + model predicts exactly this wrong layout
                    let predicted = m.reprc.as_ref().map_or(false, |(s, a, o)| *s == rl.size && *a == rl.align && {
                        let mo: Vec<(usize, u64)> = o.iter().filter(|(i, _)| offs_real.iter().any(|(j, _)| j == i)).cloned().collect();
                        mo == offs_real
                    }) && m.unit_offsets == units_real;
                    let known = if regions_agree && !regions.is_empty() && predicted { Some(regions.join("+")) } else { None };
                    if known.is_some() { stats.known_hits += 1; }
                    issues.push(mk("oracle", &c.rust_name, format!("{}{} | model reprC {:?} | request: {req} | answer: {ans}", if units_only { "[units-only] " } else { "" }, bad.join("; "), m.reprc), known));
                } else if stats.samples.len() < 3 && c.fields.len() >= 3 {
                    stats.samples.push(format!("{{\"variant\":{},\"request\":{},\"model\":{},\"real_layout\":{},\"clang\":{}}}", json_str(vname), json_str(req), json_str(ans),
                        json_str(&format!("{:?}", (rl.size, rl.align, &rl.offsets))), json_str(&format!("{:?}", (cs, ca)))));
                }
            }
        }
        models.insert(c.id, m);
    }
    Some(VariantOut { ir, inv, bindings, models, rejected_types })
}

/// Type definitions of the baseline bindings that rustc accepts: compile the definitions alone
/// (no impls, no assertions); every aggregate whose definition is refused is removed together
/// with its dependents and the compile is repeated.  Returns the set of removed aggregates.
/// A refused definition that the region check did not already classify is reported.
fn accepted_types(scratch: &Scratch, tag: &str, vo: &VariantOut, text: &str, vname: &str, stats: &mut Stats, issues: &mut Vec<Issue>) -> BTreeSet<String> {
    let mut removed: BTreeSet<String> = vo.inv.dependents(&vo.rejected_types);
    for round in 0..6 {
        let (src, names) = vo.inv.types_source(&removed);
        let errs = probe::rustc_error_lines(scratch, &format!("{tag}_t{round}"), &format!("#![allow(warnings)]\n{src}"), &[]);
        if errs.is_empty() { return removed; }
        let mut roots = BTreeSet::new();
        for (ln, msg) in &errs {
            // line 1 is the inner attribute
            let name = if *ln >= 2 { names.get(ln - 2).cloned().unwrap_or_default() } else { String::new() };
            if name.is_empty() {
                issues.push(Issue { class: "machinery".into(), variant: vname.into(), comp: String::new(), detail: format!("type definitions do not compile: line {ln}: {msg}"), known: None, header: text.into() });
                return vo.inv.aggs.keys().cloned().collect();
            }
            if roots.insert(name.clone()) {
                *stats.branches.entry("rustc_rejects_type".into()).or_default() += 1;
                issues.push(Issue { class: "oracle".into(), variant: vname.into(), comp: name.clone(),
                    detail: format!("rustc rejects the emitted type outside the modelled regions: {msg}"), known: None, header: text.into() });
            }
        }
        removed = vo.inv.dependents(&removed.union(&roots).cloned().collect());
    }
    removed
}

/// rustc probe over the accepted type definitions: validates the repr(C) resolver (and through the
/// layout comparison the model's `reprC`) against rustc.
fn validate_rustc(scratch: &Scratch, tag: &str, vo: &VariantOut, removed: &BTreeSet<String>, text: &str, vname: &str, stats: &mut Stats, issues: &mut Vec<Issue>) {
    let (src, _) = vo.inv.types_source(removed);
    let resolver = Resolver::new(&vo.inv);
    let mut queries = vec![];
    let mut expect: Vec<(String, u64)> = vec![];
    for (name, agg) in &vo.inv.aggs {
        if !agg.generics.is_empty() || removed.contains(name) { continue; }
        let l = match resolver.agg_layout(name) { Some(l) => l, None => continue };
        queries.push(RQuery::Size(name.clone())); expect.push((format!("size_of {name}"), l.size));
        queries.push(RQuery::Align(name.clone())); expect.push((format!("align_of {name}"), l.align));
        for ((f, off), (_, fs, fa)) in l.offsets.iter().zip(l.fields.iter()) {
            if f == "_unused" { continue; }
            queries.push(RQuery::Offset(name.clone(), f.clone())); expect.push((format!("offset_of {name}.{f}"), *off));
            queries.push(RQuery::FieldTy(name.clone(), f.clone()));
            expect.push((format!("size_of type of {name}.{f}"), *fs));
            expect.push((format!("align_of type of {name}.{f}"), *fa));
        }
    }
    let prefix = if vo.inv.other_items.iter().any(|i| i == "pub mod root {") { "b::root::" } else { "b::" };
    match probe::rustc_probe(scratch, tag, &src, prefix, &queries) {
        Err(e) => issues.push(Issue { class: "machinery".into(), variant: vname.into(), comp: String::new(),
            detail: format!("rustc probe does not compile / run: {}", e.chars().take(1500).collect::<String>()), known: None, header: text.into() }),
        Ok(vals) => {
            stats.rustc_values += vals.len() as u64;
            for ((what, want), got) in expect.iter().zip(vals.iter()) {
                if want != got {
                    issues.push(Issue { class: "spec-vs-rustc".into(), variant: vname.into(), comp: what.clone(),
                        detail: format!("{what}: repr(C) rules say {want}, rustc says {got}"), known: None, header: text.into() });
                }
            }
        }
    }
}

/// the embedded `const _` assertions: accepted type definitions + their assertion items must
/// compile, except the assertions of records the layout comparison already reported
#[allow(clippy::too_many_arguments)]
fn validate_asserts(scratch: &Scratch, tag: &str, vo: &VariantOut, removed: &BTreeSet<String>, text: &str, bad_comps: &BTreeSet<String>, bad_direct: &BTreeSet<String>, stats: &mut Stats, issues: &mut Vec<Issue>) {
    let (mut src, _) = vo.inv.types_source(removed);
    let n_type_lines = src.lines().count();
    let mut line_ty = vec![];
    for (a, t) in vo.inv.assert_items.iter().zip(vo.inv.assert_texts.iter()) {
        let ty = a.first().map(|x| x.ty.clone()).unwrap_or_default();
        if removed.contains(&ty) { continue; }
        src.push_str(t); src.push('\n');
        line_ty.push(ty);
    }
    *stats.branches.entry("assert_items_compiled".into()).or_default() += line_ty.len() as u64;
    let errs = probe::rustc_error_lines(scratch, &format!("{tag}_a"), &format!("#![allow(warnings)]\n{src}"), &[]);
    let mut failing = BTreeSet::new();
    for (ln, msg) in errs {
        let idx = ln as i64 - 2 - n_type_lines as i64;
        if idx < 0 || idx as usize >= line_ty.len() {
            issues.push(Issue { class: "machinery".into(), variant: "base".into(), comp: String::new(), detail: format!("assertion compile: unexpected error at line {ln}: {msg}"), known: None, header: text.into() });
            continue;
        }
        failing.insert(line_ty[idx as usize].clone());
    }
    for t in &failing {
        if !bad_comps.contains(t) {
            issues.push(Issue { class: "asserts-compile".into(), variant: "base".into(), comp: t.clone(),
                detail: format!("layout assertion of {t} fails in rustc although the resolved layout equals libclang's"), known: None, header: text.into() });
        }
    }
    // the converse: a record reported as laid out wrongly must fail its assertion
    for t in bad_direct {
        if line_ty.contains(t) && !failing.contains(t) && vo.ir.comps.iter().any(|c| &c.rust_name == t && c.all_tparams_empty) {
            issues.push(Issue { class: "asserts-compile".into(), variant: "base".into(), comp: t.clone(),
                detail: format!("layout of {t} was computed to differ from libclang's but its assertion compiles"), known: None, header: text.into() });
        }
    }
}

/// libclang's numbers (IR dump) vs clang as a compiler
fn validate_clang(scratch: &Scratch, tag: &str, header: &std::path::Path, vo: &VariantOut, infos: &BTreeMap<String, RecInfo>, text: &str, stats: &mut Stats, issues: &mut Vec<Issue>) {
    let mut exprs = vec![];
    let mut expect: Vec<(String, Option<u64>)> = vec![];
    for c in &vo.ir.comps {
        let info = match infos.get(&c.rust_name) { Some(i) => i, None => continue };
        if c.fwd { continue; }
        exprs.push(format!("sizeof({})", info.c_type)); expect.push((format!("sizeof({})", info.c_type), c.layout.map(|l| l.0)));
        exprs.push(format!("_Alignof({})", info.c_type)); expect.push((format!("_Alignof({})", info.c_type), c.layout.map(|l| l.1)));
        for m in &info.members {
            if let Some(f) = c.fields.iter().find(|f| f.name.as_deref() == Some(m.as_str())) {
                exprs.push(format!("__builtin_offsetof({}, {m})", info.c_type));
                expect.push((format!("offsetof({}, {m})", info.c_type), f.off_bits.map(|o| o / 8)));
            }
        }
    }
    match probe::clang_table(scratch, tag, header, None, false, &exprs) {
        Err(e) => issues.push(Issue { class: "machinery".into(), variant: "base".into(), comp: String::new(), detail: format!("clang table: {e}"), known: None, header: text.into() }),
        Ok(vals) => {
            stats.clang_values += vals.len() as u64;
            for ((what, want), got) in expect.iter().zip(vals.iter()) {
                if let Some(w) = want {
                    if w != got {
                        issues.push(Issue { class: "libclang-vs-clang".into(), variant: "base".into(), comp: what.clone(),
                            detail: format!("{what}: IR (libclang) says {w}, clang computes {got}"), known: None, header: text.into() });
                    }
                }
            }
        }
    }
}

/// every typedef the header declares: `sizeof` / `_Alignof` as clang computes them vs `size_of` /
/// `align_of` of the alias bindgen emits (the property speaks about typedef and array types too)
#[allow(clippy::too_many_arguments)]
fn validate_typedefs(scratch: &Scratch, tag: &str, header: &std::path::Path, prog: &Program, vo: &VariantOut, removed: &BTreeSet<String>, skip: &BTreeSet<String>, text: &str, stats: &mut Stats, issues: &mut Vec<Issue>) {
    let mut names = vec![];
    for d in &prog.decls {
        let Decl::Typedef(n, _) = d else { continue };
        let Some(pos) = vo.inv.other_kinds.iter().position(|(k, nm)| k == "type" && nm == n) else { continue };
        let txt = &vo.inv.other_items[pos];
        // aliases of records whose own layout is already reported / rejected are not judged again
        if txt.split(|c: char| !c.is_alphanumeric() && c != '_').any(|w| skip.contains(w) || removed.contains(w)) { continue; }
        names.push(n.clone());
    }
    if names.is_empty() { return; }
    let exprs: Vec<String> = names.iter().flat_map(|n| [format!("sizeof({n})"), format!("_Alignof({n})")]).collect();
    let cvals = match probe::clang_table(scratch, &format!("{tag}_td"), header, None, false, &exprs) { Ok(v) => v, Err(_) => return };
    let (src, _) = vo.inv.types_source(removed);
    let prefix = if vo.inv.other_items.iter().any(|i| i == "pub mod root {") { "b::root::" } else { "b::" };
    let queries: Vec<RQuery> = names.iter().flat_map(|n| [RQuery::Size(n.clone()), RQuery::Align(n.clone())]).collect();
    let rvals = match probe::rustc_probe(scratch, &format!("{tag}_td"), &src, prefix, &queries) { Ok(v) => v, Err(_) => return };
    stats.clang_values += cvals.len() as u64;
    stats.rustc_values += rvals.len() as u64;
    *stats.branches.entry("typedefs_compared".into()).or_default() += names.len() as u64;
    for (i, n) in names.iter().enumerate() {
        if cvals.get(2 * i) != rvals.get(2 * i) || cvals.get(2 * i + 1) != rvals.get(2 * i + 1) {
            issues.push(Issue { class: "oracle".into(), variant: "base".into(), comp: n.clone(),
                detail: format!("typedef {n}: C sizeof/_Alignof = {:?}/{:?}, Rust size_of/align_of of the emitted alias = {:?}/{:?}", cvals.get(2 * i), cvals.get(2 * i + 1), rvals.get(2 * i), rvals.get(2 * i + 1)),
                known: None, header: text.into() });
        }
    }
}

fn leaf_value(k: usize, l: &cgen::Leaf) -> (String, String) {
    // (C expression, Rust expression of the value as the field's type via `as`)
    match l.class {
        'b' => ("1".into(), "true".into()),
        'f' => { let v = format!("{}.5", k % 1000 + 1); (v.clone(), format!("{v} as _")) }
        'p' => { let v = 0x1000 + 8 * k; (format!("(void *){v}UL"), format!("{v}usize as _")) }
        'e' => { let v = l.enum_values[k % l.enum_values.len()]; (format!("({}){}{}", l.c_type, v, if v > i64::MAX as i128 { "ULL" } else { "LL" }), format!("({v}i128) as _")) }
        _ => {
            let small = l.c_type.contains("char");
            let v = if small { (k % 100 + 1) as i128 } else { (k as i128) * 37 + 11 };
            (format!("({}){v}", l.c_type), format!("({v}i128) as _"))
        }
    }
}

/// Linked value round trip: C fills every leaf with a distinct value, Rust reads through the
/// bindings; Rust fills, C checks.
#[allow(clippy::too_many_arguments)]
fn roundtrip(scratch: &Scratch, tag: &str, header_name: &str, prog: &Program, vo: &VariantOut, skip: &BTreeSet<String>, removed: &BTreeSet<String>, text: &str, stats: &mut Stats, issues: &mut Vec<Issue>) {
    let mut c_src = format!("#include \"{header_name}\"\n");
    let mut r_main = String::new();
    let mut r_ext = String::new();
    let mut n_structs = 0;
    for rec in prog.records() {
        let rn = rec.rust_name();
        if skip.contains(&rn) || !vo.inv.aggs.contains_key(&rn) { continue; }
        // enum style must be a plain integer alias for value access: baseline uses consts
        let mut leaves = vec![];
        let mut budget = 24usize;
        prog.leaves_of_record(rec, "", "", &mut budget, &mut leaves);
        if leaves.is_empty() { continue; }
        n_structs += 1;
        let ct = rec.c_type();
        let mut fill = format!("void fill_{rn}({ct} *p) {{ __builtin_memset(p, 0, sizeof(*p));\n");
        let mut check = format!("int check_{rn}(const {ct} *p) {{\n");
        let _ = writeln!(r_ext, "  fn fill_{rn}(p: *mut b::{rn}); fn check_{rn}(p: *const b::{rn}) -> i32;");
        let _ = writeln!(r_main, "  {{ let p: *mut b::{rn} = heap(); unsafe {{ fill_{rn}(p);");
        let mut wr = String::new();
        for (k, l) in leaves.iter().enumerate() {
            let (cv, rv) = leaf_value(k, l);
            let _ = writeln!(fill, "  p->{} = {cv};", &l.c_path[1..]);
            let _ = writeln!(check, "  if (!(p->{} == {cv})) return {};", &l.c_path[1..], k + 1);
            let cmp = if l.class == 'b' { format!("v == {rv}") } else { format!("v == ({rv})") };
            let _ = writeln!(r_main, "    {{ let v = ::std::ptr::addr_of!((*p){}).read_unaligned(); if !({cmp}) {{ println!(\"MISMATCH {rn} C->Rust leaf {} {}\"); }} }}", l.rust_path, k + 1, l.rust_path);
            let _ = writeln!(wr, "    ::std::ptr::addr_of_mut!((*p){}).write_unaligned({rv});", l.rust_path);
        }
        fill.push_str("}\n"); check.push_str("  return 0;\n}\n");
        c_src.push_str(&fill); c_src.push_str(&check);
        let _ = writeln!(r_main, "    let p: *mut b::{rn} = heap();\n{wr}    let r = check_{rn}(p); if r != 0 {{ println!(\"MISMATCH {rn} Rust->C leaf {{}}\", r); }} }} }}");
        stats.roundtrip_leaves += leaves.len() as u64;
    }
    if n_structs == 0 { return; }
    stats.roundtrip_structs += n_structs;
    let obj = match drive::clang_obj(scratch, &format!("{tag}_rt"), &c_src, &["-O0", "-w", "-I", scratch.0.to_str().unwrap()]) {
        Ok(o) => o,
        Err(e) => { issues.push(Issue { class: "machinery".into(), variant: "base".into(), comp: String::new(), detail: format!("round-trip C side does not compile: {}", e.chars().take(800).collect::<String>()), known: None, header: text.into() }); return; }
    };
    let (bsrc, _) = vo.inv.types_source(removed);
    let heap = "fn heap<T>() -> *mut T { unsafe { let l = ::std::alloc::Layout::new::<T>(); if l.size() == 0 { ::std::ptr::NonNull::<T>::dangling().as_ptr() } else { ::std::alloc::alloc_zeroed(l) as *mut T } } }";
    let src = format!("#![allow(warnings)]\nmod b {{\n{bsrc}\n}}\n{heap}\nextern \"C\" {{\n{r_ext}}}\nfn main() {{\n{r_main}  println!(\"DONE\");\n}}\n");
    match drive::rustc_bin(scratch, &format!("{tag}_rtmain"), &src, &[obj], &["-C", "debuginfo=0"]) {
        Err(e) => issues.push(Issue { class: "roundtrip".into(), variant: "base".into(), comp: String::new(), detail: format!("round-trip Rust side does not compile: {}", e.chars().take(1200).collect::<String>()), known: None, header: text.into() }),
        Ok(exe) => {
            let (rc, out, err) = drive::run_exe(&exe);
            if rc != 0 || !out.contains("DONE") {
                issues.push(Issue { class: "roundtrip".into(), variant: "base".into(), comp: String::new(), detail: format!("round-trip executable failed rc={rc} {err}"), known: None, header: text.into() });
            }
            for l in out.lines().filter(|l| l.starts_with("MISMATCH")) {
                let comp = l.split(' ').nth(1).unwrap_or("").to_string();
                issues.push(Issue { class: "roundtrip".into(), variant: "base".into(), comp, detail: l.to_string(), known: None, header: text.into() });
            }
        }
    }
}

#[allow(clippy::too_many_arguments)]
fn run_header(scratch: &Scratch, tag: &str, text: &str, prog: Option<&Program>, variants: &[usize], do_probes: bool, do_roundtrip: bool, stats: &mut Stats, issues: &mut Vec<Issue>) {
    stats.batches += 1;
    let header_name = format!("{tag}.h");
    let infos = match prog { Some(p) => rec_infos(p), None => rec_infos_from_directives(text) };
    let mut base: Option<VariantOut> = None;
    let before = issues.len();
    for &vi in variants {
        let (vname, flags) = VARIANTS[vi];
        let mut failure = None;
        let vo = run_variant(scratch, &header_name, text, vname, flags, &[], &infos, stats, issues, &mut failure);
        if let Some((err, panic)) = failure {
            // generation failed: if the baseline succeeded, ask the model (on the baseline IR, with this
            // variant's options) whether it predicts the panic
            let mut known = None;
            let mut comp = String::new();
            if let (Some(b), Some(pm)) = (&base, &panic) {
                if pm.contains("subtract with overflow") {
                    let mo = ModelOpts { force_padding: flags.contains(&"--explicit-padding"), ptr_size: 8, u64_align: 8, manually_drop: false };
                    let comps: Vec<&IrComp> = b.ir.comps.iter().filter(|c| c.codegen && !c.nontype_tparams && c.all_tparams_empty).collect();
                    let reqs: Vec<String> = comps.iter().map(|c| irlayout::model_request(&b.ir, c, &mo, infos.get(&c.rust_name).map(|i| i.packed_attr), &[])).collect();
                    let answers = if reqs.is_empty() { vec![] } else { util::model(&reqs) };
                    for (c, a) in comps.iter().zip(answers.iter()) {
                        if a == "emit panic" { known = Some("tail_padding_underflow".to_string()); comp = c.rust_name.clone(); stats.known_hits += 1; break; }
                    }
                }
            }
            issues.push(Issue { class: if panic.is_some() { "oracle".into() } else { "bindgen-failed".into() }, variant: vname.into(), comp,
                detail: format!("bindgen produced no bindings: error={err:?} panic={panic:?}"), known, header: text.to_string() });
        }
        if vi == 0 { base = vo; }
    }
    let base = match base { Some(b) => b, None => return };
    let bad_comps: BTreeSet<String> = issues[before..].iter().filter(|i| i.class == "oracle" && i.variant == "base").map(|i| i.comp.clone()).collect();
    // records whose size / alignment / plain-member offsets differ (what the embedded assertions can see)
    let bad_visible: BTreeSet<String> = issues[before..].iter().filter(|i| i.class == "oracle" && i.variant == "base" && !i.detail.starts_with("[units-only]")).map(|i| i.comp.clone()).collect();
    // … whose members are themselves laid out correctly (otherwise the true Rust layout of the
    // record is not the one computed under the faithful-members assumption)
    let bad_visible: BTreeSet<String> = bad_visible.iter().filter(|t| { let others: BTreeSet<String> = bad_comps.iter().filter(|x| x != t).cloned().collect(); !base.inv.dependents(&others).contains(*t) }).cloned().collect();
    let removed = if do_probes || do_roundtrip { accepted_types(scratch, tag, &base, text, "base", stats, issues) } else { BTreeSet::new() };
    // records whose own layout is wrong, and everything that contains them
    let bad_closure = base.inv.dependents(&bad_comps);
    if do_probes {
        validate_rustc(scratch, tag, &base, &removed, text, "base", stats, issues);
        validate_asserts(scratch, tag, &base, &removed, text, &bad_closure, &bad_visible, stats, issues);
        validate_clang(scratch, tag, &scratch.path(&header_name), &base, &infos, text, stats, issues);
        if let Some(p) = prog { validate_typedefs(scratch, tag, &scratch.path(&header_name), p, &base, &removed, &bad_closure, text, stats, issues); }
    }
    if do_roundtrip {
        if let Some(p) = prog {
            // skipped: wrong layout (already reported), rejected by rustc, unions in wrapper form
            // (members are reached through accessor methods, not fields)
            let wrappers: BTreeSet<String> = base.inv.aggs.iter().filter(|(_, a)| a.fields.iter().any(|f| inventory::type_text(&f.1).contains("__BindgenUnionField<"))).map(|(n, _)| n.clone()).collect();
            let mut skip: BTreeSet<String> = bad_closure.union(&removed).cloned().collect();
            skip = base.inv.dependents(&skip.union(&wrappers).cloned().collect());
            roundtrip(scratch, tag, &header_name, p, &base, &skip, &removed, text, stats, issues);
        }
    }
}

/// keep only the declarations the failing record needs
fn shrink_header(prog: &Program, rust_name: &str) -> Option<String> {
    let rust_name = rust_name.split("__bindgen_ty_").next().unwrap_or(rust_name);
    let idx = prog.decls.iter().position(|d| matches!(d, Decl::Record(r) if r.rust_name() == rust_name))?;
    let full = prog.c_text();
    // textual closure: keep a declaration if its name occurs in an already kept declaration
    let texts: Vec<String> = prog.decls.iter().map(|d| Program { decls: vec![d.clone()] }.c_text()).collect();
    let names: Vec<String> = prog.decls.iter().map(|d| match d { Decl::Record(r) => r.rust_name(), Decl::Enum(e) => e.name.clone(), Decl::Typedef(n, _) => n.clone(), Decl::Forward(t) => t.clone() }).collect();
    let mut keep = vec![false; prog.decls.len()];
    keep[idx] = true;
    loop {
        let mut grew = false;
        for i in 0..prog.decls.len() {
            if keep[i] { continue; }
            let used = (0..prog.decls.len()).any(|j| keep[j] && j > i && texts[j].split(|c: char| !c.is_alphanumeric() && c != '_').any(|w| w == names[i]));
            if used { keep[i] = true; grew = true; }
        }
        if !grew { break; }
    }
    let s: String = (0..prog.decls.len()).filter(|i| keep[*i]).map(|i| texts[i].clone()).collect();
    if s.is_empty() { Some(full) } else { Some(s) }
}

fn fn_level(rng: &mut Rng, n: usize, stats: &mut Stats, issues: &mut Vec<Issue>) {
    let mut reqs = Vec::with_capacity(n);
    let mut real = Vec::with_capacity(n);
    let mut push_a = |s: u64, a: u64, reqs: &mut Vec<String>, real: &mut Vec<String>| {
        reqs.push(format!("lay alignto {s} {a}"));
        real.push(bindgen::verif::align_to(s as usize, a as usize).to_string());
    };
    // exhaustive small grid, then random
    for s in 0..200u64 { for a in 0..70u64 { push_a(s, a, &mut reqs, &mut real); } }
    while reqs.len() < n * 6 / 10 {
        let a = match rng.below(4) { 0 => 1 << rng.below(20), 1 => rng.below(1 << 12), _ => rng.below(300) };
        let s = if rng.chance(1, 2) { rng.below(1 << 16) } else { rng.below(1 << 44) };
        push_a(s, a, &mut reqs, &mut real);
    }
    for p in [0u64, 1, 2, 4, 8, 16] { for s in 0..600u64 {
        reqs.push(format!("lay forsize {p} {s}"));
        let (rs, ra) = bindgen::verif::layout_for_size(p as usize, s as usize);
        real.push(format!("{rs},{ra}"));
    } }
    while reqs.len() < n {
        let p = *rng.pick(&[4u64, 8, 8, 8, 2, 16]);
        let s = if rng.chance(1, 2) { rng.below(1 << 12) } else { rng.below(1 << 40) };
        reqs.push(format!("lay forsize {p} {s}"));
        let (rs, ra) = bindgen::verif::layout_for_size(p as usize, s as usize);
        real.push(format!("{rs},{ra}"));
    }
    let ans = util::model(&reqs);
    stats.fn_level += reqs.len() as u64;
    let mut bad = 0;
    for ((q, r), m) in reqs.iter().zip(real.iter()).zip(ans.iter()) {
        if r != m {
            bad += 1;
            if bad <= 3 {
                issues.push(Issue { class: "correspondence".into(), variant: "fn-level".into(), comp: q.clone(), detail: format!("{q}: bindgen {r} model {m}"), known: None, header: String::new() });
            }
        }
    }
}

fn main() {
    let args = Args::parse();
    drive::quiet_panics();
    let mut rng = Rng::new(args.seed);
    let mut stats = Stats::default();
    let mut issues: Vec<Issue> = vec![];
    let thorough = args.thorough();
    let scratch = Scratch::new("c02");

    // single replay: `--replay FILE` = header text, all variants, all probes
    if let Some(p) = &args.replay {
        let text = std::fs::read_to_string(p).unwrap();
        let all: Vec<usize> = (0..VARIANTS.len()).collect();
        run_header(&scratch, "replay", &text, None, &all, true, false, &mut stats, &mut issues);
        for i in &issues { println!("{} [{}] {} {} known={:?}", i.class, i.variant, i.comp, i.detail, i.known); }
        println!("issues={}", issues.len());
        return;
    }

    fn_level(&mut rng, if thorough { 3_000_000 } else { 300_000 }, &mut stats, &mut issues);

    // corpus first
    let corpus = std::path::Path::new(&std::env::var("VERIF_DIR").unwrap_or_else(|_| "/verif".into())).join("corpus/C02");
    let mut files: Vec<_> = std::fs::read_dir(&corpus).map(|d| d.filter_map(|e| e.ok()).map(|e| e.path()).filter(|p| p.extension().map_or(false, |e| e == "h")).collect()).unwrap_or_default();
    files.sort();
    let all: Vec<usize> = (0..VARIANTS.len()).collect();
    for (i, f) in files.iter().enumerate() {
        let text = std::fs::read_to_string(f).unwrap_or_default();
        run_header(&scratch, &format!("corpus{i}"), &text, None, &all, true, false, &mut stats, &mut issues);
    }

    let (n_batches, per_batch) = if thorough { (300, 45) } else { (12, 25) };
    let mut progs: Vec<Program> = vec![];
    for b in 0..n_batches {
        let mut cfg = GenCfg { n_decls: per_batch, ..Default::default() };
        // strata: plain only / no bit-fields / everything
        match b % 4 {
            0 => { cfg.bitfields = false; cfg.packed = false; cfg.aligned = false; cfg.pragma_pack = false; cfg.int128 = false; cfg.long_double = false; cfg.float128 = false; }
            1 => { cfg.bitfields = false; }
            _ => {}
        }
        let mut r = rng.fork();
        let prog = cgen::generate(&mut r, &cfg);
        let text = prog.c_text();
        let variants: Vec<usize> = if thorough || b % 3 == 0 { all.clone() } else { vec![0, 1, 1 + (b % (VARIANTS.len() - 1))] };
        let do_rt = if thorough { b % 4 == 0 } else { b % 4 == 0 };
        let n0 = issues.len();
        run_header(&scratch, &format!("g{b}"), &text, Some(&prog), &variants, true, do_rt, &mut stats, &mut issues);
        // shrink headers of new issues to the failing record's closure
        for i in issues[n0..].iter_mut() {
            if !i.comp.is_empty() {
                if let Some(s) = shrink_header(&prog, &i.comp) { i.header = s; }
            }
        }
        progs.push(prog);
    }

    // ---- report
    let mut by_class: BTreeMap<String, u64> = BTreeMap::new();
    for i in &issues { *by_class.entry(format!("{}{}", i.class, if i.known.is_some() { ":known" } else { "" })).or_default() += 1; }
    let mut rep = String::from("{\n");
    let _ = writeln!(rep, " \"batches\": {}, \"comps_checked\": {}, \"model_requests\": {}, \"distinct_shapes\": {}, \"distinct_nontrivial\": {},", stats.batches, stats.comps_checked, stats.model_requests, stats.distinct_shapes.len(), stats.nontrivial.len());
    let _ = writeln!(rep, " \"variants_run\": {}, \"rustc_values\": {}, \"clang_values\": {}, \"roundtrip_structs\": {}, \"roundtrip_leaves\": {}, \"fn_level_calls\": {}, \"bindgen_errors\": {}, \"known_hits\": {},",
        stats.variants_run, stats.rustc_values, stats.clang_values, stats.roundtrip_structs, stats.roundtrip_leaves, stats.fn_level, stats.bindgen_errors, stats.known_hits);
    let kinds: Vec<String> = stats.comps_by_kind.iter().map(|(k, v)| format!("{}: {v}", json_str(k))).collect();
    let _ = writeln!(rep, " \"comps_by_kind\": {{{}}},", kinds.join(", "));
    let br: Vec<String> = stats.branches.iter().map(|(k, v)| format!("{}: {v}", json_str(k))).collect();
    let _ = writeln!(rep, " \"model_branches_hit\": {{{}}},", br.join(", "));
    let mut by_region: BTreeMap<String, u64> = BTreeMap::new();
    let mut region_examples: BTreeMap<String, String> = BTreeMap::new();
    for i in &issues { if let Some(k) = &i.known { *by_region.entry(k.clone()).or_default() += 1;
        region_examples.entry(k.clone()).or_insert_with(|| format!("{} [{}] {}", i.comp, i.variant, i.detail.chars().take(700).collect::<String>())); } }
    let kr: Vec<String> = by_region.iter().map(|(k, v)| format!("{}: {v}", json_str(k))).collect();
    let _ = writeln!(rep, " \"known_by_region\": {{{}}},", kr.join(", "));
    let ke: Vec<String> = region_examples.iter().map(|(k, v)| format!("{}: {}", json_str(k), json_str(v))).collect();
    let _ = writeln!(rep, " \"known_region_examples\": {{{}}},", ke.join(", "));
    let bc: Vec<String> = by_class.iter().map(|(k, v)| format!("{}: {v}", json_str(k))).collect();
    let _ = writeln!(rep, " \"issues_by_class\": {{{}}},", bc.join(", "));
    let _ = writeln!(rep, " \"samples\": [{}],", stats.samples.join(", "));
    let mut per_region: BTreeMap<String, u32> = BTreeMap::new();
    let known_sel: Vec<&Issue> = issues.iter().filter(|i| i.known.is_some()).filter(|i| { let n = per_region.entry(i.known.clone().unwrap()).or_default(); *n += 1; *n <= 2 }).collect();
    let iss: Vec<String> = issues.iter().filter(|i| i.known.is_none()).take(300).chain(known_sel.into_iter()).map(|i| format!("{{\"class\":{},\"variant\":{},\"comp\":{},\"detail\":{},\"known\":{},\"header\":{}}}",
        json_str(&i.class), json_str(&i.variant), json_str(&i.comp), json_str(&i.detail.chars().take(2500).collect::<String>()),
        i.known.as_ref().map_or("null".to_string(), |k| json_str(k)), json_str(&i.header.chars().take(6000).collect::<String>()))).collect();
    let _ = writeln!(rep, " \"issues\": [{}]\n}}", iss.join(",\n  "));
    util::write(&args.out.join("report.json"), &rep);
    println!("batches={} comps={} issues={} known={}", stats.batches, stats.comps_checked, issues.len(), stats.known_hits);
}
