//! Type AST shared by the generator, the IR reader and the model requests (same shape as
//! `CType` in lean/BindgenModel/Model/CDecl.lean), the reference C declarator printer used to
//! write the headers, and the Rust mirror of `den` / `defect` of the Lean model.

#[derive(Clone, Debug, PartialEq, Eq, Hash, PartialOrd, Ord)]
pub enum Base {
    Void,
    NullPtr,
    Int(String),
    Float(String),
    Complex(String),
    Named(String),
    Struct(String),
    Union(String),
    Enum(String),
}

#[derive(Clone, Debug, PartialEq, Eq, Hash, PartialOrd, Ord)]
pub enum Ty {
    Base { c: bool, b: Base },
    Ptr { c: bool, t: Box<Ty> },
    /// `c`: the IR's const flag of the array type (ignored by the serializer; = const elements)
    Array { c: bool, t: Box<Ty>, n: u64 },
    Func { c: bool, v: bool, ret: Box<Ty>, ps: Vec<(Option<String>, Ty)> },
    Tref { c: bool, t: Box<Ty> },
    Other,
}

pub fn base(b: Base) -> Ty {
    Ty::Base { c: false, b }
}
pub fn cbase(c: bool, b: Base) -> Ty {
    Ty::Base { c, b }
}
pub fn int(k: &str) -> Ty {
    base(Base::Int(k.to_owned()))
}
pub fn ptr(c: bool, t: Ty) -> Ty {
    Ty::Ptr { c, t: Box::new(t) }
}
pub fn array(t: Ty, n: u64) -> Ty {
    Ty::Array { c: false, t: Box::new(t), n }
}
pub fn func(v: bool, ret: Ty, ps: Vec<(Option<String>, Ty)>) -> Ty {
    Ty::Func { c: false, v, ret: Box::new(ret), ps }
}

/// C spelling the *generator* uses for builtin kinds (independent of bindgen's table).
pub fn c_int_spelling(k: &str) -> &'static str {
    match k {
        "Bool" => "_Bool",
        "SChar" => "signed char",
        "UChar" => "unsigned char",
        "Char" => "char",
        "Short" => "short",
        "UShort" => "unsigned short",
        "Int" => "int",
        "UInt" => "unsigned",
        "Long" => "long",
        "ULong" => "unsigned long",
        "LongLong" => "long long",
        "ULongLong" => "unsigned long long",
        "I128" => "__int128",
        "U128" => "unsigned __int128",
        "WChar" => "wchar_t",
        _ => "int",
    }
}
pub fn c_float_spelling(k: &str) -> &'static str {
    match k {
        "Float" => "float",
        "Double" => "double",
        "LongDouble" => "long double",
        "Float128" => "__float128",
        "Float16" => "_Float16",
        _ => "double",
    }
}

fn base_c(b: &Base) -> String {
    match b {
        Base::Void => "void".into(),
        Base::NullPtr => "nullptr_t".into(),
        Base::Int(k) => c_int_spelling(k).into(),
        Base::Float(k) => c_float_spelling(k).into(),
        Base::Complex(k) => format!("{} _Complex", c_float_spelling(k)),
        Base::Named(s) => s.clone(),
        Base::Struct(s) => format!("struct {s}"),
        Base::Union(s) => format!("union {s}"),
        Base::Enum(s) => format!("enum {s}"),
    }
}

/// Reference printer: the C declaration of `inner` (an identifier, or nothing) with type `t`.
pub fn c_decl(t: &Ty, inner: &str) -> String {
    match t {
        Ty::Base { c, b } => {
            let s = format!("{}{}", if *c { "const " } else { "" }, base_c(b));
            if inner.is_empty() { s } else { format!("{s} {inner}") }
        }
        Ty::Ptr { c, t } => {
            let mut d = format!("*{}{}", if *c { "const " } else { "" }, inner);
            if matches!(strip0(t), Ty::Array { .. } | Ty::Func { .. }) {
                d = format!("({d})");
            }
            c_decl(t, &d)
        }
        Ty::Array { t, n, .. } => c_decl(t, &format!("{inner}[{n}]")),
        Ty::Func { ret, ps, v, .. } => {
            let mut args: Vec<String> = ps.iter().map(|(n, t)| c_decl(t, n.as_deref().unwrap_or(""))).collect();
            if *v {
                args.push("...".into());
            }
            let a = if args.is_empty() { "void".to_owned() } else { args.join(", ") };
            c_decl(ret, &format!("{inner}({a})"))
        }
        Ty::Tref { c, t } => {
            // only used for IR-shaped types in messages
            let s = c_decl(t, inner);
            if *c { format!("/*const-ref*/{s}") } else { s }
        }
        Ty::Other => format!("/*unsupported*/ {inner}"),
    }
}

fn strip0(t: &Ty) -> &Ty {
    match t {
        Ty::Tref { c: false, t } => strip0(t),
        t => t,
    }
}

fn b01(b: bool) -> char {
    if b { '1' } else { '0' }
}

/// Encoding understood by `cdecl` requests of the model driver.
pub fn encode(t: &Ty, out: &mut String) {
    match t {
        Ty::Base { c, b } => {
            out.push('b');
            out.push(b01(*c));
            out.push(':');
            out.push_str(&match b {
                Base::Void => "void".to_owned(),
                Base::NullPtr => "nullptr".to_owned(),
                Base::Int(k) => format!("int:{k}"),
                Base::Float(k) => format!("float:{k}"),
                Base::Complex(k) => format!("complex:{k}"),
                Base::Named(s) => format!("named:{s}"),
                Base::Struct(s) => format!("struct:{s}"),
                Base::Union(s) => format!("union:{s}"),
                Base::Enum(s) => format!("enum:{s}"),
            });
        }
        Ty::Ptr { c, t } => {
            out.push('p');
            out.push(b01(*c));
            out.push(' ');
            encode(t, out);
        }
        Ty::Array { t, n, .. } => {
            out.push_str(&format!("a{n} "));
            encode(t, out);
        }
        Ty::Func { c, v, ret, ps } => {
            out.push('f');
            out.push(b01(*c));
            out.push(b01(*v));
            out.push(' ');
            encode(ret, out);
            out.push_str(" (");
            encode_params(ps, out);
        }
        Ty::Tref { c, t } => {
            out.push('r');
            out.push(b01(*c));
            out.push(' ');
            encode(t, out);
        }
        Ty::Other => out.push('x'),
    }
}

pub fn encode_params(ps: &[(Option<String>, Ty)], out: &mut String) {
    for (n, t) in ps {
        match n {
            Some(n) => out.push_str(&format!(" n:{n} ")),
            None => out.push_str(" u "),
        }
        encode(t, out);
    }
    out.push_str(" )");
}

pub fn enc(t: &Ty) -> String {
    let mut s = String::new();
    encode(t, &mut s);
    s
}

// ---------------------------------------------------------------- den / defect (mirror of the Lean model)

pub fn base_like(t: &Ty) -> bool {
    match t {
        Ty::Base { .. } => true,
        Ty::Tref { t, .. } => base_like(t),
        _ => false,
    }
}

pub fn ptr_base(t: &Ty) -> bool {
    match t {
        Ty::Base { .. } => true,
        Ty::Ptr { t, .. } => ptr_base(t),
        Ty::Tref { c, t } => if *c { base_like(t) } else { ptr_base(t) },
        _ => false,
    }
}

fn add_const(t: Ty) -> Ty {
    match t {
        Ty::Base { b, .. } => Ty::Base { c: true, b },
        t => t,
    }
}

/// The C type a bindgen IR type stands for, as the Lean model defines it (`den`).
pub fn den(t: &Ty) -> Ty {
    match t {
        Ty::Base { .. } => t.clone(),
        Ty::Ptr { c, t } => ptr(*c, den(t)),
        Ty::Array { t, n, .. } => array(den(t), *n),
        Ty::Func { c, v, ret, ps } => Ty::Func { c: *c, v: *v, ret: Box::new(den(ret)), ps: ps.iter().map(|(n, t)| (n.clone(), den(t))).collect() },
        Ty::Tref { c, t } => if *c { add_const(den(t)) } else { den(t) },
        Ty::Other => Ty::Other,
    }
}

/// What a const `ResolvedTypeRef` *should* denote in C: a top-level const on whatever it refers to
/// (the Lean `den` only gives it this meaning for leaves; for pointers the printer is wrong, which is
/// the `constRefPtr` defect).
pub fn true_den(t: &Ty) -> Ty {
    fn top_const(t: Ty) -> Ty {
        match t {
            Ty::Base { b, .. } => Ty::Base { c: true, b },
            Ty::Ptr { t, .. } => Ty::Ptr { c: true, t },
            Ty::Array { t, n, .. } => Ty::Array { c: false, t: Box::new(top_const(*t)), n },
            t => t,
        }
    }
    match t {
        Ty::Base { .. } => t.clone(),
        Ty::Ptr { c, t } => ptr(*c, true_den(t)),
        Ty::Array { c, t, n } => if *c { top_const(array(true_den(t), *n)) } else { array(true_den(t), *n) },
        Ty::Func { c, v, ret, ps } => Ty::Func { c: *c, v: *v, ret: Box::new(true_den(ret)), ps: ps.iter().map(|(n, t)| (n.clone(), true_den(t))).collect() },
        Ty::Tref { c, t } => if *c { top_const(true_den(t)) } else { true_den(t) },
        Ty::Other => Ty::Other,
    }
}

#[derive(Clone, Copy, Debug, PartialEq, Eq, Hash, PartialOrd, Ord)]
pub enum Ctx {
    Empty,
    Direct,
    Ptr,
    AbsArr,
}

impl Ctx {
    fn after_arr(self) -> Ctx {
        match self {
            Ctx::Empty | Ctx::AbsArr => Ctx::AbsArr,
            _ => Ctx::Direct,
        }
    }
}

#[derive(Clone, Copy, Debug, PartialEq, Eq, Hash, PartialOrd, Ord)]
pub enum Defect {
    ArrayUnderPtr,
    ArrayElem,
    FnRet,
    FnNoDeclarator,
    FnConst,
    FnVariadic,
    ConstRefPtr,
    Unsupported,
}

impl Defect {
    pub fn name(self) -> &'static str {
        match self {
            Defect::ArrayUnderPtr => "arrayUnderPtr",
            Defect::ArrayElem => "arrayElem",
            Defect::FnRet => "fnRet",
            Defect::FnNoDeclarator => "fnNoDeclarator",
            Defect::FnConst => "fnConst",
            Defect::FnVariadic => "fnVariadic",
            Defect::ConstRefPtr => "constRefPtr",
            Defect::Unsupported => "unsupported",
        }
    }
}

/// Kinds the serializer has a text for (the generated table is authoritative; this list is only used
/// by the harness' own region predicate and is cross-checked against the model's answer per case).
pub fn base_supported(b: &Base) -> bool {
    match b {
        Base::Int(k) => matches!(k.as_str(), "Bool" | "SChar" | "UChar" | "WChar" | "Char" | "Short" | "UShort" | "Int" | "UInt" | "Long" | "ULong" | "LongLong" | "ULongLong"),
        _ => true,
    }
}

/// Mirror of `defect a ctx t` (Model/CDecl.lean).
pub fn defect(a: bool, ctx: Ctx, t: &Ty) -> Option<Defect> {
    match t {
        Ty::Base { b, .. } => if base_supported(b) { None } else { Some(Defect::Unsupported) },
        Ty::Ptr { t, .. } => defect(a, Ctx::Ptr, t),
        Ty::Array { t, .. } => {
            if a {
                defect(a, ctx.after_arr(), t)
            } else if ctx == Ctx::Ptr {
                Some(Defect::ArrayUnderPtr)
            } else if !ptr_base(t) {
                Some(Defect::ArrayElem)
            } else {
                defect(a, ctx, t)
            }
        }
        Ty::Func { c, v, ret, ps } => {
            if *c {
                Some(Defect::FnConst)
            } else if *v {
                Some(Defect::FnVariadic)
            } else if ctx == Ctx::Empty || ctx == Ctx::AbsArr {
                Some(Defect::FnNoDeclarator)
            } else if !ptr_base(ret) {
                Some(Defect::FnRet)
            } else {
                defect(a, Ctx::Empty, ret).or_else(|| defect_ps(a, ps))
            }
        }
        Ty::Tref { c, t } => if *c && !base_like(t) { Some(Defect::ConstRefPtr) } else { defect(a, ctx, t) },
        Ty::Other => Some(Defect::Unsupported),
    }
}

pub fn defect_ps(a: bool, ps: &[(Option<String>, Ty)]) -> Option<Defect> {
    for (n, t) in ps {
        if let Some(d) = defect(a, if n.is_some() { Ctx::Direct } else { Ctx::Empty }, t) {
            return Some(d);
        }
    }
    None
}

pub fn ret_defect(a: bool, r: &Ty) -> Option<Defect> {
    if !ptr_base(r) { Some(Defect::FnRet) } else { defect(a, Ctx::Empty, r) }
}

/// constructor kinds occurring in a type (for the input distribution)
pub fn kinds(t: &Ty, out: &mut std::collections::BTreeMap<String, u64>) {
    fn hit(out: &mut std::collections::BTreeMap<String, u64>, k: &str) {
        *out.entry(k.to_owned()).or_insert(0) += 1;
    }
    match t {
        Ty::Base { c, b } => {
            if *c {
                hit(out, "const-leaf");
            }
            let k = match b {
                Base::Void => "void".to_owned(),
                Base::NullPtr => "nullptr".to_owned(),
                Base::Int(k) => format!("int:{k}"),
                Base::Float(k) => format!("float:{k}"),
                Base::Complex(k) => format!("complex:{k}"),
                Base::Named(s) if s == "va_list" => "va_list".to_owned(),
                Base::Named(_) => "typedef".to_owned(),
                Base::Struct(_) => "struct".to_owned(),
                Base::Union(_) => "union".to_owned(),
                Base::Enum(_) => "enum".to_owned(),
            };
            hit(out, &k);
        }
        Ty::Ptr { c, t } => {
            hit(out, if *c { "const-pointer" } else { "pointer" });
            kinds(t, out);
        }
        Ty::Array { t, .. } => {
            hit(out, "array");
            kinds(t, out);
        }
        Ty::Func { v, ret, ps, .. } => {
            hit(out, if *v { "function-type-variadic" } else { "function-type" });
            if ps.is_empty() {
                hit(out, "function-type-void-params");
            }
            kinds(ret, out);
            for (n, t) in ps {
                if n.is_none() {
                    hit(out, "unnamed-inner-param");
                }
                kinds(t, out);
            }
        }
        Ty::Tref { c, t } => {
            if *c {
                hit(out, "const-typeref");
            }
            kinds(t, out);
        }
        Ty::Other => hit(out, "other"),
    }
}
