//! Minimal JSON value writer (the harness has no serde).
use bgverif::util::json_str;

#[derive(Clone, Debug)]
pub enum J {
    Null,
    B(bool),
    N(i64),
    S(String),
    A(Vec<J>),
    O(Vec<(String, J)>),
}

impl J {
    pub fn s(x: &str) -> J {
        J::S(x.to_owned())
    }
    pub fn obj(kv: Vec<(&str, J)>) -> J {
        J::O(kv.into_iter().map(|(k, v)| (k.to_owned(), v)).collect())
    }
    pub fn strs<I: IntoIterator<Item = String>>(it: I) -> J {
        J::A(it.into_iter().map(J::S).collect())
    }
    pub fn map(m: &std::collections::BTreeMap<String, u64>) -> J {
        J::O(m.iter().map(|(k, v)| (k.clone(), J::N(*v as i64))).collect())
    }
    pub fn write(&self, out: &mut String) {
        match self {
            J::Null => out.push_str("null"),
            J::B(b) => out.push_str(if *b { "true" } else { "false" }),
            J::N(n) => out.push_str(&n.to_string()),
            J::S(s) => out.push_str(&json_str(s)),
            J::A(v) => {
                out.push('[');
                for (i, x) in v.iter().enumerate() {
                    if i > 0 {
                        out.push(',');
                    }
                    x.write(out);
                }
                out.push(']');
            }
            J::O(v) => {
                out.push('{');
                for (i, (k, x)) in v.iter().enumerate() {
                    if i > 0 {
                        out.push(',');
                    }
                    out.push_str(&json_str(k));
                    out.push(':');
                    x.write(out);
                }
                out.push('}');
            }
        }
    }
    pub fn text(&self) -> String {
        let mut s = String::new();
        self.write(&mut s);
        s
    }
}

pub fn clip(s: &str, n: usize) -> String {
    if s.len() <= n {
        s.to_owned()
    } else {
        let mut e = n;
        while !s.is_char_boundary(e) {
            e -= 1;
        }
        format!("{}…[{} bytes]", &s[..e], s.len())
    }
}
