//! The property's own oracle: clang compile of the emitted wrapper file with the same flags,
//! `nm` for exactly the expected defined symbols, linked C caller vs linked Rust caller.
use crate::ast::*;
use crate::gen::*;
use crate::json::*;
use crate::{FnPrep, Prep};
use bgverif::util::{run, Args};
use std::collections::{BTreeMap, BTreeSet};
use std::path::Path;
use std::process::Command;
use std::sync::atomic::{AtomicI64, Ordering};

pub const ORACLE_FLAGS: &[&str] = &["-Werror=incompatible-pointer-types", "-Werror=int-conversion", "-Werror=implicit-function-declaration", "-ferror-limit=0"];

/// results of the `wrap_as_variadic` cases (harness/src/bin/c16/va.rs; empty unless built with feature `va`)
#[derive(Default)]
pub struct VaResults {
    pub built: bool,
    pub cases: u64,
    pub functions: u64,
    /// wrappers whose emitted text was compared with the model's (all shapes / wrapped as variadic)
    pub compared: u64,
    pub compared_variadic: u64,
    pub distinct: BTreeSet<String>,
    pub disagreements: Vec<J>,
    pub failures: Vec<J>,
    pub machinery: Vec<J>,
    pub known: Vec<(String, J)>,
    pub stats: BTreeMap<String, u64>,
    pub samples: Vec<J>,
    pub distribution: BTreeMap<String, u64>,
}

#[derive(Default)]
pub struct OracleOut {
    pub failures: Vec<J>,
    pub known: Vec<(String, J)>,
    pub machinery: Vec<J>,
    pub stats: BTreeMap<String, u64>,
    pub sample: Option<J>,
    pub detail: Vec<String>,
}

impl OracleOut {
    fn hit(&mut self, k: &str, n: u64) {
        *self.stats.entry(k.to_owned()).or_insert(0) += n;
    }
}

/// findings whose region contains this function (decidable from the IR-level signature, the header set
/// and the names; the defect names come from the Lean model's `defect`, which the harness mirrors)
fn regions(p: &Prep, fp: &FnPrep) -> Vec<&'static str> {
    let f = &p.case.funcs[fp.fi];
    let mut r = vec![];
    let _ = f;
    if !p.contents_headers.is_empty() {
        r.push("header_contents_not_in_wrapper");
    }
    let defects: Vec<&str> = std::iter::once(&fp.ret_status).chain(fp.param_status.iter()).filter_map(|s| s.defect.as_deref()).collect();
    if defects.iter().any(|d| *d == "arrayUnderPtr" || *d == "arrayElem") {
        r.push("decl_ptr_to_array");
    }
    if defects.contains(&"fnRet") {
        r.push("decl_fn_ret_declarator");
    }
    if defects.contains(&"fnVariadic") {
        r.push("decl_variadic_fnptr");
    }
    if defects.contains(&"constRefPtr") {
        r.push("decl_const_ptr_param");
    }
    if (fp.uses_bool && !p.case.stdbool) || (fp.uses_complex && !p.case.complex_h) {
        r.push("decl_spelling_needs_header");
    }
    r
}

fn fn_json(p: &Prep, fp: &FnPrep) -> Vec<(&'static str, J)> {
    let f = &p.case.funcs[fp.fi];
    vec![
        ("case", J::N(p.case.id as i64)),
        ("function", J::S(prototype(f))),
        ("mode", J::S(format!("{:?}{}", p.case.mode, if p.case.cpp { " c++" } else { "" }))),
        ("flags", J::strs(p.flags_desc.iter().map(|s| s.replace(p.dir.to_string_lossy().as_ref(), "$DIR")))),
    ]
}

fn clang(p: &Prep, src: &Path, obj: &Path) -> (i32, String) {
    let mut c = Command::new("clang");
    c.args(&p.clang_args).args(ORACLE_FLAGS).arg("-c").arg(src).arg("-o").arg(obj);
    let (rc, _o, e) = run(&mut c);
    (rc, e)
}

fn error_lines(stderr: &str, file: &Path) -> (BTreeMap<usize, String>, Vec<String>) {
    let fname = file.to_string_lossy();
    let mut by_line = BTreeMap::new();
    let mut other = vec![];
    for l in stderr.lines() {
        let Some(pos) = l.find(": error: ").or_else(|| l.find(": fatal error: ")) else { continue };
        let loc = &l[..pos];
        let mut parts = loc.rsplitn(3, ':');
        let _col = parts.next();
        let line = parts.next().and_then(|x| x.parse::<usize>().ok());
        let path = parts.next().unwrap_or("");
        match line {
            Some(n) if path == fname => {
                by_line.entry(n).or_insert_with(|| l[pos + 2..].to_owned());
            }
            _ => other.push(l.to_owned()),
        }
    }
    (by_line, other)
}

fn errors_only(stderr: &str) -> String {
    let lines: Vec<&str> = stderr.lines().collect();
    let mut out = vec![];
    for (i, l) in lines.iter().enumerate() {
        if l.contains("error") {
            out.extend(lines[i..(i + 3).min(lines.len())].iter().map(|s| s.to_string()));
        }
    }
    if out.is_empty() { stderr.to_owned() } else { out.join("\n") }
}

static CPP_LINK_BUDGET: AtomicI64 = AtomicI64::new(0);

fn oracle_case(p: &Prep, helper_obj: &Path, verbose: bool) -> OracleOut {
    let mut o = OracleOut::default();
    let case = &p.case;
    o.hit("cases", 1);
    // ---- generation outcome
    if !p.gen.ok() {
        if p.model_expects_error && case.expect_serialize_error {
            // a kind the feature does not support (__int128): the whole generation is refused,
            // no binding is emitted, so nothing dangles — outside the property's quantifier
            o.hit("cases_refused_unsupported_kind", 1);
        } else {
            o.failures.push(J::obj(vec![("kind", J::s("generation-failed")), ("case", J::N(case.id as i64)), ("error", J::S(format!("{:?} {:?}", p.gen.error, p.gen.panic))), ("headers", J::strs(case.headers.iter().map(|h| h.1.clone())))]));
        }
        return o;
    }
    // ---- property-level expectations on bindings
    for fp in &p.fns {
        let f = &case.funcs[fp.fi];
        if !f.is_static() {
            continue;
        }
        o.hit("static_functions", 1);
        if f.variadic {
            o.hit("variadic_statics", 1);
            if fp.binding.is_some() {
                let mut j = fn_json(p, fp);
                j.push(("kind", J::s("variadic-static-got-a-binding")));
                o.failures.push(J::obj(j));
            }
            continue;
        }
        let want = format!("{}{}", f.name, p.suffix);
        let ok = fp.binding.as_ref().is_some_and(|(_, l)| l.as_deref() == Some(want.as_str())) && fp.line.is_some();
        if !ok {
            let mut j = fn_json(p, fp);
            j.push(("kind", J::s("static-function-without-wrapper")));
            j.push(("binding", J::S(format!("{:?}", fp.binding))));
            j.push(("wrapper_line", J::S(format!("{:?}", fp.line))));
            j.push(("model", J::S(format!("{:?}", fp.model_binding))));
            let predicted = fp.model_binding.as_ref().map(|(i, l, _)| (i.clone(), l.clone())) == fp.binding && fp.model_binding.as_ref().is_some_and(|b| !b.2);
            if !fp.names_identical && predicted {
                o.known.push(("static_binding_without_wrapper".into(), J::obj(j)));
            } else {
                o.failures.push(J::obj(j));
            }
        }
    }
    if case.cpp {
        // nothing is wrapped in C++ mode (every static has an Itanium-mangled name); show once that the binding dangles
        if p.wrapper_text.is_none() && CPP_LINK_BUDGET.fetch_sub(1, Ordering::SeqCst) > 0 {
            if let Some(fp) = p.fns.iter().find(|fp| case.funcs[fp.fi].is_static() && !case.funcs[fp.fi].variadic && fp.binding.is_some() && case.funcs[fp.fi].runnable) {
                let src = rust_caller(case, p.gen.bindings.as_deref().unwrap_or(""), &|fi| p.fns[fi].binding.as_ref().map(|b| b.0.clone()), &|fi| fi == fp.fi);
                let rs = p.dir.join("cpp_caller.rs");
                std::fs::write(&rs, src).unwrap();
                let (rc, _o, e) = run(Command::new("rustc").arg("--edition").arg("2021").arg("--cap-lints").arg("allow").arg("-o").arg(p.dir.join("cpp_caller")).arg(&rs).arg("-C").arg(format!("link-arg={}", helper_obj.display())));
                let undefined = e.contains("undefined") || e.contains("undefined symbol") || e.contains("undefined reference");
                o.hit(if rc != 0 && undefined { "cpp_dangling_binding_link_failure_demonstrated" } else { "cpp_link_attempt_other_outcome" }, 1);
                if verbose {
                    o.detail.push(format!("C++ link attempt rc={rc}: {}", clip(&e, 600)));
                }
            }
        }
        return o;
    }
    let Some(wtext) = &p.wrapper_text else {
        if p.fns.iter().any(|fp| case.funcs[fp.fi].is_static() && !case.funcs[fp.fi].variadic) && p.fns.iter().all(|fp| fp.binding.is_none() || fp.names_identical) {
            o.failures.push(J::obj(vec![("kind", J::s("no-wrapper-file")), ("case", J::N(case.id as i64))]));
        }
        return o;
    };
    // ---- clang compile with the same flags
    let obj = p.dir.join("wrappers_full.o");
    let (rc, err) = clang(p, &p.wrapper_path, &obj);
    let (by_line, other) = error_lines(&err, &p.wrapper_path);
    if verbose {
        o.detail.push(format!("clang rc={rc}\n{}", clip(&err, 3000)));
    }
    if rc != 0 && by_line.is_empty() && !p.contents_headers.is_empty() && p.expected_text == p.wrapper_text {
        // the wrapper file lacks the in-memory header, so already the included header does not compile
        o.known.push(("header_contents_not_in_wrapper".into(), J::obj(vec![("case", J::N(case.id as i64)), ("function", J::s("<whole wrapper file>")), ("clang", J::S(clip(&errors_only(&err), 400)))])));
        return o;
    }
    if rc != 0 && by_line.is_empty() {
        // errors only inside the headers: either the generator wrote invalid C (machinery) or the
        // wrapper file lacks what the header needs
        o.machinery.push(J::obj(vec![("kind", J::s("compile-error-outside-wrapper-lines")), ("case", J::N(case.id as i64)), ("stderr", J::S(clip(&other.join("\n"), 1500)))]));
        return o;
    }
    let line_fn: BTreeMap<usize, usize> = p.fns.iter().enumerate().filter_map(|(k, fp)| fp.line.map(|l| (l, k))).collect();
    let mut failed: BTreeSet<usize> = BTreeSet::new();
    for (line, msg) in &by_line {
        let Some(k) = line_fn.get(line) else {
            o.failures.push(J::obj(vec![("kind", J::s("compile-error-unattributed")), ("case", J::N(case.id as i64)), ("line", J::N(*line as i64)), ("message", J::s(msg)), ("text", J::S(clip(wtext.lines().nth(line - 1).unwrap_or(""), 300)))]));
            continue;
        };
        failed.insert(*k);
        let fp = &p.fns[*k];
        let emitted = wtext.lines().nth(line - 1).unwrap_or("");
        let predicted = fp.model_text.as_deref().map(|t| t.trim_end_matches('\n')) == Some(emitted);
        let regs = regions(p, fp);
        let mut j = fn_json(p, fp);
        j.push(("kind", J::s("wrapper-does-not-compile")));
        j.push(("emitted", J::S(clip(emitted, 400))));
        j.push(("clang", J::s(msg)));
        j.push(("model_predicts_this_text", J::B(predicted)));
        j.push(("regions", J::strs(regs.iter().map(|s| s.to_string()))));
        if !regs.is_empty() && predicted {
            o.known.push((regs[0].to_owned(), J::obj(j)));
        } else {
            o.failures.push(J::obj(j));
        }
    }
    // declarations with a defect that clang nevertheless accepts (region is a superset of the failures)
    for (k, fp) in p.fns.iter().enumerate() {
        if fp.line.is_some() {
            o.hit("wrappers_compiled_by_clang", 1);
            if !failed.contains(&k) && !regions(p, fp).is_empty() {
                o.hit("in_region_but_accepted_by_clang", 1);
            }
        }
    }
    // ---- the wrappers that compile: object file, nm, link, run
    let ok_src = p.dir.join("wrappers_ok.c");
    let bad_lines: BTreeSet<usize> = failed.iter().filter_map(|k| p.fns[*k].line).collect();
    let filtered: String = wtext.lines().enumerate().filter(|(i, _)| !bad_lines.contains(&(i + 1))).map(|(_, l)| format!("{l}\n")).collect();
    std::fs::write(&ok_src, filtered).unwrap();
    let ok_obj = p.dir.join("wrappers_ok.o");
    let (rc2, err2) = clang(p, &ok_src, &ok_obj);
    if rc2 != 0 {
        if p.contents_headers.is_empty() {
            o.failures.push(J::obj(vec![("kind", J::s("wrapper-file-does-not-compile-after-removing-attributed-lines")), ("case", J::N(case.id as i64)), ("stderr", J::S(clip(&err2, 1200)))]));
        } else {
            o.hit("contents_mode_nothing_compiles", 1);
        }
        return o;
    }
    let (nrc, nout, nerr) = run(Command::new("nm").arg("-g").arg("--defined-only").arg(&ok_obj));
    if nrc != 0 {
        o.machinery.push(J::obj(vec![("kind", J::s("nm-failed")), ("stderr", J::S(nerr))]));
        return o;
    }
    let defined: BTreeSet<String> = nout.lines().filter_map(|l| { let v: Vec<&str> = l.split_whitespace().collect(); if v.len() == 3 && v[1] == "T" { Some(v[2].to_owned()) } else { None } }).collect();
    let non_t: Vec<String> = nout.lines().filter(|l| { let v: Vec<&str> = l.split_whitespace().collect(); v.len() == 3 && v[1] != "T" }).map(|l| l.to_owned()).collect();
    let expected: BTreeSet<String> = p.fns.iter().enumerate().filter(|(k, fp)| fp.line.is_some() && !failed.contains(k)).map(|(_, fp)| format!("{}{}", case.funcs[fp.fi].name, p.suffix)).collect();
    o.hit("nm_symbols_checked", expected.len() as u64);
    if defined != expected || !non_t.is_empty() {
        o.failures.push(J::obj(vec![("kind", J::s("nm-symbols")), ("case", J::N(case.id as i64)), ("expected", J::strs(expected.iter().cloned())), ("defined", J::strs(defined.iter().cloned())), ("other_defined", J::strs(non_t))]));
    }
    // ---- linked executables
    let callable_fn = |fi: usize| -> bool {
        let Some((k, fp)) = p.fns.iter().enumerate().find(|(_, fp)| fp.fi == fi) else { return false };
        let f = &case.funcs[fi];
        callable(f, fp.line.is_some() && !failed.contains(&k)) && fp.binding.as_ref().is_some_and(|(_, l)| l.as_deref() == Some(format!("{}{}", f.name, p.suffix).as_str()))
    };
    let n_callable = (0..case.funcs.len()).filter(|fi| callable_fn(*fi)).count();
    if n_callable == 0 {
        return o;
    }
    // the direct caller sees every input header: files by #include, in-memory headers as their text
    let includes: String = case.headers.iter().enumerate().map(|(i, (n, t))| if p.contents_headers.contains(&i) { format!("{t}\n") } else { format!("#include \"{}\"\n", p.dir.join(n).display()) }).collect();
    let csrc = p.dir.join("c_caller.c");
    std::fs::write(&csrc, c_caller(case, &includes, &callable_fn)).unwrap();
    let cexe = p.dir.join("c_caller");
    let (crc, _co, cerr) = run(Command::new("clang").args(&p.clang_args).arg("-Werror=incompatible-pointer-types").arg("-Werror=int-conversion").arg(&csrc).arg(helper_obj).arg("-o").arg(&cexe));
    if crc != 0 {
        o.machinery.push(J::obj(vec![("kind", J::s("c-caller-does-not-compile")), ("case", J::N(case.id as i64)), ("stderr", J::S(clip(&errors_only(&cerr), 1500)))]));
        return o;
    }
    let rsrc = p.dir.join("rust_caller.rs");
    std::fs::write(&rsrc, rust_caller(case, p.gen.bindings.as_deref().unwrap_or(""), &|fi| p.fns.iter().find(|fp| fp.fi == fi).and_then(|fp| fp.binding.as_ref().map(|b| b.0.clone())), &callable_fn)).unwrap();
    let rexe = p.dir.join("rust_caller");
    let (rrc, _ro, rerr) = run(Command::new("rustc").arg("--edition").arg("2021").arg("--cap-lints").arg("allow").arg("-C").arg("debuginfo=0").arg("-o").arg(&rexe).arg(&rsrc)
        .arg("-C").arg(format!("link-arg={}", ok_obj.display())).arg("-C").arg(format!("link-arg={}", helper_obj.display())));
    if rrc != 0 {
        o.failures.push(J::obj(vec![("kind", J::s("rust-caller-does-not-build")), ("case", J::N(case.id as i64)), ("stderr", J::S(clip(&rerr, 2500)))]));
        return o;
    }
    let (c_rc, c_out, _) = run(&mut Command::new(&cexe));
    let (r_rc, r_out, r_err) = run(&mut Command::new(&rexe));
    o.hit("cases_linked_and_run", 1);
    o.hit("functions_called_from_both_sides", n_callable as u64);
    if c_rc != 0 {
        o.machinery.push(J::obj(vec![("kind", J::s("c-caller-crashed")), ("case", J::N(case.id as i64)), ("rc", J::N(c_rc as i64))]));
        return o;
    }
    if r_rc != 0 || c_out != r_out {
        let first = c_out.lines().zip(r_out.lines()).find(|(a, b)| a != b);
        let fi = first.and_then(|(a, _)| a.split(' ').next().and_then(|t| t[1..].parse::<usize>().ok()));
        o.failures.push(J::obj(vec![
            ("kind", J::s("run-mismatch")), ("case", J::N(case.id as i64)), ("rust_rc", J::N(r_rc as i64)),
            ("direct_call", J::S(first.map(|x| x.0.to_owned()).unwrap_or_else(|| clip(&c_out, 300)))),
            ("through_binding", J::S(first.map(|x| x.1.to_owned()).unwrap_or_else(|| clip(&format!("{r_out}{r_err}"), 300)))),
            ("function", J::S(fi.map(|k| prototype(&case.funcs[k])).unwrap_or_default())),
        ]));
    } else {
        o.hit("result_lines_equal", c_out.lines().count() as u64);
        if o.sample.is_none() {
            if let Some(l) = c_out.lines().next() {
                let fi: usize = l.split(' ').next().and_then(|t| t[1..].parse().ok()).unwrap_or(0);
                let fp = p.fns.iter().find(|fp| fp.fi == fi);
                o.sample = Some(J::obj(vec![
                    ("case", J::N(case.id as i64)),
                    ("header_function", J::S(prototype(&case.funcs[fi]))),
                    ("emitted_wrapper", J::S(fp.and_then(|fp| fp.line).and_then(|n| wtext.lines().nth(n - 1)).unwrap_or("").to_owned())),
                    ("model_wrapper", J::S(fp.and_then(|fp| fp.model_text.clone()).unwrap_or_default().trim_end().to_owned())),
                    ("direct_call", J::s(l)),
                    ("through_binding", J::S(r_out.lines().next().unwrap_or("").to_owned())),
                ]));
            }
        }
    }
    o
}

pub fn run_all(preps: &[Prep], cpp_link_budget: i64, verbose: bool) -> Vec<OracleOut> {
    CPP_LINK_BUDGET.store(cpp_link_budget, Ordering::SeqCst);
    let Some(first) = preps.first() else { return vec![] };
    let root = first.dir.parent().unwrap().to_path_buf();
    let hsrc = root.join("c16_helper.c");
    std::fs::write(&hsrc, HELPER_C).unwrap();
    let hobj = root.join("c16_helper.o");
    let (rc, _o, e) = run(Command::new("clang").arg("-c").arg(&hsrc).arg("-o").arg(&hobj));
    assert!(rc == 0, "helper does not compile: {e}");
    let n = std::thread::available_parallelism().map(|n| n.get()).unwrap_or(4).min(14);
    let next = std::sync::atomic::AtomicUsize::new(0);
    let slots: Vec<std::sync::Mutex<Option<OracleOut>>> = preps.iter().map(|_| std::sync::Mutex::new(None)).collect();
    std::thread::scope(|s| {
        for _ in 0..n {
            s.spawn(|| loop {
                let i = next.fetch_add(1, Ordering::SeqCst);
                if i >= preps.len() {
                    break;
                }
                let out = oracle_case(&preps[i], &hobj, verbose);
                *slots[i].lock().unwrap() = Some(out);
            });
        }
    });
    slots.into_iter().map(|m| m.into_inner().unwrap().unwrap_or_default()).collect()
}

pub fn report(args: &Args, a: bool, preps: &[Prep], outs: &[OracleOut], va: &VaResults) -> J {
    let mut kind_hist = BTreeMap::new();
    let mut modes: BTreeMap<String, u64> = BTreeMap::new();
    let mut planted: BTreeMap<String, u64> = BTreeMap::new();
    let mut defects: BTreeMap<String, u64> = BTreeMap::new();
    let mut shape: BTreeMap<String, u64> = BTreeMap::new();
    let mut stats: BTreeMap<String, u64> = BTreeMap::new();
    let mut distinct: BTreeSet<String> = BTreeSet::new();
    let mut compared = 0u64;
    let mut functions = 0u64;
    let mut disagreements = vec![];
    let mut ir_ast = vec![];
    let mut failures = vec![];
    let mut machinery = vec![];
    let mut known: BTreeMap<String, (u64, J)> = BTreeMap::new();
    let mut samples = vec![];
    let mut sizes: BTreeMap<String, u64> = BTreeMap::new();
    for (p, o) in preps.iter().zip(outs) {
        let c = &p.case;
        *modes.entry(format!("{:?}{}", c.mode, if c.cpp { "+c++" } else { "" })).or_insert(0) += 1;
        *modes.entry(format!("suffix:{}", c.suffix.as_deref().unwrap_or("<default>"))).or_insert(0) += 1;
        *modes.entry(format!("formatter:{}", if c.pretty { "prettyplease" } else { "none" })).or_insert(0) += 1;
        *modes.entry(format!("experimental-flag:{}", c.experimental)).or_insert(0) += 1;
        let nstat = c.funcs.iter().filter(|f| f.is_static()).count();
        *sizes.entry(match nstat { 0 => "0", 1..=5 => "1-5", 6..=15 => "6-15", _ => "16-30" }.to_owned()).or_insert(0) += 1;
        for f in &c.funcs {
            functions += 1;
            *shape.entry(format!("linkage:{:?}", f.linkage)).or_insert(0) += 1;
            if f.variadic {
                *shape.entry("variadic-static".into()).or_insert(0) += 1;
            }
            if f.params.is_empty() {
                *shape.entry("no-parameters".into()).or_insert(0) += 1;
            }
            if f.ret_kind == RetKind::Void {
                *shape.entry("void-return".into()).or_insert(0) += 1;
            }
            for q in &f.params {
                if q.name.is_none() {
                    *shape.entry("unnamed-parameter".into()).or_insert(0) += 1;
                }
                kinds(&q.ty, &mut kind_hist);
            }
            kinds(&f.ret, &mut kind_hist);
            for pl in &f.planted {
                *planted.entry(pl.to_string()).or_insert(0) += 1;
            }
        }
        for fp in &p.fns {
            let f = &c.funcs[fp.fi];
            if fp.model_text.is_some() && fp.model_binding.as_ref().is_some_and(|b| b.2) {
                compared += 1;
                if !f.params.is_empty() {
                    let mut key = enc(&f.ret);
                    for q in &f.params {
                        key.push('|');
                        key.push_str(if q.name.is_some() { "n " } else { "u " });
                        key.push_str(&enc(&q.ty));
                    }
                    distinct.insert(key);
                }
            }
            for s in std::iter::once(&fp.ret_status).chain(fp.param_status.iter()) {
                if let Some(d) = &s.defect {
                    *defects.entry(d.clone()).or_insert(0) += 1;
                }
            }
        }
        disagreements.extend(p.disagreements.iter().cloned());
        ir_ast.extend(p.ir_ast_mismatch.iter().cloned());
        failures.extend(o.failures.iter().cloned());
        machinery.extend(o.machinery.iter().cloned());
        for (id, j) in &o.known {
            let e = known.entry(id.clone()).or_insert((0, j.clone()));
            e.0 += 1;
        }
        for (k, v) in &o.stats {
            *stats.entry(k.clone()).or_insert(0) += v;
        }
        if let Some(s) = &o.sample {
            if samples.len() < 3 {
                samples.push(s.clone());
            }
        }
    }
    // the `wrap_as_variadic` cases: same lists, own counters
    compared += va.compared;
    functions += va.functions;
    distinct.extend(va.distinct.iter().cloned());
    disagreements.extend(va.disagreements.iter().cloned());
    failures.extend(va.failures.iter().cloned());
    machinery.extend(va.machinery.iter().cloned());
    for (id, j) in &va.known {
        let e = known.entry(id.clone()).or_insert((0, j.clone()));
        e.0 += 1;
    }
    samples.extend(va.samples.iter().cloned());
    let va_json = J::obj(vec![
        ("built_with_feature_va", J::B(va.built)),
        ("cases", J::N(va.cases as i64)),
        ("functions", J::N(va.functions as i64)),
        ("wrappers_compared_with_model_text", J::N(va.compared as i64)),
        ("variadic_wrappers_compared_with_model_text", J::N(va.compared_variadic as i64)),
        ("distinct_variadic_signatures", J::N(va.distinct.len() as i64)),
        ("model_disagreements", J::N(va.disagreements.len() as i64)),
        ("oracle_failures", J::N(va.failures.len() as i64)),
        ("oracle", J::map(&va.stats)),
        ("input_distribution", J::map(&va.distribution)),
    ]);
    let head = |v: &Vec<J>| J::A(v.iter().take(8).cloned().collect());
    J::obj(vec![
        ("va", va_json),
        ("tier", J::s(&args.tier)),
        ("seed", J::N(args.seed as i64)),
        ("array_arm_in_declarator", J::B(a)),
        ("cases", J::N(preps.len() as i64 + va.cases as i64)),
        ("functions", J::N(functions as i64)),
        ("evaluations", J::N(compared as i64)),
        ("distinct_nontrivial", J::N(distinct.len() as i64)),
        ("samples", J::A(samples)),
        ("kinds", J::map(&kind_hist)),
        ("function_shapes", J::map(&shape)),
        ("modes", J::map(&modes)),
        ("statics_per_case", J::map(&sizes)),
        ("planted", J::map(&planted)),
        ("defects_by_model", J::map(&defects)),
        ("oracle_stats", J::map(&stats)),
        ("model_vs_impl", J::obj(vec![("count", J::N(disagreements.len() as i64)), ("first", head(&disagreements))])),
        ("ir_vs_header", J::obj(vec![("count", J::N(ir_ast.len() as i64)), ("first", head(&ir_ast))])),
        ("oracle_failures", J::obj(vec![("count", J::N(failures.len() as i64)), ("first", head(&failures))])),
        ("machinery", J::obj(vec![("count", J::N(machinery.len() as i64)), ("first", head(&machinery))])),
        ("known", J::O(known.into_iter().map(|(k, (n, j))| (k, J::obj(vec![("count", J::N(n as i64)), ("first", j)]))).collect())),
    ])
}

pub fn print_replay(p: &Prep, o: &OracleOut) {
    println!("== case {} mode {:?} c++={} suffix={:?} flags={:?}", p.case.id, p.case.mode, p.case.cpp, p.case.suffix, p.flags_desc);
    for (n, t) in &p.case.headers {
        println!("-- header {n}\n{t}");
    }
    println!("-- generation: ok={} error={:?} panic={:?}", p.gen.ok(), p.gen.error, p.gen.panic);
    println!("-- emitted wrapper file ({}):\n{}", p.wrapper_path.display(), p.wrapper_text.as_deref().unwrap_or("<none>"));
    println!("-- model's wrapper file:\n{}", p.expected_text.as_deref().unwrap_or("<none>"));
    for d in &p.disagreements {
        println!("-- model-vs-implementation: {}", d.text());
    }
    for d in &p.ir_ast_mismatch {
        println!("-- IR-vs-header: {}", d.text());
    }
    for d in &o.failures {
        println!("-- oracle failure: {}", d.text());
    }
    for (id, d) in &o.known {
        println!("-- known finding {id}: {}", d.text());
    }
    for d in &o.machinery {
        println!("-- machinery: {}", d.text());
    }
    for d in &o.detail {
        println!("-- {d}");
    }
    println!("-- stats {:?}", o.stats);
}
