//! The `wrap_as_variadic` path of the static-function wrappers (`ParseCallbacks::wrap_as_variadic_fn`,
//! bindgen's `experimental` feature; harness feature `va`).
//!
//! Per case: one generated header with static functions that take ONE `va_list` at the first /
//! a middle / the last position among 1..5 other parameters (integers of every width, `float`,
//! `double`, pointers incl. `void *`), void and non-void returns, plus the shapes that must NOT be
//! wrapped as variadic (two `va_list`s, a sole `va_list`, `va_list *`, callback declines, variadic
//! static, extern) → real bindgen through the library API with a callback → emitted wrapper file and
//! bindings vs the Lean model (`cdecl vacodegen` / `cdecl vawrap`: decision, Rust signature, text) →
//! the property's own oracle: clang compile with the same flags, `nm`, and a Rust program calling
//! the variadic bindings vs a C reference front end calling the static functions directly.  Every
//! function body folds each parameter — the values pulled from the `va_list` with `va_arg` at the
//! `va_list`'s own position, and the values / pointees of the parameters after it — into an
//! order-sensitive checksum, so any permutation of the forwarded arguments changes the result.
use crate::ast::*;
use crate::ir;
use crate::json::*;
use crate::oracle::{VaResults, ORACLE_FLAGS};
use bgverif::drive::GenOut;
use bgverif::rng::Rng;
use bgverif::util::{self, run};
use std::collections::{BTreeMap, BTreeSet};
use std::path::{Path, PathBuf};
use std::process::Command;

/// ids of the variadic cases (`--case N` replays one of them)
pub const VA_CASE_BASE: usize = 100_000;

const INT_KINDS: &[&str] = &["SChar", "UChar", "Char", "Short", "UShort", "Int", "UInt", "Long", "ULong", "LongLong", "ULongLong"];
const NAMES: &[&str] = &["a", "b", "n", "len", "x", "p", "buf", "dst", "src", "flags", "count", "out", "fmt", "lvl"];
const VA_NAMES: &[&str] = &["args", "va", "vl", "v", "list", "rest"];

/// a parameter that is not the `va_list`
#[derive(Clone, Debug, PartialEq)]
pub enum PK {
    Int(&'static str),
    F32,
    F64,
    /// pointer to an integer kind; const pointee?
    PInt(&'static str, bool),
    PF64(bool),
    PVoid(bool),
}

/// a value pulled from the `va_list`
#[derive(Clone, Copy, Debug, PartialEq)]
pub enum VaVal {
    I,
    D,
    L,
    /// `int *`: read, then incremented
    P,
}

#[derive(Clone, Debug, PartialEq)]
pub enum PKind {
    Plain(PK),
    /// `va_list` spelled as `va_list` / `my_va` / `__builtin_va_list`
    Va(&'static str),
    /// `va_list *`
    PtrToVa,
}

#[derive(Clone, Debug)]
pub struct VParam {
    pub name: Option<String>,
    pub kind: PKind,
}

#[derive(Clone, Debug, PartialEq)]
pub enum VRet {
    Void,
    Int(&'static str),
    F64,
}

#[derive(Clone, Copy, Debug, PartialEq, Eq, PartialOrd, Ord)]
pub enum Shape {
    /// exactly one `va_list`, callback answers: wrapped as variadic
    One,
    /// two `va_list`s: plain wrapper
    Two,
    /// the `va_list` is the only parameter: plain wrapper (the fast path of `wrap_as_variadic_fn`)
    Sole,
    /// `va_list *` next to an int: not a `va_list`
    PtrToVa,
    /// one `va_list` but the callback answers `None`
    Declined,
    /// `static int f(int n, ...)`: no binding
    VariadicStatic,
    /// external linkage: never wrapped
    Extern,
}

#[derive(Clone, Debug)]
pub struct VFunc {
    pub name: String,
    pub shape: Shape,
    pub inline_kw: bool,
    pub ret: VRet,
    pub params: Vec<VParam>,
    /// kinds of the values the body pulls from its (first) `va_list`
    pub vals: Vec<VaVal>,
}

#[derive(Clone, Debug)]
pub struct VCase {
    pub id: usize,
    pub header_name: String,
    pub header: String,
    pub funcs: Vec<VFunc>,
    pub stdarg: bool,
    pub suffix: Option<String>,
    /// appended to the function name by the callback
    pub rename: &'static str,
}

// ---------------------------------------------------------------- types and spellings

fn pk_ty(k: &PK) -> Ty {
    match k {
        PK::Int(i) => int(i),
        PK::F32 => base(Base::Float("Float".into())),
        PK::F64 => base(Base::Float("Double".into())),
        PK::PInt(i, c) => ptr(false, cbase(*c, Base::Int((*i).into()))),
        PK::PF64(c) => ptr(false, cbase(*c, Base::Float("Double".into()))),
        PK::PVoid(c) => ptr(false, cbase(*c, Base::Void)),
    }
}

fn param_ty(p: &VParam) -> Ty {
    match &p.kind {
        PKind::Plain(k) => pk_ty(k),
        PKind::Va(s) => base(Base::Named((*s).into())),
        PKind::PtrToVa => ptr(false, base(Base::Named("va_list".into()))),
    }
}

fn ret_ty(r: &VRet) -> Ty {
    match r {
        VRet::Void => base(Base::Void),
        VRet::Int(k) => int(k),
        VRet::F64 => base(Base::Float("Double".into())),
    }
}

pub fn prototype(f: &VFunc) -> String {
    let mut args: Vec<String> = f.params.iter().map(|p| c_decl(&param_ty(p), p.name.as_deref().unwrap_or(""))).collect();
    if f.shape == Shape::VariadicStatic {
        args.push("...".into());
    }
    let a = if args.is_empty() { "void".to_owned() } else { args.join(", ") };
    c_decl(&ret_ty(&f.ret), &format!("{}({a})", f.name))
}

fn rust_int(k: &str) -> &'static str {
    match k {
        "SChar" => "c_schar",
        "UChar" => "c_uchar",
        "Char" => "c_char",
        "Short" => "c_short",
        "UShort" => "c_ushort",
        "Int" => "c_int",
        "UInt" => "c_uint",
        "Long" => "c_long",
        "ULong" => "c_ulong",
        "LongLong" => "c_longlong",
        _ => "c_ulonglong",
    }
}

/// the type `va_arg` must name for a by-value parameter (default argument promotions)
fn promoted(k: &PK) -> String {
    match k {
        PK::Int("SChar" | "UChar" | "Char" | "Short" | "UShort" | "Int") => "int".into(),
        PK::F32 | PK::F64 => "double".into(),
        k => c_decl(&pk_ty(k), ""),
    }
}

fn is_promoted(k: &PK) -> bool {
    matches!(k, PK::Int("SChar" | "UChar" | "Char" | "Short" | "UShort") | PK::F32)
}

// ---------------------------------------------------------------- generator

fn body(f: &VFunc, stdarg: bool) -> String {
    let va_arg = if stdarg { "va_arg" } else { "__builtin_va_arg" };
    let mut s = String::from("    unsigned long long h_ = 1469598103934665603ULL;\n");
    let mut va_seen = false;
    for p in &f.params {
        let Some(n) = &p.name else { continue };
        match &p.kind {
            PKind::Plain(PK::Int(_)) => s.push_str(&format!("    h_ = C16V_MIX(h_, (long long)({n}));\n")),
            PKind::Plain(PK::F32 | PK::F64) => s.push_str(&format!("    h_ = C16V_MIX(h_, (long long)({n} * 4));\n")),
            PKind::Plain(PK::PInt(_, c)) => {
                s.push_str(&format!("    h_ = C16V_MIX(h_, (long long)(*{n}));\n"));
                if !*c {
                    s.push_str(&format!("    *{n} = *{n} + 1;\n"));
                }
            }
            PKind::Plain(PK::PF64(c)) => {
                s.push_str(&format!("    h_ = C16V_MIX(h_, (long long)(*{n} * 4));\n"));
                if !*c {
                    s.push_str(&format!("    *{n} = *{n} + 1;\n"));
                }
            }
            PKind::Plain(PK::PVoid(c)) => {
                s.push_str(&format!("    h_ = C16V_MIX(h_, ((const unsigned char *){n})[0]);\n"));
                if !*c {
                    s.push_str(&format!("    ((unsigned char *){n})[0] += 1;\n"));
                }
            }
            PKind::Va(_) if !va_seen && matches!(f.shape, Shape::One | Shape::Declined) => {
                va_seen = true;
                for v in &f.vals {
                    match v {
                        VaVal::I => s.push_str(&format!("    h_ = C16V_MIX(h_, (long long){va_arg}({n}, int));\n")),
                        VaVal::D => s.push_str(&format!("    h_ = C16V_MIX(h_, (long long)({va_arg}({n}, double) * 4));\n")),
                        VaVal::L => s.push_str(&format!("    h_ = C16V_MIX(h_, {va_arg}({n}, long long));\n")),
                        VaVal::P => s.push_str(&format!("    {{ int *q_ = {va_arg}({n}, int *); h_ = C16V_MIX(h_, (long long)(*q_)); *q_ = *q_ + 1; }}\n")),
                    }
                }
            }
            _ => s.push_str(&format!("    (void){n};\n")),
        }
    }
    s.push_str("    c16v_sink = h_;\n");
    match &f.ret {
        VRet::Void => {}
        VRet::Int(k) => s.push_str(&format!("    return ({})(h_ % 251);\n", c_int_spelling(k))),
        VRet::F64 => s.push_str("    return (double)(h_ % 251) + 0.5;\n"),
    }
    s
}

fn render_header(funcs: &[VFunc], stdarg: bool) -> String {
    let mut s = String::new();
    if stdarg {
        s.push_str("#include <stdarg.h>\ntypedef va_list my_va;\n");
    }
    s.push_str("extern unsigned long long c16v_sink;\n#define C16V_MIX(h, v) (((h) ^ (unsigned long long)(v)) * 1099511628211ULL)\n");
    for f in funcs {
        let proto = prototype(f);
        match f.shape {
            Shape::Extern => s.push_str(&format!("{proto};\n")),
            _ => s.push_str(&format!("static {}{proto} {{\n{}}}\n", if f.inline_kw { "inline " } else { "" }, body(f, stdarg))),
        }
    }
    s
}

fn plain(name: &str, k: PK) -> VParam {
    VParam { name: Some(name.to_owned()), kind: PKind::Plain(k) }
}
fn va(name: &str, spelling: &'static str) -> VParam {
    VParam { name: Some(name.to_owned()), kind: PKind::Va(spelling) }
}

fn mk_case(id: usize, funcs: Vec<VFunc>, stdarg: bool, suffix: Option<String>, rename: &'static str) -> VCase {
    let header = render_header(&funcs, stdarg);
    VCase { id, header_name: format!("c16v_{}.h", id - VA_CASE_BASE), header, funcs, stdarg, suffix, rename }
}

/// Variadic case 0 of every run: one function per shape / position, the witness of
/// `C16_va_push_misorders` (trailing `void *`, which C accepts silently in either order) first, and
/// the witnesses of the name-clash finding.
pub fn witness_case(id: usize) -> VCase {
    use VaVal::*;
    let f = |name: &str, shape: Shape, ret: VRet, params: Vec<VParam>, vals: Vec<VaVal>| VFunc { name: name.to_owned(), shape, inline_kw: true, ret, params, vals };
    let funcs = vec![
        f("vmid", Shape::One, VRet::Int("Int"), vec![plain("a", PK::Int("Int")), va("args", "va_list"), plain("p", PK::PVoid(false))], vec![I, D, P]),
        f("vfirst", Shape::One, VRet::Void, vec![va("vl", "va_list"), plain("x", PK::F64), plain("n", PK::PInt("Long", true))], vec![L, I]),
        f("vlast", Shape::One, VRet::Int("ULongLong"), vec![plain("fmt", PK::PInt("Char", true)), plain("lvl", PK::Int("UShort")), va("rest", "va_list")], vec![I, I, D]),
        f("vmid_int", Shape::One, VRet::F64, vec![plain("a", PK::Int("Short")), va("v", "va_list"), plain("b", PK::Int("ULong")), plain("c", PK::PF64(false))], vec![D]),
        f("valias", Shape::One, VRet::Int("SChar"), vec![va("v", "my_va"), plain("d", PK::PF64(true))], vec![P, L]),
        f("vunnamed", Shape::One, VRet::Int("Int"), vec![VParam { name: None, kind: PKind::Plain(PK::Int("Int")) }, va("v", "va_list"), VParam { name: None, kind: PKind::Plain(PK::Int("Short")) }, plain("z", PK::Int("Long"))], vec![I]),
        f("vclash_ap", Shape::One, VRet::Void, vec![va("args", "va_list"), plain("ap", PK::Int("Int"))], vec![I]),
        f("vclash_ret", Shape::One, VRet::Int("Int"), vec![plain("ret", PK::Int("Int")), va("v", "va_list")], vec![I]),
        f("vret_void_ok", Shape::One, VRet::Void, vec![plain("ret", PK::Int("Int")), va("v", "va_list")], vec![I]),
        f("vtwo", Shape::Two, VRet::Int("Int"), vec![plain("a", PK::Int("Int")), va("x", "va_list"), va("y", "va_list")], vec![]),
        f("vsole", Shape::Sole, VRet::Int("Int"), vec![va("v", "va_list")], vec![]),
        f("vptr", Shape::PtrToVa, VRet::Int("Int"), vec![plain("a", PK::Int("Int")), VParam { name: Some("pv".into()), kind: PKind::PtrToVa }], vec![]),
        f("vnocb_plain", Shape::Declined, VRet::Int("Int"), vec![plain("n", PK::Int("Int")), va("v", "va_list")], vec![I]),
        f("vvariadic", Shape::VariadicStatic, VRet::Int("Int"), vec![plain("n", PK::Int("Int"))], vec![]),
        f("vextern", Shape::Extern, VRet::Int("Int"), vec![plain("n", PK::Int("Int")), va("v", "va_list")], vec![]),
    ];
    mk_case(id, funcs, true, None, "_v")
}

/// Variadic case 1: the header spells the parameter `__builtin_va_list` and does not include <stdarg.h>
/// (as bindgen-tests/tests/headers/wrap-static-fns.h does).
pub fn no_stdarg_witness(id: usize) -> VCase {
    let funcs = vec![
        VFunc { name: "vb1".into(), shape: Shape::One, inline_kw: true, ret: VRet::Int("Int"), params: vec![plain("i", PK::Int("Int")), va("va", "__builtin_va_list")], vals: vec![VaVal::I, VaVal::I] },
        VFunc { name: "vb2".into(), shape: Shape::One, inline_kw: true, ret: VRet::Void, params: vec![va("va", "__builtin_va_list"), plain("p", PK::PVoid(true))], vals: vec![VaVal::D] },
    ];
    mk_case(id, funcs, false, None, "_wrapped")
}

fn gen_pk(r: &mut Rng) -> PK {
    match r.below(100) {
        0..=44 => PK::Int(*r.pick(INT_KINDS)),
        45..=49 => PK::F32,
        50..=61 => PK::F64,
        62..=76 => PK::PInt(*r.pick(INT_KINDS), r.chance(1, 3)),
        77..=84 => PK::PF64(r.chance(1, 3)),
        _ => PK::PVoid(r.chance(1, 3)),
    }
}

pub fn gen_case(r: &mut Rng, id: usize) -> VCase {
    match id - VA_CASE_BASE {
        0 => return witness_case(id),
        1 => return no_stdarg_witness(id),
        _ => {}
    }
    let stdarg = !r.chance(1, 12);
    let suffix = match r.below(5) {
        0 => Some("_w".to_owned()),
        1 => Some("__c16v".to_owned()),
        _ => None,
    };
    let rename = *r.pick(&["_v", "_wrapped", "Var"]);
    let nf = r.range(3, 8) as usize;
    let mut funcs = vec![];
    for i in 0..nf {
        let name = format!("v{}_{i}", id - VA_CASE_BASE);
        let shape = match r.below(100) {
            0..=75 => Shape::One,
            76..=80 => Shape::Two,
            81..=84 => Shape::Sole,
            85..=88 if stdarg => Shape::PtrToVa,
            85..=88 => Shape::One,
            89..=93 => Shape::Declined,
            94..=96 => Shape::VariadicStatic,
            _ => Shape::Extern,
        };
        let spelling: &'static str = if !stdarg { "__builtin_va_list" } else if r.chance(1, 8) { "my_va" } else { "va_list" };
        let ret = match r.below(100) {
            0..=24 => VRet::Void,
            25..=79 => VRet::Int(*r.pick(INT_KINDS)),
            _ => VRet::F64,
        };
        let mut params: Vec<VParam> = vec![];
        let mut vals = vec![];
        match shape {
            Shape::One | Shape::Declined | Shape::Extern => {
                let n_other = r.range(1, 5) as usize;
                // first / middle / last, each with the same weight (no middle with one other parameter)
                let pos = match (r.below(3), n_other) {
                    (0, _) => 0,
                    (1, n) if n >= 2 => r.range(1, n as u64 - 1) as usize,
                    (1, _) => if r.chance(1, 2) { 0 } else { n_other },
                    _ => n_other,
                };
                for j in 0..n_other {
                    let k = gen_pk(r);
                    let unnamed = matches!(k, PK::Int(_) | PK::F64) && r.chance(1, 10);
                    params.push(VParam { name: if unnamed { None } else { Some(format!("{}{j}", r.pick(NAMES))) }, kind: PKind::Plain(k) });
                }
                params.insert(pos, va(*r.pick(VA_NAMES), spelling));
                for _ in 0..r.range(1, 4) {
                    vals.push(*r.pick(&[VaVal::I, VaVal::D, VaVal::L, VaVal::P]));
                }
                // a remaining parameter called like a local of the wrapper (known finding `va_wrapper_name_clash`)
                if shape == Shape::One && r.chance(1, 10) {
                    let others: Vec<usize> = (0..params.len()).filter(|k| *k != pos && params[*k].name.is_some()).collect();
                    if !others.is_empty() {
                        let k = *r.pick(&others);
                        params[k].name = Some((*r.pick(&["ap", "ret"])).to_owned());
                    }
                }
            }
            Shape::Two => {
                params.push(plain("a0", gen_pk(r)));
                params.push(va("x", spelling));
                if r.chance(1, 2) {
                    params.push(plain("b2", gen_pk(r)));
                }
                params.push(va("y", spelling));
            }
            Shape::Sole => params.push(va("v", spelling)),
            Shape::PtrToVa => {
                params.push(plain("a0", PK::Int("Int")));
                params.push(VParam { name: Some("pv".into()), kind: PKind::PtrToVa });
            }
            Shape::VariadicStatic => params.push(plain("n", PK::Int("Int"))),
        }
        let name = if shape == Shape::Declined { format!("{name}_nocb") } else { name };
        funcs.push(VFunc { name, shape, inline_kw: r.chance(2, 3), ret, params, vals });
    }
    mk_case(id, funcs, stdarg, suffix, rename)
}

// ---------------------------------------------------------------- running bindgen

#[derive(Debug)]
struct Cb {
    rename: String,
}

impl bindgen::callbacks::ParseCallbacks for Cb {
    fn wrap_as_variadic_fn(&self, name: &str) -> Option<String> {
        callback_answer(name, &self.rename)
    }
}

/// what the callback installed by the harness answers
pub fn callback_answer(name: &str, rename: &str) -> Option<String> {
    if name.contains("nocb") { None } else { Some(format!("{name}{rename}")) }
}

#[derive(Clone, Debug, Default)]
pub struct FSig {
    pub link: Option<String>,
    pub variadic: bool,
    pub args: Vec<String>,
}

/// foreign functions of the bindings: ident → (last `#[link_name]`, `...`, argument names)
fn foreign_sigs(bindings: &str) -> Result<BTreeMap<String, FSig>, String> {
    let file = syn::parse_file(bindings).map_err(|e| format!("bindings do not parse: {e}"))?;
    let mut out = BTreeMap::new();
    for it in &file.items {
        let syn::Item::ForeignMod(fm) = it else { continue };
        for fi in &fm.items {
            let syn::ForeignItem::Fn(f) = fi else { continue };
            let mut sig = FSig { variadic: f.sig.variadic.is_some(), ..Default::default() };
            for a in &f.attrs {
                if a.path().is_ident("link_name") {
                    if let syn::Meta::NameValue(nv) = &a.meta {
                        if let syn::Expr::Lit(syn::ExprLit { lit: syn::Lit::Str(s), .. }) = &nv.value {
                            let v = s.value();
                            sig.link = Some(v.strip_prefix('\u{1}').map(|x| x.to_owned()).unwrap_or(v));
                        }
                    }
                }
            }
            for inp in &f.sig.inputs {
                if let syn::FnArg::Typed(pt) = inp {
                    sig.args.push(match &*pt.pat {
                        syn::Pat::Ident(i) => i.ident.to_string(),
                        _ => "_".into(),
                    });
                }
            }
            out.insert(f.sig.ident.to_string(), sig);
        }
    }
    Ok(out)
}

#[derive(Clone, Debug, Default)]
pub struct VFnPrep {
    pub fi: usize,
    pub in_ir: bool,
    pub ir_id: u64,
    /// model: (ident, link, wrapped, va idx, cvariadic, kept parameter indices); None = no binding
    pub model_binding: Option<(String, Option<String>, bool, Option<usize>, bool, Vec<usize>)>,
    /// model: wrapper text when the model says wrapped
    pub model_text: Option<String>,
    pub model_error: bool,
    pub model_panic: bool,
    pub model_clash: bool,
    /// implementation: the binding found for this function (under the model's identifier, else its own / renamed name)
    pub binding: Option<(String, FSig)>,
    /// emitted text of this function's wrapper (all its lines) and its first line (1-based) in the file
    pub chunk: Option<(usize, usize, String)>,
}

pub struct VPrep {
    pub case: VCase,
    pub dir: PathBuf,
    pub suffix: String,
    pub gen: GenOut,
    pub wrapper_path: PathBuf,
    pub wrapper_text: Option<String>,
    pub expected_text: Option<String>,
    pub fns: Vec<VFnPrep>,
    pub disagreements: Vec<J>,
}

fn run_bindgen(case: &VCase, hpath: &Path, wrap_base: &Path, log: &Path) -> GenOut {
    let _ = std::fs::remove_file(log);
    std::env::set_var("BINDGEN_VERIF_LOG", log);
    let r = std::panic::catch_unwind(std::panic::AssertUnwindSafe(|| {
        let mut b = bindgen::Builder::default()
            .header(hpath.to_string_lossy().into_owned())
            .formatter(bindgen::Formatter::None)
            .wrap_static_fns(true)
            .wrap_static_fns_path(wrap_base)
            .parse_callbacks(Box::new(Cb { rename: case.rename.to_owned() }));
        if let Some(s) = &case.suffix {
            b = b.wrap_static_fns_suffix(s);
        }
        let out = b.generate().map_err(|e| format!("{e:?}"))?;
        Ok::<String, String>(out.to_string())
    }));
    std::env::remove_var("BINDGEN_VERIF_LOG");
    let logt = std::fs::read_to_string(log).ok();
    match r {
        Ok(Ok(s)) => GenOut { bindings: Some(s), error: None, panic: None, log: logt },
        Ok(Err(e)) => GenOut { bindings: None, error: Some(e), panic: None, log: logt },
        Err(p) => GenOut { bindings: None, error: None, panic: Some(p.downcast_ref::<String>().cloned().or_else(|| p.downcast_ref::<&str>().map(|s| s.to_string())).unwrap_or_default()), log: logt },
    }
}

/// the wrappers of the emitted file: (function definition name) → (first line 1-based, number of lines, text)
fn chunks(text: &str, def_names: &[String]) -> BTreeMap<String, (usize, usize, String)> {
    let lines: Vec<&str> = text.lines().collect();
    let mut out = BTreeMap::new();
    let mut i = 0;
    while i < lines.len() {
        let l = lines[i];
        let hit = if l.starts_with("#include") || l.starts_with("//") { None } else { def_names.iter().find(|d| l.contains(&format!(" {d}("))) };
        let Some(d) = hit else {
            i += 1;
            continue;
        };
        let mut j = i;
        if !l.trim_end().ends_with('}') {
            while j + 1 < lines.len() && lines[j] != "}" {
                j += 1;
            }
        }
        let t: String = lines[i..=j].iter().map(|x| format!("{x}\n")).collect();
        out.entry(d.clone()).or_insert((i + 1, j - i + 1, t));
        i = j + 1;
    }
    out
}

fn enc_chain(c: &[(Option<String>, bool)]) -> String {
    c.iter().map(|(n, k)| format!("{}:{}", n.as_deref().filter(|s| !s.is_empty()).unwrap_or("-"), *k as u8)).collect::<Vec<_>>().join(",")
}

pub fn prepare(case: VCase, root: &Path, have_model: bool) -> VPrep {
    let dir = root.join(format!("vcase{}", case.id));
    std::fs::create_dir_all(&dir).unwrap();
    let suffix = case.suffix.clone().unwrap_or_else(|| crate::DEFAULT_SUFFIX.to_owned());
    let hpath = dir.join(&case.header_name);
    std::fs::write(&hpath, &case.header).unwrap();
    let wrap_base = dir.join("va_wrappers");
    let wrapper_path = wrap_base.with_extension("c");
    let log = dir.join("verif.log");
    let gen = run_bindgen(&case, &hpath, &wrap_base, &log);
    let _ = std::fs::remove_file(&log);
    let wrapper_text = std::fs::read_to_string(&wrapper_path).ok();
    let mut p = VPrep { case, dir, suffix, gen, wrapper_path, wrapper_text, expected_text: None, fns: vec![], disagreements: vec![] };
    let cid = J::N(p.case.id as i64);
    let def_names: Vec<String> = p.case.funcs.iter().map(|f| format!("{}{}", f.name, p.suffix)).collect();
    let ch = p.wrapper_text.as_deref().map(|t| chunks(t, &def_names)).unwrap_or_default();
    let sigs = foreign_sigs(p.gen.bindings.as_deref().unwrap_or(""));
    for (fi, f) in p.case.funcs.iter().enumerate() {
        let mut fp = VFnPrep { fi, ..Default::default() };
        fp.chunk = ch.get(&format!("{}{}", f.name, p.suffix)).cloned();
        p.fns.push(fp);
    }
    let own_binding = |f: &VFunc, sigs: &BTreeMap<String, FSig>, rename: &str| -> Option<(String, FSig)> {
        let renamed = callback_answer(&f.name, rename);
        renamed.iter().chain(std::iter::once(&f.name)).find_map(|n| sigs.get(n).map(|s| (n.clone(), s.clone())))
    };
    if !have_model {
        if let Ok(sigs) = &sigs {
            for fp in p.fns.iter_mut() {
                fp.in_ir = true;
                fp.binding = own_binding(&p.case.funcs[fp.fi], sigs, p.case.rename);
            }
        }
        return p;
    }
    let irdump = p.gen.log.as_deref().map(bgverif::irdump::parse_log);
    let Some(irv) = irdump.as_ref().and_then(|l| l.dumps.last()).map(|d| ir::read(d)) else {
        p.disagreements.push(J::obj(vec![("class", J::s("va-no-ir-dump")), ("case", cid), ("implementation", J::S(format!("ok={} error={:?} panic={:?}", p.gen.ok(), p.gen.error, p.gen.panic)))]));
        return p;
    };
    let by_name: BTreeMap<&str, &ir::IrFn> = irv.fns.iter().map(|f| (f.name.as_str(), f)).collect();
    // ---- round 1: the decision of Function::codegen
    let mut reqs = vec![];
    for fp in p.fns.iter_mut() {
        let f = &p.case.funcs[fp.fi];
        let Some(irf) = by_name.get(f.name.as_str()) else { continue };
        fp.in_ir = true;
        fp.ir_id = irf.id;
        let mut bad = vec![];
        if irf.params.len() != f.params.len() {
            bad.push("parameter count".to_owned());
        } else {
            for (k, ((n, t), q)) in irf.params.iter().zip(&f.params).enumerate() {
                if n != &q.name {
                    bad.push(format!("parameter {k} name {n:?} vs {:?}", q.name));
                }
                if true_den(t) != param_ty(q) {
                    bad.push(format!("parameter {k}: IR {} vs header {}", enc(t), enc(&param_ty(q))));
                }
            }
        }
        if true_den(&irf.ret) != ret_ty(&f.ret) {
            bad.push(format!("return type: IR {} vs header {}", enc(&irf.ret), enc(&ret_ty(&f.ret))));
        }
        if irf.internal != (f.shape != Shape::Extern) || irf.variadic != (f.shape == Shape::VariadicStatic) {
            bad.push("linkage / variadic flag".to_owned());
        }
        if !bad.is_empty() {
            p.disagreements.push(J::obj(vec![("class", J::s("va-ir-vs-header")), ("case", cid.clone()), ("function", J::S(prototype(f))), ("differences", J::strs(bad))]));
        }
        let chains: Vec<String> = irf.param_ids.iter().map(|id| enc_chain(&irv.va_chain(*id))).collect();
        reqs.push(format!(
            "cdecl vacodegen wrap=1 suffix={} name={} canon={} mangled={} link={} internal={} variadic={} cb={} chains={}",
            p.suffix, f.name, f.name, irf.mangled.as_deref().unwrap_or("-"), irf.link.as_deref().unwrap_or("-"), irf.internal as u8, irf.variadic as u8,
            callback_answer(&f.name, p.case.rename).as_deref().unwrap_or("-"), if chains.is_empty() { "-".to_owned() } else { chains.join(";") }
        ));
    }
    let answers = if reqs.is_empty() { vec![] } else { util::model(&reqs) };
    let mut ai = 0;
    let mut reqs2 = vec![];
    let tds = "va_list,my_va,__builtin_va_list";
    for fp in p.fns.iter_mut().filter(|fp| fp.in_ir) {
        let f = &p.case.funcs[fp.fi];
        let irf = by_name[f.name.as_str()];
        let cg = answers.get(ai).cloned().unwrap_or_default();
        ai += 1;
        if cg == "none" {
            continue;
        }
        let kv: BTreeMap<&str, &str> = cg.split(' ').filter_map(|t| t.split_once('=')).collect();
        if !kv.contains_key("ident") {
            p.disagreements.push(J::obj(vec![("class", J::s("va-model-bad-answer")), ("case", cid.clone()), ("answer", J::S(clip(&cg, 200)))]));
            continue;
        }
        let opt = |k: &str| kv.get(k).filter(|l| **l != "-").map(|l| l.to_string());
        let va_idx = opt("va").and_then(|v| v.parse::<usize>().ok());
        let args: Vec<usize> = opt("args").map(|a| a.split(',').filter_map(|x| x.parse().ok()).collect()).unwrap_or_default();
        let wrapped = kv.get("wrapped") == Some(&"1");
        fp.model_binding = Some((kv["ident"].to_string(), opt("link"), wrapped, va_idx, kv.get("cvariadic") == Some(&"1"), args));
        if wrapped {
            let mut w = format!("cdecl vawrap a=gen pl=gen tds={tds} suffix={} name={} idx={} ret {} params (", p.suffix, f.name, va_idx.map(|i| i.to_string()).unwrap_or_else(|| "-".into()), enc(&irf.ret));
            encode_params(&irf.params, &mut w);
            reqs2.push((fp.fi, w));
        }
    }
    // ---- round 2: the text of Function::serialize with the model's own decision
    let answers2 = if reqs2.is_empty() { vec![] } else { util::model(&reqs2.iter().map(|x| x.1.clone()).collect::<Vec<_>>()) };
    for ((fi, _), ans) in reqs2.iter().zip(answers2.iter().chain(std::iter::repeat(&String::new()))) {
        let fp = p.fns.iter_mut().find(|fp| fp.fi == *fi).unwrap();
        if ans == "error" {
            fp.model_error = true;
        } else if ans == "panic" {
            fp.model_panic = true;
        } else if let Some(rest) = ans.strip_prefix("ok clash=") {
            let (c, text) = rest.split_once(" text=").unwrap_or((rest, ""));
            fp.model_clash = c == "1";
            fp.model_text = Some(text.replace("\\n", "\n"));
        } else {
            p.disagreements.push(J::obj(vec![("class", J::s("va-model-bad-answer")), ("case", cid.clone()), ("answer", J::S(clip(ans, 200)))]));
        }
    }
    // the harness' own region predicate must agree with the Lean one
    for fp in &p.fns {
        let f = &p.case.funcs[fp.fi];
        if let Some((_, _, true, Some(idx), _, _)) = &fp.model_binding {
            if fp.model_text.is_some() && name_clash(f, *idx) != fp.model_clash {
                p.disagreements.push(J::obj(vec![("class", J::s("va-region-predicate")), ("case", cid.clone()), ("function", J::S(prototype(f))), ("harness", J::B(name_clash(f, *idx))), ("lean", J::B(fp.model_clash))]));
            }
        }
    }
    // ---- expected wrapper file vs emitted
    let mut order: Vec<(u64, usize)> = p.fns.iter().enumerate().filter(|(_, fp)| fp.model_binding.as_ref().is_some_and(|b| b.2)).map(|(k, fp)| (fp.ir_id, k)).collect();
    order.sort();
    let expects_error = order.iter().any(|(_, k)| p.fns[*k].model_error);
    let expects_panic = order.iter().any(|(_, k)| p.fns[*k].model_panic);
    if expects_error || expects_panic {
        let matches = if expects_error && !expects_panic { p.gen.error.as_deref().is_some_and(|e| e.contains("Serialize") || e.contains("Codegen")) } else { p.gen.panic.is_some() || p.gen.error.is_some() };
        if !matches {
            p.disagreements.push(J::obj(vec![("class", J::s("va-serialize-outcome")), ("case", cid.clone()), ("model", J::s(if expects_panic { "panic" } else { "CodegenError::Serialize" })), ("implementation", J::S(format!("ok={} error={:?} panic={:?}", p.gen.ok(), p.gen.error, p.gen.panic)))]));
        }
        return p;
    }
    if !p.gen.ok() {
        p.disagreements.push(J::obj(vec![("class", J::s("va-generation-failed")), ("case", cid.clone()), ("model", J::s("bindings")), ("implementation", J::S(format!("error={:?} panic={:?}", p.gen.error, p.gen.panic)))]));
        return p;
    }
    if !order.is_empty() {
        let mut t = format!("#include \"{}\"\n\n// Static wrappers\n\n", hpath.display());
        for (_, k) in &order {
            t.push_str(p.fns[*k].model_text.as_deref().unwrap_or(""));
        }
        p.expected_text = Some(t);
    }
    if p.expected_text != p.wrapper_text {
        let (e, w) = (p.expected_text.clone().unwrap_or_default(), p.wrapper_text.clone().unwrap_or_default());
        let first = e.lines().zip(w.lines()).position(|(x, y)| x != y).unwrap_or_else(|| e.lines().count().min(w.lines().count()));
        // which function does the first differing line belong to
        let func = p.fns.iter().find(|fp| fp.chunk.as_ref().is_some_and(|(l0, n, _)| first + 1 >= *l0 && first + 1 < *l0 + *n)).map(|fp| prototype(&p.case.funcs[fp.fi]));
        p.disagreements.push(J::obj(vec![
            ("class", J::s("va-wrapper-text")), ("case", cid.clone()),
            ("file_expected", J::B(p.expected_text.is_some())), ("file_present", J::B(p.wrapper_text.is_some())),
            ("line", J::N(first as i64 + 1)),
            ("model", J::S(clip(e.lines().nth(first).unwrap_or("<eof>"), 400))),
            ("implementation", J::S(clip(w.lines().nth(first).unwrap_or("<eof>"), 400))),
            ("function", J::S(func.unwrap_or_default())),
        ]));
    }
    // ---- bindings: identifier, link name, `...`, which parameters remain
    match sigs {
        Err(e) => p.disagreements.push(J::obj(vec![("class", J::s("va-bindings-unparsable")), ("case", cid.clone()), ("detail", J::S(e))])),
        Ok(sigs) => {
            for fp in p.fns.iter_mut().filter(|fp| fp.in_ir) {
                let f = &p.case.funcs[fp.fi];
                let imp = fp.model_binding.as_ref().and_then(|m| sigs.get(&m.0).map(|s| (m.0.clone(), s.clone()))).or_else(|| own_binding(f, &sigs, p.case.rename));
                fp.binding = imp.clone();
                let model = fp.model_binding.as_ref().map(|(i, l, _, _, v, args)| (i.clone(), l.clone(), *v, args.len()));
                let impv = imp.as_ref().map(|(i, s)| (i.clone(), s.link.clone(), s.variadic, s.args.len()));
                let mut differs = model != impv;
                // named parameters keep their names in the Rust signature, in the order of the kept indices
                if let (Some(m), Some((_, s))) = (&fp.model_binding, &imp) {
                    for (pos, k) in m.5.iter().enumerate() {
                        if let (Some(n), Some(got)) = (f.params.get(*k).and_then(|q| q.name.as_ref()), s.args.get(pos)) {
                            if n != got {
                                differs = true;
                            }
                        }
                    }
                }
                if differs {
                    p.disagreements.push(J::obj(vec![("class", J::s("va-binding-decision")), ("case", cid.clone()), ("function", J::S(prototype(f))), ("model", J::S(format!("{:?}", fp.model_binding))), ("implementation", J::S(format!("{imp:?}")))]));
                }
            }
        }
    }
    p
}

// ---------------------------------------------------------------- regions of the known findings (mirror of the Lean model)

/// mirror of `vaNameClash` (Model/CDeclVariadic.lean): the function itself or a remaining *named* parameter is
/// called `ap`, or `ret` when the function returns a value (unnamed parameters become `arg_N`)
pub fn name_clash(f: &VFunc, idx: usize) -> bool {
    let locals: Vec<&str> = if f.ret == VRet::Void { vec!["ap"] } else { vec!["ret", "ap"] };
    locals.contains(&f.name.as_str()) || f.params.iter().enumerate().any(|(k, p)| k != idx && p.name.as_deref().is_some_and(|n| locals.contains(&n)))
}

/// the index `wrap_as_variadic_fn` answers for, from the generator's point of view
fn expected_va_idx(f: &VFunc) -> Option<usize> {
    if f.shape != Shape::One {
        return None;
    }
    f.params.iter().position(|p| matches!(p.kind, PKind::Va(_)))
}

fn regions(case: &VCase, f: &VFunc) -> Vec<&'static str> {
    let mut r = vec![];
    if let Some(idx) = expected_va_idx(f) {
        if name_clash(f, idx) {
            r.push("va_wrapper_name_clash");
        }
        if !case.stdarg {
            r.push("va_wrapper_needs_stdarg");
        }
    }
    r
}

// ---------------------------------------------------------------- callers

fn ival(fi: usize, pi: usize) -> i64 {
    (3 + pi * 5 + fi * 2) as i64 % 120
}

/// C reference front end: every argument arrives through `...`, the named ones are pulled out with
/// `va_arg` in their promoted types, the rest of the list is handed to the static function directly.
fn c_reference(case: &VCase, hpath: &Path, callable: &dyn Fn(usize) -> bool) -> String {
    let mut s = format!("#include \"{}\"\n#include <stdarg.h>\n#include <stdio.h>\n#include <string.h>\n", hpath.display());
    for (fi, f) in case.funcs.iter().enumerate() {
        if !callable(fi) {
            continue;
        }
        let rt = c_decl(&ret_ty(&f.ret), "");
        s.push_str(&format!("static {rt} c16v_ref{fi}(int n_, ...) {{\n    va_list ap_;\n    va_start(ap_, n_);\n"));
        let mut args = vec![];
        for (pi, p) in f.params.iter().enumerate() {
            match &p.kind {
                PKind::Plain(k) => {
                    let t = c_decl(&pk_ty(k), "");
                    s.push_str(&format!("    {} = ({t})va_arg(ap_, {});\n", c_decl(&pk_ty(k), &format!("p{pi}")), promoted(k)));
                    args.push(format!("p{pi}"));
                }
                _ => args.push("ap_".into()),
            }
        }
        let call = format!("{}({})", f.name, args.join(", "));
        if f.ret == VRet::Void {
            s.push_str(&format!("    {call};\n    va_end(ap_);\n}}\n"));
        } else {
            s.push_str(&format!("    {rt} r_ = {call};\n    va_end(ap_);\n    return r_;\n}}\n"));
        }
    }
    s.push_str("int main(void) {\n");
    for (fi, f) in case.funcs.iter().enumerate() {
        if !callable(fi) {
            continue;
        }
        s.push_str("  {\n    c16v_sink = 0;\n");
        let mut args = vec!["0".to_owned()];
        let mut outs = vec![];
        for (pi, p) in f.params.iter().enumerate() {
            let v = ival(fi, pi);
            match &p.kind {
                PKind::Plain(k @ PK::Int(_)) => args.push(format!("({})({}){v}", promoted(k), c_decl(&pk_ty(k), ""))),
                PKind::Plain(PK::F32 | PK::F64) => args.push(format!("(double){v}.25")),
                PKind::Plain(PK::PInt(k, c)) => {
                    s.push_str(&format!("    {} x{pi} = ({}){};\n", c_int_spelling(k), c_int_spelling(k), v + 1));
                    args.push(format!("&x{pi}"));
                    if !*c {
                        outs.push(format!("(long long)x{pi}"));
                    }
                }
                PKind::Plain(PK::PF64(c)) => {
                    s.push_str(&format!("    double x{pi} = {v}.5;\n"));
                    args.push(format!("&x{pi}"));
                    if !*c {
                        outs.push(format!("(long long)(x{pi} * 4)"));
                    }
                }
                PKind::Plain(PK::PVoid(c)) => {
                    s.push_str(&format!("    unsigned char x{pi}[64]; memset(x{pi}, {}, 64);\n", v + 2));
                    args.push(format!("(void *)x{pi}"));
                    if !*c {
                        outs.push(format!("(long long)x{pi}[0]"));
                    }
                }
                _ => {}
            }
        }
        for (j, v) in f.vals.iter().enumerate() {
            match v {
                VaVal::I => args.push(format!("{}", 100 + j)),
                VaVal::D => args.push(format!("{j}.5")),
                VaVal::L => args.push(format!("{}LL", 1000000007i64 * (j as i64 + 1))),
                VaVal::P => {
                    s.push_str(&format!("    int q{j} = {};\n", 50 + j));
                    args.push(format!("&q{j}"));
                    outs.push(format!("(long long)q{j}"));
                }
            }
        }
        let call = format!("c16v_ref{fi}({})", args.join(", "));
        let ret_expr = match &f.ret {
            VRet::Void => {
                s.push_str(&format!("    {call};\n"));
                "0LL".to_owned()
            }
            VRet::Int(_) => {
                s.push_str(&format!("    {} = {call};\n", c_decl(&ret_ty(&f.ret), "r_")));
                "(long long)r_".to_owned()
            }
            VRet::F64 => {
                s.push_str(&format!("    double r_ = {call};\n"));
                "(long long)(r_ * 4)".to_owned()
            }
        };
        let mut fmt = format!("f{fi} ret=%lld sink=%llu out=");
        let mut fargs = vec![ret_expr, "c16v_sink".to_owned()];
        for o in outs {
            fmt.push_str("%lld,");
            fargs.push(o);
        }
        s.push_str(&format!("    printf(\"{fmt}\\n\", {});\n  }}\n", fargs.join(", ")));
    }
    s.push_str("  return 0;\n}\n");
    s
}

/// The Rust program that calls the variadic bindings with the same values.
fn rust_caller(case: &VCase, bindings: &str, ident: &dyn Fn(usize) -> Option<String>, callable: &dyn Fn(usize) -> bool) -> String {
    let mut s = String::from("#![allow(warnings)]\nmod b {\n");
    s.push_str(bindings);
    s.push_str("\n}\nuse std::os::raw::*;\nfn main() { unsafe {\n");
    for (fi, f) in case.funcs.iter().enumerate() {
        if !callable(fi) {
            continue;
        }
        let Some(id) = ident(fi) else { continue };
        s.push_str("  {\n    b::c16v_sink = 0;\n");
        let mut args = vec![];
        let mut outs = vec![];
        for (pi, p) in f.params.iter().enumerate() {
            let v = ival(fi, pi);
            match &p.kind {
                PKind::Plain(PK::Int(k)) => args.push(format!("{v} as {}", rust_int(k))),
                PKind::Plain(PK::F32) => args.push(format!("{v}.25f32")),
                PKind::Plain(PK::F64) => args.push(format!("{v}.25f64")),
                PKind::Plain(PK::PInt(k, c)) => {
                    s.push_str(&format!("    let mut x{pi}: {} = {} as {};\n", rust_int(k), v + 1, rust_int(k)));
                    args.push(format!("&mut x{pi} as *mut {} as _", rust_int(k)));
                    if !*c {
                        outs.push(format!("x{pi} as i64"));
                    }
                }
                PKind::Plain(PK::PF64(c)) => {
                    s.push_str(&format!("    let mut x{pi}: f64 = {v}.5;\n"));
                    args.push(format!("&mut x{pi} as *mut f64 as _"));
                    if !*c {
                        outs.push(format!("(x{pi} * 4.0) as i64"));
                    }
                }
                PKind::Plain(PK::PVoid(c)) => {
                    s.push_str(&format!("    let mut x{pi} = [{}u8; 64];\n", v + 2));
                    args.push(format!("x{pi}.as_mut_ptr() as *mut c_void as _"));
                    if !*c {
                        outs.push(format!("x{pi}[0] as i64"));
                    }
                }
                _ => {}
            }
        }
        for (j, v) in f.vals.iter().enumerate() {
            match v {
                VaVal::I => args.push(format!("{} as c_int", 100 + j)),
                VaVal::D => args.push(format!("{j}.5f64")),
                VaVal::L => args.push(format!("{}i64 as c_longlong", 1000000007i64 * (j as i64 + 1))),
                VaVal::P => {
                    s.push_str(&format!("    let mut q{j}: c_int = {};\n", 50 + j));
                    args.push(format!("&mut q{j} as *mut c_int"));
                    outs.push(format!("q{j} as i64"));
                }
            }
        }
        let call = format!("b::{id}({})", args.join(", "));
        let ret_expr = match &f.ret {
            VRet::Void => {
                s.push_str(&format!("    {call};\n"));
                "0i64".to_owned()
            }
            VRet::Int(_) => {
                s.push_str(&format!("    let r_ = {call};\n"));
                "r_ as i64".to_owned()
            }
            VRet::F64 => {
                s.push_str(&format!("    let r_ = {call};\n"));
                "(r_ * 4.0) as i64".to_owned()
            }
        };
        let mut fmt = format!("f{fi} ret={{}} sink={{}} out=");
        let mut fargs = vec![ret_expr, "b::c16v_sink".to_owned()];
        for o in outs {
            fmt.push_str("{},");
            fargs.push(o);
        }
        s.push_str(&format!("    println!(\"{fmt}\", {});\n  }}\n", fargs.join(", ")));
    }
    s.push_str("} }\n");
    s
}

// ---------------------------------------------------------------- oracle

#[derive(Default)]
pub struct VOut {
    pub failures: Vec<J>,
    pub known: Vec<(String, J)>,
    pub machinery: Vec<J>,
    pub stats: BTreeMap<String, u64>,
    pub sample: Option<J>,
    pub detail: Vec<String>,
}

impl VOut {
    fn hit(&mut self, k: &str, n: u64) {
        *self.stats.entry(k.to_owned()).or_insert(0) += n;
    }
}

fn fn_json(p: &VPrep, f: &VFunc) -> Vec<(&'static str, J)> {
    vec![
        ("case", J::N(p.case.id as i64)),
        ("function", J::S(prototype(f))),
        ("mode", J::s("Builder API + ParseCallbacks::wrap_as_variadic_fn")),
        ("callback", J::S(format!("wrap_as_variadic_fn(name) = {:?}", callback_answer(&f.name, p.case.rename)))),
        ("suffix", J::s(&p.suffix)),
        ("header", J::s(&p.case.header)),
    ]
}

fn clang_c(src: &Path, obj: &Path) -> (i32, String) {
    let (rc, _o, e) = run(Command::new("clang").args(ORACLE_FLAGS).arg("-c").arg(src).arg("-o").arg(obj));
    (rc, e)
}

/// (line → first error message) for errors located in `file`, and the other error lines
fn error_lines(stderr: &str, file: &Path) -> (BTreeMap<usize, String>, Vec<String>) {
    let fname = file.to_string_lossy();
    let mut by_line = BTreeMap::new();
    let mut other = vec![];
    for l in stderr.lines() {
        let Some(pos) = l.find(": error: ").or_else(|| l.find(": fatal error: ")) else { continue };
        let mut parts = l[..pos].rsplitn(3, ':');
        let _col = parts.next();
        let line = parts.next().and_then(|x| x.parse::<usize>().ok());
        let path = parts.next().unwrap_or("");
        match line {
            Some(n) if path == fname => {
                by_line.entry(n).or_insert_with(|| l[pos + 2..].to_owned());
            }
            _ => other.push(l.to_owned()),
        }
    }
    (by_line, other)
}

pub fn oracle_case(p: &VPrep, helper_obj: &Path, verbose: bool) -> VOut {
    let mut o = VOut::default();
    let case = &p.case;
    o.hit("cases", 1);
    if !case.stdarg {
        o.hit("cases_without_stdarg_h", 1);
    }
    if !p.gen.ok() {
        o.failures.push(J::obj(vec![("kind", J::s("va-generation-failed")), ("case", J::N(case.id as i64)), ("error", J::S(format!("{:?} {:?}", p.gen.error, p.gen.panic))), ("header", J::s(&case.header))]));
        return o;
    }
    // ---- what the property and the feature's documentation promise about the bindings
    for fp in &p.fns {
        let f = &case.funcs[fp.fi];
        o.hit(&format!("shape:{:?}", f.shape), 1);
        let want_link = format!("{}{}", f.name, p.suffix);
        let b = fp.binding.as_ref();
        let problem: Option<String> = match f.shape {
            Shape::VariadicStatic => b.map(|_| "a variadic static function got a binding".to_owned()),
            Shape::Extern => match b {
                Some((i, s)) if i == &f.name && s.link.is_none() && !s.variadic && s.args.len() == f.params.len() => None,
                other => Some(format!("extern function: expected a plain binding, got {other:?}")),
            },
            Shape::One => {
                let newn = callback_answer(&f.name, case.rename).unwrap_or_default();
                match b {
                    Some((i, s)) if i == &newn && s.link.as_deref() == Some(want_link.as_str()) && s.variadic && s.args.len() + 1 == f.params.len() && fp.chunk.is_some() => None,
                    other => Some(format!("expected `{newn}(<all but the va_list>, ...)` linked to {want_link} and a wrapper, got {other:?} wrapper={}", fp.chunk.is_some())),
                }
            }
            Shape::Two | Shape::Sole | Shape::PtrToVa | Shape::Declined => match b {
                Some((i, s)) if i == &f.name && s.link.as_deref() == Some(want_link.as_str()) && !s.variadic && s.args.len() == f.params.len() && fp.chunk.is_some() => None,
                other => Some(format!("expected a plain binding `{}` linked to {want_link} and a wrapper, got {other:?} wrapper={}", f.name, fp.chunk.is_some())),
            },
        };
        if let Some(pr) = problem {
            let mut j = fn_json(p, f);
            j.push(("kind", J::s("va-binding")));
            j.push(("problem", J::S(pr)));
            o.failures.push(J::obj(j));
        }
    }
    let Some(wtext) = &p.wrapper_text else {
        if case.funcs.iter().any(|f| !matches!(f.shape, Shape::VariadicStatic | Shape::Extern)) {
            o.failures.push(J::obj(vec![("kind", J::s("va-no-wrapper-file")), ("case", J::N(case.id as i64)), ("header", J::s(&case.header))]));
        }
        return o;
    };
    // ---- clang compile with the same flags (none beyond the oracle's -Werror selection)
    let obj = p.dir.join("va_wrappers_full.o");
    let (rc, err) = clang_c(&p.wrapper_path, &obj);
    let (by_line, other) = error_lines(&err, &p.wrapper_path);
    o.hit("va_start_on_promoted_parameter_warnings", err.lines().filter(|l| l.contains("-Wvarargs")).count() as u64);
    if verbose {
        o.detail.push(format!("clang rc={rc}\n{}", clip(&err, 3000)));
    }
    if rc != 0 && by_line.is_empty() {
        o.machinery.push(J::obj(vec![("kind", J::s("va-compile-error-outside-wrapper-lines")), ("case", J::N(case.id as i64)), ("stderr", J::S(clip(&other.join("\n"), 1500)))]));
        return o;
    }
    let mut failed: BTreeSet<usize> = BTreeSet::new();
    for (line, msg) in &by_line {
        let Some((k, fp)) = p.fns.iter().enumerate().find(|(_, fp)| fp.chunk.as_ref().is_some_and(|(l0, n, _)| *line >= *l0 && *line < *l0 + *n)) else {
            o.failures.push(J::obj(vec![("kind", J::s("va-compile-error-unattributed")), ("case", J::N(case.id as i64)), ("line", J::N(*line as i64)), ("message", J::s(msg)), ("text", J::S(clip(wtext.lines().nth(line - 1).unwrap_or(""), 300)))]));
            continue;
        };
        if !failed.insert(k) {
            continue;
        }
        let f = &case.funcs[fp.fi];
        let emitted = fp.chunk.as_ref().map(|c| c.2.clone()).unwrap_or_default();
        let predicted = fp.model_text.as_deref() == Some(emitted.as_str());
        let regs = regions(case, f);
        let mut j = fn_json(p, f);
        j.push(("kind", J::s("va-wrapper-does-not-compile")));
        j.push(("emitted", J::S(clip(&emitted, 600))));
        j.push(("clang", J::s(msg)));
        j.push(("model_predicts_this_text", J::B(predicted)));
        j.push(("regions", J::strs(regs.iter().map(|s| s.to_string()))));
        if !regs.is_empty() && predicted {
            o.known.push((regs[0].to_owned(), J::obj(j)));
        } else {
            o.failures.push(J::obj(j));
        }
    }
    for (k, fp) in p.fns.iter().enumerate() {
        if fp.chunk.is_some() {
            o.hit("wrappers_compiled_by_clang", 1);
            if expected_va_idx(&case.funcs[fp.fi]).is_some() {
                o.hit("variadic_wrappers_compiled_by_clang", 1);
            }
            if !failed.contains(&k) && !regions(case, &case.funcs[fp.fi]).is_empty() {
                o.hit("in_region_but_accepted_by_clang", 1);
            }
        }
    }
    // ---- the wrappers that compile: object file, nm, link, run
    let bad: BTreeSet<usize> = failed.iter().filter_map(|k| p.fns[*k].chunk.as_ref()).flat_map(|(l0, n, _)| *l0..*l0 + *n).collect();
    let ok_src = p.dir.join("va_wrappers_ok.c");
    let filtered: String = wtext.lines().enumerate().filter(|(i, _)| !bad.contains(&(i + 1))).map(|(_, l)| format!("{l}\n")).collect();
    std::fs::write(&ok_src, filtered).unwrap();
    let ok_obj = p.dir.join("va_wrappers_ok.o");
    let (rc2, err2) = clang_c(&ok_src, &ok_obj);
    if rc2 != 0 {
        o.failures.push(J::obj(vec![("kind", J::s("va-wrapper-file-does-not-compile-after-removing-attributed-wrappers")), ("case", J::N(case.id as i64)), ("stderr", J::S(clip(&err2, 1200))), ("header", J::s(&case.header))]));
        return o;
    }
    let (nrc, nout, nerr) = run(Command::new("nm").arg("-g").arg("--defined-only").arg(&ok_obj));
    if nrc != 0 {
        o.machinery.push(J::obj(vec![("kind", J::s("va-nm-failed")), ("stderr", J::S(nerr))]));
        return o;
    }
    let defined: BTreeSet<String> = nout.lines().filter_map(|l| { let v: Vec<&str> = l.split_whitespace().collect(); if v.len() == 3 && v[1] == "T" { Some(v[2].to_owned()) } else { None } }).collect();
    let expected: BTreeSet<String> = p.fns.iter().enumerate().filter(|(k, fp)| fp.chunk.is_some() && !failed.contains(k)).map(|(_, fp)| format!("{}{}", case.funcs[fp.fi].name, p.suffix)).collect();
    o.hit("nm_symbols_checked", expected.len() as u64);
    if defined != expected {
        o.failures.push(J::obj(vec![("kind", J::s("va-nm-symbols")), ("case", J::N(case.id as i64)), ("expected", J::strs(expected.iter().cloned())), ("defined", J::strs(defined.iter().cloned())), ("header", J::s(&case.header))]));
    }
    let want_link = |f: &VFunc| format!("{}{}", f.name, p.suffix);
    let callable = |fi: usize| -> bool {
        let Some((k, fp)) = p.fns.iter().enumerate().find(|(_, fp)| fp.fi == fi) else { return false };
        let f = &case.funcs[fi];
        f.shape == Shape::One && case.stdarg && fp.chunk.is_some() && !failed.contains(&k)
            && fp.binding.as_ref().is_some_and(|(_, s)| s.variadic && s.link.as_deref() == Some(want_link(f).as_str()) && s.args.len() + 1 == f.params.len())
    };
    let n_callable = (0..case.funcs.len()).filter(|fi| callable(*fi)).count();
    if n_callable == 0 {
        return o;
    }
    let hpath = p.dir.join(&case.header_name);
    let csrc = p.dir.join("va_c_reference.c");
    std::fs::write(&csrc, c_reference(case, &hpath, &callable)).unwrap();
    let cexe = p.dir.join("va_c_reference");
    let (crc, _co, cerr) = run(Command::new("clang").arg("-Werror=incompatible-pointer-types").arg("-Werror=int-conversion").arg(&csrc).arg(helper_obj).arg("-o").arg(&cexe));
    if crc != 0 {
        o.machinery.push(J::obj(vec![("kind", J::s("va-c-reference-does-not-compile")), ("case", J::N(case.id as i64)), ("stderr", J::S(clip(&cerr, 1500)))]));
        return o;
    }
    let rsrc = p.dir.join("va_rust_caller.rs");
    std::fs::write(&rsrc, rust_caller(case, p.gen.bindings.as_deref().unwrap_or(""), &|fi| p.fns.iter().find(|fp| fp.fi == fi).and_then(|fp| fp.binding.as_ref().map(|b| b.0.clone())), &callable)).unwrap();
    let rexe = p.dir.join("va_rust_caller");
    let (rrc, _ro, rerr) = run(Command::new("rustc").arg("--edition").arg("2021").arg("--cap-lints").arg("allow").arg("-C").arg("debuginfo=0").arg("-o").arg(&rexe).arg(&rsrc)
        .arg("-C").arg(format!("link-arg={}", ok_obj.display())).arg("-C").arg(format!("link-arg={}", helper_obj.display())));
    if rrc != 0 {
        o.failures.push(J::obj(vec![("kind", J::s("va-rust-caller-does-not-build")), ("case", J::N(case.id as i64)), ("stderr", J::S(clip(&rerr, 2500))), ("header", J::s(&case.header))]));
        return o;
    }
    let (c_rc, c_out, _) = run(&mut Command::new(&cexe));
    let (r_rc, r_out, r_err) = run(&mut Command::new(&rexe));
    o.hit("cases_linked_and_run", 1);
    o.hit("variadic_bindings_called_from_rust_and_compared", n_callable as u64);
    if c_rc != 0 {
        o.machinery.push(J::obj(vec![("kind", J::s("va-c-reference-crashed")), ("case", J::N(case.id as i64)), ("rc", J::N(c_rc as i64))]));
        return o;
    }
    if r_rc != 0 || c_out != r_out {
        // first function whose line differs (or is missing on the Rust side: the caller crashed there)
        let rl: Vec<&str> = r_out.lines().collect();
        let first = c_out.lines().enumerate().find(|(i, a)| rl.get(*i) != Some(a));
        let fi = first.and_then(|(_, a)| a.split(' ').next().and_then(|t| t[1..].parse::<usize>().ok()));
        let f = fi.map(|k| &case.funcs[k]);
        let mut j = match f {
            Some(f) => fn_json(p, f),
            None => vec![("case", J::N(case.id as i64)), ("header", J::s(&case.header))],
        };
        j.push(("kind", J::s("va-run-mismatch")));
        j.push(("rust_rc", J::N(r_rc as i64)));
        j.push(("direct_call", J::S(first.map(|x| x.1.to_owned()).unwrap_or_else(|| clip(&c_out, 300)))));
        j.push(("through_binding", J::S(first.map(|x| rl.get(x.0).map(|s| s.to_string()).unwrap_or_else(|| format!("<no output: rc={r_rc} {}>", clip(&r_err, 200)))).unwrap_or_else(|| clip(&format!("{r_out}{r_err}"), 300)))));
        if let Some(fp) = fi.and_then(|k| p.fns.iter().find(|fp| fp.fi == k)) {
            j.push(("emitted", J::S(clip(&fp.chunk.as_ref().map(|c| c.2.clone()).unwrap_or_default(), 600))));
            j.push(("model_wrapper", J::S(clip(fp.model_text.as_deref().unwrap_or(""), 600))));
        }
        o.failures.push(J::obj(j));
    } else {
        o.hit("result_lines_equal", c_out.lines().count() as u64);
        if let Some(l) = c_out.lines().next() {
            let fi: usize = l.split(' ').next().and_then(|t| t[1..].parse().ok()).unwrap_or(0);
            let fp = p.fns.iter().find(|fp| fp.fi == fi);
            o.sample = Some(J::obj(vec![
                ("case", J::N(case.id as i64)),
                ("header_function", J::S(prototype(&case.funcs[fi]))),
                ("binding", J::S(format!("{:?}", fp.and_then(|fp| fp.binding.clone())))),
                ("emitted_wrapper", J::S(fp.and_then(|fp| fp.chunk.as_ref().map(|c| c.2.clone())).unwrap_or_default())),
                ("model_wrapper", J::S(fp.and_then(|fp| fp.model_text.clone()).unwrap_or_default())),
                ("direct_call", J::s(l)),
                ("through_binding", J::S(r_out.lines().next().unwrap_or("").to_owned())),
            ]));
        }
    }
    o
}

pub const HELPER_C: &str = "unsigned long long c16v_sink = 0;\n";

/// position class of the va_list among the parameters
fn position_class(f: &VFunc) -> Option<&'static str> {
    let idx = expected_va_idx(f)?;
    Some(if idx == 0 { "first" } else if idx + 1 == f.params.len() { "last" } else { "middle" })
}

pub fn run_all(preps: &[VPrep], verbose: bool) -> VaResults {
    let mut res = VaResults { built: true, ..Default::default() };
    let Some(first) = preps.first() else { return res };
    let root = first.dir.parent().unwrap().to_path_buf();
    let hsrc = root.join("c16v_helper.c");
    std::fs::write(&hsrc, HELPER_C).unwrap();
    let hobj = root.join("c16v_helper.o");
    let (rc, _o, e) = run(Command::new("clang").arg("-c").arg(&hsrc).arg("-o").arg(&hobj));
    assert!(rc == 0, "helper does not compile: {e}");
    let n = std::thread::available_parallelism().map(|n| n.get()).unwrap_or(4).min(14);
    let next = std::sync::atomic::AtomicUsize::new(0);
    let slots: Vec<std::sync::Mutex<Option<VOut>>> = preps.iter().map(|_| std::sync::Mutex::new(None)).collect();
    std::thread::scope(|s| {
        for _ in 0..n {
            s.spawn(|| loop {
                let i = next.fetch_add(1, std::sync::atomic::Ordering::SeqCst);
                if i >= preps.len() {
                    break;
                }
                let out = oracle_case(&preps[i], &hobj, verbose);
                *slots[i].lock().unwrap() = Some(out);
            });
        }
    });
    let outs: Vec<VOut> = slots.into_iter().map(|m| m.into_inner().unwrap().unwrap_or_default()).collect();
    let mut dist: BTreeMap<String, u64> = BTreeMap::new();
    let mut hit = |k: String| *dist.entry(k).or_insert(0) += 1;
    for (p, o) in preps.iter().zip(&outs) {
        res.cases += 1;
        for f in &p.case.funcs {
            res.functions += 1;
            if let Some(c) = position_class(f) {
                hit(format!("va_list_position:{c}"));
                hit(format!("other_parameters:{}", f.params.len() - 1));
                hit(format!("return:{}", match &f.ret { VRet::Void => "void".to_owned(), VRet::Int(k) => format!("int:{k}"), VRet::F64 => "double".to_owned() }));
                hit(format!("va_values:{}", f.vals.len()));
                for q in &f.params {
                    match &q.kind {
                        PKind::Plain(k) => hit(format!("param:{}", match k {
                            PK::Int(i) => format!("int:{i}"),
                            PK::F32 => "float".into(),
                            PK::F64 => "double".into(),
                            PK::PInt(i, c) => format!("{}{i}*", if *c { "const " } else { "" }),
                            PK::PF64(c) => format!("{}double*", if *c { "const " } else { "" }),
                            PK::PVoid(c) => format!("{}void*", if *c { "const " } else { "" }),
                        })),
                        PKind::Va(s) => hit(format!("va_list_spelling:{s}")),
                        PKind::PtrToVa => {}
                    }
                    if q.name.is_none() {
                        hit("unnamed-parameter".into());
                    }
                }
                let idx = expected_va_idx(f).unwrap();
                if let Some(q) = f.params.iter().enumerate().filter(|(k, _)| *k != idx).last() {
                    if matches!(&q.1.kind, PKind::Plain(k) if is_promoted(k)) {
                        hit("last_named_parameter_undergoes_promotion".into());
                    }
                }
            }
        }
        for fp in &p.fns {
            let f = &p.case.funcs[fp.fi];
            if fp.model_text.is_some() {
                res.compared += 1;
                if fp.model_binding.as_ref().is_some_and(|b| b.3.is_some()) {
                    res.compared_variadic += 1;
                    let mut key = format!("va|{}", enc(&ret_ty(&f.ret)));
                    for q in &f.params {
                        key.push('|');
                        key.push_str(if q.name.is_some() { "n " } else { "u " });
                        key.push_str(&enc(&param_ty(q)));
                    }
                    res.distinct.insert(key);
                }
            }
        }
        res.disagreements.extend(p.disagreements.iter().cloned());
        res.failures.extend(o.failures.iter().cloned());
        res.machinery.extend(o.machinery.iter().cloned());
        res.known.extend(o.known.iter().cloned());
        for (k, v) in &o.stats {
            *res.stats.entry(k.clone()).or_insert(0) += v;
        }
        if let Some(s) = &o.sample {
            if res.samples.len() < 2 {
                res.samples.push(s.clone());
            }
        }
        if verbose {
            print_replay(p, o);
        }
    }
    res.distribution = dist;
    res
}

pub fn print_replay(p: &VPrep, o: &VOut) {
    println!("== variadic case {} suffix={:?} callback appends {:?} stdarg={}", p.case.id, p.case.suffix, p.case.rename, p.case.stdarg);
    println!("-- header {}\n{}", p.case.header_name, p.case.header);
    println!("-- generation: ok={} error={:?} panic={:?}", p.gen.ok(), p.gen.error, p.gen.panic);
    println!("-- emitted wrapper file ({}):\n{}", p.wrapper_path.display(), p.wrapper_text.as_deref().unwrap_or("<none>"));
    println!("-- model's wrapper file:\n{}", p.expected_text.as_deref().unwrap_or("<none>"));
    for fp in &p.fns {
        println!("-- {}: model {:?} binding {:?}", p.case.funcs[fp.fi].name, fp.model_binding, fp.binding);
    }
    for d in &p.disagreements {
        println!("-- model-vs-implementation: {}", d.text());
    }
    for d in &o.failures {
        println!("-- oracle failure: {}", d.text());
    }
    for (id, d) in &o.known {
        println!("-- known finding {id}: {}", d.text());
    }
    for d in &o.machinery {
        println!("-- machinery: {}", d.text());
    }
    for d in &o.detail {
        println!("-- {d}");
    }
    println!("-- stats {:?}", o.stats);
}
