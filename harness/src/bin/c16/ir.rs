//! IR dump (`fn` / `type` records of bindgen/verif.rs) → the model's type AST, keeping
//! `ResolvedTypeRef`s and constness exactly where the IR has them.
use crate::ast::*;
use bgverif::irdump::{unesc, Record};
use std::collections::BTreeMap;

pub struct IrFn {
    pub id: u64,
    pub name: String,
    pub mangled: Option<String>,
    pub link: Option<String>,
    pub internal: bool,
    pub kind_function: bool,
    pub variadic: bool,
    pub ret: Ty,
    pub params: Vec<(Option<String>, Ty)>,
    /// type ids of the parameters (for the `va_list` walk of `wrap_as_variadic_fn`)
    pub param_ids: Vec<u64>,
}

pub struct Ir {
    types: BTreeMap<u64, Record>,
    pub fns: Vec<IrFn>,
}

fn build(types: &BTreeMap<u64, Record>, id: u64, depth: usize) -> Ty {
    if depth > 64 {
        return Ty::Other;
    }
    let Some(r) = types.get(&id) else { return Ty::Other };
    let c = r.flag("const");
    let name = r.opt_str("name");
    let inner = |k: &str| build(types, r.num(k).unwrap_or(u64::MAX), depth + 1);
    match r.get("k") {
        "Void" => cbase(c, Base::Void),
        "NullPtr" => cbase(c, Base::NullPtr),
        "Int" => cbase(c, Base::Int(r.get("ik").to_owned())),
        "Float" => cbase(c, Base::Float(r.get("fk").to_owned())),
        "Complex" => cbase(c, Base::Complex(r.get("fk").to_owned())),
        "Alias" => match name {
            Some(n) => cbase(c, Base::Named(n)),
            None => Ty::Tref { c: false, t: Box::new(inner("inner")) },
        },
        "Array" => Ty::Array { c, t: Box::new(inner("inner")), n: r.num("len").unwrap_or(0) },
        "Pointer" => ptr(c, inner("inner")),
        "ResolvedTypeRef" => Ty::Tref { c, t: Box::new(inner("inner")) },
        "Function" => {
            let (ret, ps, v) = sig(types, r, depth);
            Ty::Func { c, v, ret: Box::new(ret), ps }
        }
        "Comp" => {
            let n = name.unwrap_or_else(|| "_bindgen_anon".into());
            cbase(c, if r.get("ck") == "union" { Base::Union(n) } else { Base::Struct(n) })
        }
        "Enum" => cbase(c, Base::Enum(name.unwrap_or_else(|| "_bindgen_anon".into()))),
        _ => Ty::Other,
    }
}

fn sig_ids(r: &Record) -> Vec<u64> {
    let a = r.get("args");
    if a == "-" || a.is_empty() {
        return vec![];
    }
    a.split(',').map(|part| part.split_once(':').map_or(part, |x| x.0).parse().unwrap_or(u64::MAX)).collect()
}

fn sig(types: &BTreeMap<u64, Record>, r: &Record, depth: usize) -> (Ty, Vec<(Option<String>, Ty)>, bool) {
    let ret = build(types, r.num("ret").unwrap_or(u64::MAX), depth + 1);
    let mut ps = vec![];
    let a = r.get("args");
    if a != "-" && !a.is_empty() {
        for part in a.split(',') {
            let (id, n) = part.split_once(':').unwrap_or((part, "-"));
            let name = if n == "-" { None } else { Some(unesc(n)) };
            ps.push((name, build(types, id.parse().unwrap_or(u64::MAX), depth + 1)));
        }
    }
    (ret, ps, r.flag("variadic"))
}

pub fn read(dump: &[Record]) -> Ir {
    let mut types = BTreeMap::new();
    for r in dump {
        if r.tag == "type" {
            if let Some(id) = r.num("id") {
                types.insert(id, r.clone());
            }
        }
    }
    let mut fns = vec![];
    for r in dump {
        if r.tag != "fn" {
            continue;
        }
        let sid = r.num("sig").unwrap_or(u64::MAX);
        // the signature may sit behind type references
        let mut cur = sid;
        let mut srec = None;
        for _ in 0..16 {
            match types.get(&cur) {
                Some(t) if t.get("k") == "Function" => {
                    srec = Some(t);
                    break;
                }
                Some(t) if matches!(t.get("k"), "ResolvedTypeRef" | "Alias") => cur = t.num("inner").unwrap_or(u64::MAX),
                _ => break,
            }
        }
        let (ret, params, variadic) = match srec {
            Some(t) => sig(&types, t, 0),
            None => (Ty::Other, vec![], false),
        };
        let param_ids = srec.map(sig_ids).unwrap_or_default();
        fns.push(IrFn {
            id: r.num("id").unwrap_or(0),
            name: unesc(r.get("name")),
            mangled: r.opt_str("mangled"),
            link: r.opt_str("link"),
            internal: r.get("linkage") == "Internal",
            kind_function: r.get("kind") == "Function",
            variadic,
            ret,
            params,
            param_ids,
        });
    }
    Ir { types, fns }
}

impl Ir {
    pub fn n_types(&self) -> usize {
        self.types.len()
    }
    /// What the hand-rolled visitor of `utils::wrap_as_variadic_fn` sees of a type, outermost first:
    /// (`ty.name()` as the dump escapes it, kind is Alias or ResolvedTypeRef); ends with the first type
    /// of another kind.
    pub fn va_chain(&self, mut id: u64) -> Vec<(Option<String>, bool)> {
        let mut out = vec![];
        for _ in 0..64 {
            let Some(r) = self.types.get(&id) else { break };
            let cont = matches!(r.get("k"), "Alias" | "ResolvedTypeRef");
            out.push((r.kv.get("name").cloned(), cont));
            if !cont {
                break;
            }
            id = r.num("inner").unwrap_or(u64::MAX);
        }
        out
    }
}
