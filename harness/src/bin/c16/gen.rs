//! Generator of headers with static / static inline functions (one PRNG), together with the
//! bodies, the direct C caller and the Rust caller used by the linked-executable oracle.
use crate::ast::*;
use bgverif::rng::Rng;

/// how the two callers build the argument and what the function body does with it
#[derive(Clone, Debug, PartialEq)]
pub enum Role {
    /// arithmetic scalar passed by value (kind name for the distribution)
    Val,
    /// pointer to a non-const arithmetic scalar: read, then incremented
    InOut,
    /// pointer to a const arithmetic scalar: read
    In,
    /// pointer to pointer to int: `**p` read
    InPP,
    /// array of n arithmetic scalars (decays): summed; first element incremented when not const
    Arr(u64, bool),
    /// `int (*)(int)` in any spelling: called with 7
    Cb,
    /// struct / union by value with an `int a` member: `.a` read
    Agg,
    /// `va_list` after an `int n`: n ints summed
    Va,
    /// anything else: zero bits passed, ignored by the body
    Opaque,
}

#[derive(Clone, Debug, PartialEq)]
pub enum RetKind {
    Void,
    Scalar,
    Agg,
    /// pointer to one of the `c16_cell_*` statics
    PtrCell(&'static str),
    PtrNull,
    FnNull,
}

#[derive(Clone, Debug)]
pub struct Param {
    pub name: Option<String>,
    /// declared type (top-level const included)
    pub ty: Ty,
    pub role: Role,
}

#[derive(Clone, Debug, PartialEq)]
pub enum Linkage {
    Static,
    StaticInline,
    /// `inline` with external linkage (no wrapper expected)
    ExternInline,
    /// plain prototype (no wrapper expected)
    Extern,
}

#[derive(Clone, Debug)]
pub struct Func {
    pub name: String,
    pub linkage: Linkage,
    pub ret: Ty,
    pub ret_kind: RetKind,
    pub params: Vec<Param>,
    pub variadic: bool,
    pub header: usize,
    /// false when some parameter cannot be passed from Rust with the C ABI (long double, complex, …)
    pub runnable: bool,
    /// the generator put a construct here that it expects the printer to get wrong
    pub planted: Vec<&'static str>,
}

impl Func {
    pub fn is_static(&self) -> bool {
        matches!(self.linkage, Linkage::Static | Linkage::StaticInline)
    }
}

#[derive(Clone, Debug, PartialEq)]
pub enum Mode {
    /// one header given by path
    Path,
    /// several headers given by path
    Multi,
    /// `Builder::header_contents`
    Contents,
    /// one header by path and one by contents
    Mixed,
}

#[derive(Clone, Debug)]
pub struct Case {
    pub id: usize,
    pub headers: Vec<(String, String)>,
    pub funcs: Vec<Func>,
    pub mode: Mode,
    pub cpp: bool,
    pub suffix: Option<String>,
    pub experimental: bool,
    pub stdbool: bool,
    pub complex_h: bool,
    pub pretty: bool,
    /// contains a kind the serializer rejects (`__int128`): generation must fail
    pub expect_serialize_error: bool,
    pub clean: bool,
}

const INT_KINDS: &[&str] = &["SChar", "UChar", "Char", "Short", "UShort", "Int", "UInt", "Long", "ULong", "LongLong", "ULongLong"];
const NAMES: &[&str] = &["a", "b", "n", "ptr", "buf", "len", "x", "_v", "value", "idx", "cb", "dst", "src", "flags", "Count", "out"];
/// Rust keywords that are ordinary identifiers in C
const KEYWORD_NAMES: &[&str] = &["match", "type", "loop", "impl", "fn", "mod", "use", "self", "move", "ref"];

struct G<'a> {
    r: &'a mut Rng,
    stdbool: bool,
    complex_h: bool,
    cpp: bool,
    clean: bool,
}

fn scalar(g: &mut G) -> Ty {
    match g.r.below(100) {
        0..=59 => int(*g.r.pick(INT_KINDS)),
        60..=69 => base(Base::Float((*g.r.pick(&["Float", "Double"])).to_owned())),
        70..=79 => base(Base::Named((*g.r.pick(&["myint", "u8_t", "real_t"])).to_owned())),
        80..=87 => base(Base::Enum("Color".into())),
        88..=93 => base(Base::Named("mode_e".into())),
        _ => {
            if g.stdbool || !g.clean { int("Bool") } else { int("Int") }
        }
    }
}

fn with_const(t: Ty, c: bool) -> Ty {
    match t {
        Ty::Base { b, .. } => Ty::Base { c, b },
        Ty::Ptr { t, .. } => Ty::Ptr { c, t },
        t => t,
    }
}

fn cb_type(g: &mut G) -> Ty {
    // int (*)(int) in several spellings
    let inner_name = if g.r.chance(1, 2) { Some("x".to_owned()) } else { None };
    match g.r.below(4) {
        0 => base(Base::Named("cb_t".into())),
        1 => base(Base::Named("fn_t".into())),
        2 => func(false, int("Int"), vec![(inner_name, int("Int"))]),
        _ => ptr(false, func(false, int("Int"), vec![(inner_name, int("Int"))])),
    }
}

fn misc_fnptr(g: &mut G) -> Ty {
    let np = g.r.below(4) as usize;
    let mut ps = vec![];
    for i in 0..np {
        let t = match g.r.below(6) {
            0 => ptr(false, cbase(true, Base::Int("Char".into()))),
            1 => base(Base::Struct("Pt".into())),
            2 => ptr(g.r.chance(1, 4), scalar(g)),
            3 => array(int("Int"), g.r.range(1, 4)),
            _ => scalar(g),
        };
        let n = if g.r.chance(1, 2) { Some(format!("q{i}")) } else { None };
        ps.push((n, t));
    }
    let ret = match g.r.below(5) {
        0 => base(Base::Void),
        1 => ptr(false, scalar(g)),
        2 => ptr(false, base(Base::Void)),
        _ => scalar(g),
    };
    ptr(g.r.chance(1, 8), func(false, ret, ps))
}

/// a parameter type and its role; `planted` receives the name of a construct expected to be misprinted
fn param_type(g: &mut G, planted: &mut Vec<&'static str>, runnable: &mut bool) -> (Ty, Role) {
    let defect_roll = if g.clean { 1000 } else { g.r.below(100) };
    if defect_roll < 34 {
        // constructs outside the region where the printer is right
        return match g.r.below(9) {
            0 | 1 => {
                planted.push("ptr-to-array");
                (ptr(false, array(int("Int"), g.r.range(2, 5))), Role::Opaque)
            }
            2 => {
                planted.push("array-of-array");
                let (n, m) = (g.r.range(2, 4), g.r.range(5, 6));
                (array(array(int("Int"), m), n), Role::Opaque)
            }
            3 => {
                planted.push("array-of-fnptr");
                (array(ptr(false, func(false, int("Int"), vec![])), g.r.range(2, 4)), Role::Opaque)
            }
            4 => {
                planted.push("fnptr-returning-fnptr");
                let inner = ptr(false, func(false, int("Int"), vec![(None, int("Int"))]));
                (ptr(false, func(false, inner, vec![(Some("k".into()), int("Char"))])), Role::Opaque)
            }
            5 => {
                planted.push("const-pointer-param");
                (ptr(true, scalar_nonconst(g)), Role::InOut)
            }
            6 => {
                planted.push("variadic-fnptr");
                (ptr(false, func(true, int("Int"), vec![(None, ptr(false, cbase(true, Base::Int("Char".into()))))])), Role::Opaque)
            }
            7 if !g.stdbool => {
                planted.push("bool-without-stdbool");
                (int("Bool"), Role::Val)
            }
            7 => {
                planted.push("ptr-to-array");
                (ptr(true, array(cbase(true, Base::Int("Short".into())), 3)), Role::Opaque)
            }
            _ if !g.complex_h && !g.cpp => {
                planted.push("complex-without-header");
                *runnable = false;
                (base(Base::Complex("Double".into())), Role::Opaque)
            }
            _ => {
                planted.push("array-of-array");
                (array(array(ptr(false, int("Char")), 2), 3), Role::Opaque)
            }
        };
    }
    match g.r.below(100) {
        0..=27 => {
            let t = scalar(g);
            // top-level const on a by-value scalar is printed correctly
            let c = g.r.chance(1, 8);
            (with_const(t, c), Role::Val)
        }
        28..=37 => {
            let t = scalar_nonconst(g);
            (ptr(false, t), Role::InOut)
        }
        38..=45 => {
            let t = with_const(scalar_nonconst(g), true);
            (ptr(false, t), Role::In)
        }
        46..=48 => (ptr(false, ptr(g.r.chance(1, 2), cbase(g.r.chance(1, 2), Base::Int("Int".into())))), Role::InPP),
        49..=56 => {
            let n = g.r.range(1, 6);
            let c = g.r.chance(1, 3);
            (array(with_const(scalar_nonconst(g), c), n), Role::Arr(n, c))
        }
        57..=58 => (array(ptr(false, int("Char")), g.r.range(1, 4)), Role::Opaque),
        59..=68 => (cb_type(g), Role::Cb),
        69..=74 => (misc_fnptr(g), Role::Opaque),
        75..=82 => {
            let b = match g.r.below(4) {
                0 => Base::Struct("Pt".into()),
                1 => Base::Struct("Big".into()),
                2 => Base::Union("U".into()),
                _ => Base::Named("anon_t".into()),
            };
            (cbase(g.r.chance(1, 10), b), Role::Agg)
        }
        83..=87 => {
            let b = match g.r.below(3) {
                0 => Base::Struct("Pt".into()),
                1 => Base::Void,
                _ => Base::Union("U".into()),
            };
            (ptr(false, cbase(g.r.chance(1, 2), b)), Role::Opaque)
        }
        88..=90 => {
            *runnable = false;
            (base(Base::Float("LongDouble".into())), Role::Opaque)
        }
        91..=92 if g.complex_h && !g.cpp => {
            *runnable = false;
            (base(Base::Complex((*g.r.pick(&["Float", "Double"])).to_owned())), Role::Opaque)
        }
        93..=94 => (ptr(false, base(Base::Named("cb_t".into()))), Role::Opaque),
        95..=96 => (cbase(true, Base::Named("cb_t".into())), Role::Cb),
        _ => (ptr(false, cbase(true, Base::Int("Char".into()))), Role::Opaque),
    }
}

fn scalar_nonconst(g: &mut G) -> Ty {
    // arithmetic scalars the callers can construct (no bool: `*p + 1` saturates but is still comparable)
    match g.r.below(10) {
        0..=6 => int(*g.r.pick(INT_KINDS)),
        7 => base(Base::Float("Double".into())),
        8 => base(Base::Named("myint".into())),
        _ => base(Base::Float("Float".into())),
    }
}

fn ret_type(g: &mut G, planted: &mut Vec<&'static str>, runnable: &mut bool) -> (Ty, RetKind) {
    if !g.clean && g.r.chance(1, 40) {
        planted.push("returns-fnptr");
        return (ptr(false, func(false, int("Int"), vec![(None, int("Int"))])), RetKind::FnNull);
    }
    match g.r.below(100) {
        0..=19 => (base(Base::Void), RetKind::Void),
        20..=64 => (scalar(g), RetKind::Scalar),
        65..=74 => {
            let b = match g.r.below(4) {
                0 => Base::Struct("Pt".into()),
                1 => Base::Struct("Big".into()),
                2 => Base::Union("U".into()),
                _ => Base::Named("anon_t".into()),
            };
            (base(b), RetKind::Agg)
        }
        75..=86 => {
            let (b, cell) = match g.r.below(4) {
                0 => (Base::Int("Int".into()), "int"),
                1 => (Base::Int("Char".into()), "char"),
                2 => (Base::Float("Double".into()), "double"),
                _ => (Base::Named("myint".into()), "myint"),
            };
            (ptr(false, cbase(g.r.chance(1, 2), b)), RetKind::PtrCell(cell))
        }
        87..=92 => {
            let t = match g.r.below(3) {
                0 => ptr(false, base(Base::Void)),
                1 => ptr(false, base(Base::Struct("Pt".into()))),
                _ => ptr(false, ptr(false, int("Char"))),
            };
            (t, RetKind::PtrNull)
        }
        93..=96 => (base(Base::Named("cb_t".into())), RetKind::FnNull),
        _ => {
            *runnable = false;
            (base(Base::Float("LongDouble".into())), RetKind::Scalar)
        }
    }
}

fn body(f: &Func) -> String {
    let mut s = String::from("    long long acc = 0;\n");
    let mut prev_int: Option<String> = None;
    for p in &f.params {
        let Some(n) = &p.name else { continue };
        match &p.role {
            Role::Val => {
                s.push_str(&format!("    acc += (long long)({n});\n"));
                prev_int = Some(n.clone());
            }
            Role::InOut => s.push_str(&format!("    acc += (long long)(*{n}); *{n} = *{n} + 1;\n")),
            Role::In => s.push_str(&format!("    acc += (long long)(*{n});\n")),
            Role::InPP => s.push_str(&format!("    acc += (long long)(**{n});\n")),
            Role::Arr(k, c) => {
                s.push_str(&format!("    {{ int i_; for (i_ = 0; i_ < {k}; i_++) acc += (long long)({n}[i_]); }}\n"));
                if !*c {
                    s.push_str(&format!("    {n}[0] = {n}[0] + 1;\n"));
                }
            }
            Role::Cb => s.push_str(&format!("    acc += {n}(7);\n")),
            Role::Agg => s.push_str(&format!("    acc += (long long)({n}.a);\n")),
            Role::Va => {
                let cnt = prev_int.clone().unwrap_or_else(|| "0".into());
                s.push_str(&format!("    {{ int i_; for (i_ = 0; i_ < {cnt}; i_++) acc += va_arg({n}, int); }}\n"));
            }
            Role::Opaque => s.push_str(&format!("    (void){n};\n")),
        }
    }
    if f.variadic {
        s.push_str("    acc += 1;\n");
    }
    let ret_c = c_decl(&f.ret, "");
    match &f.ret_kind {
        RetKind::Void => s.push_str("    c16_sink = acc;\n"),
        RetKind::Scalar => s.push_str(&format!("    return ({ret_c})(acc % 100);\n")),
        RetKind::Agg => s.push_str(&format!("    {{ {ret_c} r_ = {{0}}; r_.a = (int)(acc % 100); c16_sink = acc; return r_; }}\n")),
        RetKind::PtrCell(c) => s.push_str(&format!("    c16_sink = acc; return &c16_cell_{c};\n")),
        RetKind::PtrNull | RetKind::FnNull => s.push_str("    c16_sink = acc; return 0;\n"),
    }
    s
}

pub fn prototype(f: &Func) -> String {
    let mut args: Vec<String> = f.params.iter().map(|p| c_decl(&p.ty, p.name.as_deref().unwrap_or(""))).collect();
    if f.variadic {
        args.push("...".into());
    }
    let a = if args.is_empty() { "void".to_owned() } else { args.join(", ") };
    c_decl(&f.ret, &format!("{}({a})", f.name))
}

fn preamble(stdarg: bool, stdbool: bool, complex_h: bool) -> String {
    let mut s = String::new();
    if stdarg {
        s.push_str("#include <stdarg.h>\n");
    }
    if stdbool {
        s.push_str("#include <stdbool.h>\n");
    }
    if complex_h {
        s.push_str("#include <complex.h>\n");
    }
    s.push_str(
        "typedef int myint;\ntypedef unsigned char u8_t;\ntypedef double real_t;\ntypedef int (*cb_t)(int);\ntypedef int fn_t(int);\n\
         typedef struct { int a; short b; } anon_t;\nstruct Pt { int a; int b; };\nstruct Big { long a; double d; char buf[24]; };\n\
         union U { int a; float f; };\nenum Color { RED, GREEN = 5, BLUE };\ntypedef enum { M0, M1 = 3 } mode_e;\n\
         extern long long c16_sink;\nstatic int c16_cell_int = 42;\nstatic char c16_cell_char = 7;\nstatic double c16_cell_double = 9;\nstatic myint c16_cell_myint = 11;\n",
    );
    s
}

/// Case 0 of every run: the witnesses of the known findings (DESIGN §7 row 5 first) next to
/// functions the printer gets right.
pub fn witness_case(id: usize) -> Case {
    let p = |name: &str, ty: Ty, role: Role| Param { name: Some(name.to_owned()), ty, role };
    let f = |name: &str, ret: Ty, rk: RetKind, params: Vec<Param>, variadic: bool, planted: Vec<&'static str>| Func {
        name: name.to_owned(), linkage: Linkage::StaticInline, ret, ret_kind: rk, params, variadic, header: 0, runnable: true, planted,
    };
    let fnptr = |v: bool, ret: Ty, ps: Vec<(Option<String>, Ty)>| ptr(false, func(v, ret, ps));
    let funcs = vec![
        f("sum3", int("Int"), RetKind::Scalar, vec![p("p", ptr(false, array(int("Int"), 3)), Role::Opaque)], false, vec!["ptr-to-array"]),
        f("arr2", int("Int"), RetKind::Scalar, vec![p("a", array(array(int("Int"), 3), 2), Role::Opaque)], false, vec!["array-of-array"]),
        f("arrfp", int("Int"), RetKind::Scalar, vec![p("a", array(fnptr(false, int("Int"), vec![]), 3), Role::Opaque)], false, vec!["array-of-fnptr"]),
        f("fpfp", int("Int"), RetKind::Scalar, vec![p("f", fnptr(false, fnptr(false, int("Int"), vec![(None, int("Int"))]), vec![(Some("k".into()), int("Char"))]), Role::Opaque)], false, vec!["fnptr-returning-fnptr"]),
        f("vfp", int("Int"), RetKind::Scalar, vec![p("g", fnptr(true, int("Int"), vec![(None, ptr(false, cbase(true, Base::Int("Char".into()))))]), Role::Opaque)], false, vec!["variadic-fnptr"]),
        f("cptr", int("Int"), RetKind::Scalar, vec![p("q", ptr(true, int("Int")), Role::InOut)], false, vec!["const-pointer-param"]),
        f("boolfn", int("Bool"), RetKind::Scalar, vec![p("x", int("Bool"), Role::Val)], false, vec!["bool-without-stdbool"]),
        f("match", int("Int"), RetKind::Scalar, vec![p("a", int("Int"), Role::Val)], false, vec!["keyword-name"]),
        f("vs", int("Int"), RetKind::Scalar, vec![p("n", int("Int"), Role::Val)], true, vec![]),
        f("ok1", int("Long"), RetKind::Scalar, vec![p("a", int("Int"), Role::Val), p("b", ptr(false, int("Int")), Role::InOut), Param { name: None, ty: int("Short"), role: Role::Val }], false, vec![]),
        f("ok2", base(Base::Void), RetKind::Void, vec![p("a", array(cbase(true, Base::Int("Int".into())), 3), Role::Arr(3, true)), p("cb", fnptr(false, int("Int"), vec![(None, int("Int"))]), Role::Cb), p("s", base(Base::Struct("Pt".into())), Role::Agg)], false, vec![]),
        f("ok3", ptr(false, cbase(true, Base::Int("Char".into()))), RetKind::PtrCell("char"), vec![], false, vec![]),
    ];
    let mut text = preamble(true, false, false);
    for fu in &funcs {
        text.push_str(&format!("static inline {} {{\n{}}}\n", prototype(fu), body(fu)));
    }
    Case {
        id, headers: vec![(format!("c16_{id}_0.h"), text)], funcs, mode: Mode::Path, cpp: false, suffix: None, experimental: true,
        stdbool: false, complex_h: false, pretty: false, expect_serialize_error: false, clean: false,
    }
}

pub fn gen_case(r: &mut Rng, id: usize, thorough: bool) -> Case {
    if id == 0 {
        return witness_case(id);
    }
    let cpp = r.chance(1, 8);
    let clean = cpp || r.chance(6, 10);
    let mode = if cpp {
        if r.chance(1, 2) { Mode::Path } else { Mode::Contents }
    } else {
        match r.below(20) {
            0..=11 => Mode::Path,
            12..=16 => Mode::Multi,
            17..=18 => Mode::Contents,
            _ => Mode::Mixed,
        }
    };
    let stdbool = !cpp && r.chance(3, 4);
    let complex_h = !cpp && r.chance(1, 3);
    let expect_serialize_error = !cpp && !clean && r.chance(1, 25);
    let nh = match mode {
        Mode::Multi => r.range(2, 3) as usize,
        Mode::Mixed => 2,
        _ => 1,
    };
    let nf = if thorough || r.chance(1, 2) { r.range(1, 30) } else { r.range(1, 12) } as usize;
    let suffix = match r.below(5) {
        0 => Some("_w".to_owned()),
        1 => Some("__c16".to_owned()),
        2 => Some("X9".to_owned()),
        _ => None,
    };
    let mut g = G { r, stdbool, complex_h, cpp, clean };
    let mut funcs: Vec<Func> = vec![];
    let mut used_kw: Vec<&str> = vec![];
    let mut i128_placed = false;
    for i in 0..nf {
        let header = g.r.below(nh as u64) as usize;
        let mut planted = vec![];
        let mut runnable = true;
        let lk = match g.r.below(20) {
            0..=8 => Linkage::StaticInline,
            9..=16 => Linkage::Static,
            17 => Linkage::ExternInline,
            _ => Linkage::Extern,
        };
        let is_static = matches!(lk, Linkage::Static | Linkage::StaticInline);
        let variadic = is_static && g.r.chance(1, 12);
        let mut name = format!("f{id}_{i}");
        if is_static && !g.clean && g.r.chance(1, 30) {
            let k = *g.r.pick(KEYWORD_NAMES);
            if !used_kw.contains(&k) {
                used_kw.push(k);
                name = k.to_owned();
                planted.push("keyword-name");
            }
        }
        let mut params = vec![];
        if variadic {
            params.push(Param { name: Some("n".into()), ty: int("Int"), role: Role::Val });
        } else if is_static && g.r.chance(1, 14) {
            // the va_list shape
            params.push(Param { name: Some("n".into()), ty: int("Int"), role: Role::Val });
            params.push(Param { name: Some("ap".into()), ty: base(Base::Named("va_list".into())), role: Role::Va });
        } else {
            let np = match g.r.below(10) {
                0 => 0,
                1..=6 => g.r.range(1, 3),
                _ => g.r.range(4, 8),
            } as usize;
            for j in 0..np {
                let (ty, role) = param_type(&mut g, &mut planted, &mut runnable);
                let unnamed = g.r.chance(1, 9);
                let pname = if unnamed { None } else { Some(format!("{}{}", g.r.pick(NAMES), j)) };
                params.push(Param { name: pname, ty, role });
            }
        }
        let is_va = params.iter().any(|p| p.role == Role::Va);
        let (ret, ret_kind) = if is_va || variadic { (int("Int"), RetKind::Scalar) } else { ret_type(&mut g, &mut planted, &mut runnable) };
        if expect_serialize_error && !i128_placed && is_static && !variadic && !is_va && (i + 1 == nf || g.r.chance(1, 3)) {
            params.push(Param { name: Some("wide".into()), ty: int(if g.r.chance(1, 2) { "I128" } else { "U128" }), role: Role::Opaque });
            i128_placed = true;
            planted.push("int128");
        }
        funcs.push(Func { name, linkage: lk, ret, ret_kind, params, variadic, header, runnable, planted });
    }
    let expect_serialize_error = i128_placed;
    let any_va = funcs.iter().any(|f| f.variadic || f.params.iter().any(|p| p.role == Role::Va));
    let mut headers = vec![];
    for h in 0..nh {
        let mut text = String::new();
        if h == 0 {
            text.push_str(&preamble(any_va || g.r.chance(1, 4), stdbool, complex_h));
        }
        for f in funcs.iter().filter(|f| f.header == h) {
            let proto = prototype(f);
            match f.linkage {
                Linkage::Extern => text.push_str(&format!("{proto};\n")),
                Linkage::ExternInline => text.push_str(&format!("inline {proto} {{\n{}}}\n", body(f))),
                Linkage::Static => {
                    if g.r.chance(1, 5) {
                        text.push_str(&format!("static {proto};\n"));
                    }
                    text.push_str(&format!("static {proto} {{\n{}}}\n", body(f)));
                }
                Linkage::StaticInline => text.push_str(&format!("static inline {proto} {{\n{}}}\n", body(f))),
            }
        }
        let ext = if cpp && g.r.chance(1, 2) { "hpp" } else { "h" };
        // (with several headers the names sort in the reverse of the order they are given in: the wrapper file must include them
        // in the given order, the later ones use what the first one sets up)
        let tag = if nh > 1 { ((b'z' - (h as u8 % 26)) as char).to_string() } else { String::new() };
        headers.push((format!("c16_{id}_{tag}{h}.{ext}"), text));
    }
    let experimental = g.r.chance(1, 2);
    let pretty = g.r.chance(1, 6);
    Case { id, headers, funcs, mode, cpp, suffix, experimental, stdbool, complex_h, pretty, expect_serialize_error, clean }
}

// ---------------------------------------------------------------- callers

/// deterministic argument values: small non-negative integers that every arithmetic type holds
fn val(case: usize, fi: usize, pi: usize, k: usize) -> i64 {
    (((case * 31 + fi * 17 + pi * 7 + k * 3) % 23) + 1) as i64
}

fn is_bool(t: &Ty) -> bool {
    matches!(t, Ty::Base { b: Base::Int(k), .. } if k == "Bool")
}

fn pointee(t: &Ty) -> &Ty {
    match t {
        Ty::Ptr { t, .. } => t,
        Ty::Array { t, .. } => t,
        t => t,
    }
}

fn unconst(t: &Ty) -> Ty {
    with_const(t.clone(), false)
}

/// which functions the callers exercise
pub fn callable(f: &Func, compiled: bool) -> bool {
    f.is_static() && !f.variadic && f.runnable && compiled
}

/// The C translation unit that calls the static functions directly.
pub fn c_caller(case: &Case, includes: &str, ok: &dyn Fn(usize) -> bool) -> String {
    let mut s = String::new();
    s.push_str(includes);
    s.push_str("#include <stdio.h>\nint c16_call_va(int (*f)(int, va_list), int n, ...);\nstatic int c16_cb(int x) { return x * 3 + 1; }\nint main(void) {\n");
    for (fi, f) in case.funcs.iter().enumerate() {
        if !ok(fi) {
            continue;
        }
        s.push_str("  {\n    c16_sink = -1;\n");
        let mut args = vec![];
        let mut outs = vec![];
        let is_va = f.params.iter().any(|p| p.role == Role::Va);
        for (pi, p) in f.params.iter().enumerate() {
            let v = format!("v{pi}");
            match &p.role {
                Role::Val => {
                    let x = if is_bool(&p.ty) { val(case.id, fi, pi, 0) % 2 } else if is_va { 3 } else { val(case.id, fi, pi, 0) };
                    s.push_str(&format!("    {} = ({}){x};\n", c_decl(&unconst(&p.ty), &v), c_decl(&unconst(&p.ty), "")));
                    args.push(v);
                }
                Role::InOut | Role::In => {
                    let pt = unconst(pointee(&p.ty));
                    s.push_str(&format!("    {} = ({}){};\n", c_decl(&pt, &v), c_decl(&pt, ""), val(case.id, fi, pi, 0)));
                    args.push(format!("&{v}"));
                    if p.role == Role::InOut {
                        outs.push(format!("(long long){v}"));
                    }
                }
                Role::InPP => {
                    let pt = unconst(pointee(&p.ty));
                    s.push_str(&format!("    int {v}_ = {}; {} = &{v}_;\n", val(case.id, fi, pi, 0), c_decl(&pt, &v)));
                    args.push(format!("&{v}"));
                }
                Role::Arr(n, c) => {
                    let et = unconst(pointee(&p.ty));
                    let vals: Vec<String> = (0..*n).map(|k| format!("({}){}", c_decl(&et, ""), val(case.id, fi, pi, k as usize))).collect();
                    s.push_str(&format!("    {} = {{ {} }};\n", c_decl(&array(et, *n), &v), vals.join(", ")));
                    args.push(v.clone());
                    if !*c {
                        outs.push(format!("(long long){v}[0]"));
                    }
                }
                Role::Cb => args.push("c16_cb".into()),
                Role::Agg => {
                    let t = unconst(&p.ty);
                    s.push_str(&format!("    {} = {{0}}; {v}.a = {};\n", c_decl(&t, &v), val(case.id, fi, pi, 0)));
                    args.push(v);
                }
                Role::Va => {}
                Role::Opaque => {
                    // zero bits of the parameter's (decayed) type
                    let t = match unconst(&p.ty) {
                        Ty::Array { t, .. } => ptr(false, *t),
                        Ty::Func { c, v, ret, ps } => ptr(false, Ty::Func { c, v, ret, ps }),
                        t => t,
                    };
                    if matches!(t, Ty::Base { b: Base::Struct(_) | Base::Union(_), .. }) {
                        s.push_str(&format!("    {} = {{0}};\n", c_decl(&t, &v)));
                    } else {
                        s.push_str(&format!("    {} = 0;\n", c_decl(&t, &v)));
                    }
                    args.push(v);
                }
            }
        }
        let call = if is_va { format!("c16_call_va({}, 3, 10, 20, 30)", f.name) } else { format!("{}({})", f.name, args.join(", ")) };
        let ret_expr = match &f.ret_kind {
            RetKind::Void => {
                s.push_str(&format!("    {call};\n"));
                "0LL".to_owned()
            }
            RetKind::Scalar => {
                s.push_str(&format!("    {} = {call};\n", c_decl(&unconst(&f.ret), "r_")));
                "(long long)r_".to_owned()
            }
            RetKind::Agg => {
                s.push_str(&format!("    {} = {call};\n", c_decl(&unconst(&f.ret), "r_")));
                "(long long)r_.a".to_owned()
            }
            RetKind::PtrCell(_) => {
                s.push_str(&format!("    {} = {call};\n", c_decl(&f.ret, "r_")));
                "(long long)*r_".to_owned()
            }
            RetKind::PtrNull | RetKind::FnNull => {
                s.push_str(&format!("    {} = {call};\n", c_decl(&f.ret, "r_")));
                "(long long)(r_ == 0)".to_owned()
            }
        };
        let mut fmt = format!("f{fi} ret=%lld sink=%lld out=");
        let mut fargs = vec![ret_expr, "c16_sink".to_owned()];
        for o in outs {
            fmt.push_str("%lld,");
            fargs.push(o);
        }
        s.push_str(&format!("    printf(\"{fmt}\\n\", {});\n  }}\n", fargs.join(", ")));
    }
    s.push_str("  return 0;\n}\n");
    s
}

pub const HELPER_C: &str = "#include <stdarg.h>\nlong long c16_sink = 0;\nint c16_call_va(int (*f)(int, va_list), int n, ...) { va_list ap; int r; va_start(ap, n); r = f(n, ap); va_end(ap); return r; }\n";

/// The Rust program that calls the same functions through the generated bindings.
/// `ident(fi)` = the Rust identifier of the binding of function `fi`.
pub fn rust_caller(case: &Case, bindings: &str, ident: &dyn Fn(usize) -> Option<String>, ok: &dyn Fn(usize) -> bool) -> String {
    let mut s = String::new();
    s.push_str("#![allow(warnings)]\nmod b {\n");
    s.push_str(bindings);
    s.push_str("\n}\nuse std::os::raw::*;\n");
    s.push_str(
        "trait N { fn of(v: i64) -> Self; fn i(&self) -> i64; }\n\
         macro_rules! n { ($($t:ty),*) => { $(impl N for $t { fn of(v: i64) -> Self { v as $t } fn i(&self) -> i64 { *self as i64 } })* } }\n\
         n!(i8, u8, i16, u16, i32, u32, i64, u64, f32, f64);\n\
         impl N for bool { fn of(v: i64) -> Self { v != 0 } fn i(&self) -> i64 { *self as i64 } }\n\
         unsafe extern \"C\" fn c16_cb(x: c_int) -> c_int { x * 3 + 1 }\n",
    );
    if case.funcs.iter().enumerate().any(|(fi, f)| ok(fi) && f.params.iter().any(|p| p.role == Role::Va)) {
        s.push_str("extern \"C\" { fn c16_call_va(f: unsafe extern \"C\" fn(c_int, *mut b::__va_list_tag) -> c_int, n: c_int, ...) -> c_int; }\n");
    }
    s.push_str("fn main() { unsafe {\n");
    for (fi, f) in case.funcs.iter().enumerate() {
        if !ok(fi) {
            continue;
        }
        let Some(id) = ident(fi) else { continue };
        s.push_str("  {\n    b::c16_sink = -1;\n");
        let mut args = vec![];
        let mut outs = vec![];
        let is_va = f.params.iter().any(|p| p.role == Role::Va);
        for (pi, p) in f.params.iter().enumerate() {
            let v = format!("v{pi}");
            match &p.role {
                Role::Val => {
                    let x = if is_bool(&p.ty) { val(case.id, fi, pi, 0) % 2 } else if is_va { 3 } else { val(case.id, fi, pi, 0) };
                    args.push(format!("N::of({x})"));
                }
                Role::InOut => {
                    s.push_str(&format!("    let mut {v} = N::of({});\n", val(case.id, fi, pi, 0)));
                    args.push(format!("&mut {v}"));
                    outs.push(format!("N::i(&{v})"));
                }
                Role::In => {
                    s.push_str(&format!("    let {v} = N::of({});\n", val(case.id, fi, pi, 0)));
                    args.push(format!("&{v}"));
                }
                Role::InPP => {
                    s.push_str(&format!("    let mut {v}_: c_int = {}; let mut {v} = &mut {v}_ as *mut c_int;\n", val(case.id, fi, pi, 0)));
                    args.push(format!("&mut {v} as *mut *mut c_int as _"));
                }
                Role::Arr(n, c) => {
                    let vals: Vec<String> = (0..*n).map(|k| format!("N::of({})", val(case.id, fi, pi, k as usize))).collect();
                    s.push_str(&format!("    let mut {v} = [{}];\n", vals.join(", ")));
                    if *c {
                        args.push(format!("{v}.as_ptr()"));
                    } else {
                        args.push(format!("{v}.as_mut_ptr()"));
                        outs.push(format!("N::i(&{v}[0])"));
                    }
                }
                Role::Cb => args.push("Some(c16_cb)".into()),
                Role::Agg => {
                    let tn = match unconst(&p.ty) {
                        Ty::Base { b: Base::Struct(n) | Base::Union(n) | Base::Named(n), .. } => n,
                        _ => "Pt".into(),
                    };
                    s.push_str(&format!("    let mut {v}: b::{tn} = std::mem::zeroed(); {v}.a = {};\n", val(case.id, fi, pi, 0)));
                    args.push(v);
                }
                Role::Va => {}
                Role::Opaque => args.push("std::mem::zeroed()".into()),
            }
        }
        let call = if is_va { format!("c16_call_va(b::{id}, 3, 10, 20, 30)") } else { format!("b::{id}({})", args.join(", ")) };
        let ret_expr = match &f.ret_kind {
            RetKind::Void => {
                s.push_str(&format!("    {call};\n"));
                "0i64".to_owned()
            }
            RetKind::Scalar => {
                s.push_str(&format!("    let r_ = {call};\n"));
                "N::i(&r_)".to_owned()
            }
            RetKind::Agg => {
                s.push_str(&format!("    let r_ = {call};\n"));
                "N::i(&r_.a)".to_owned()
            }
            RetKind::PtrCell(_) => {
                s.push_str(&format!("    let r_ = {call};\n"));
                "N::i(&*r_)".to_owned()
            }
            RetKind::PtrNull => {
                s.push_str(&format!("    let r_ = {call};\n"));
                "(r_.is_null() as i64)".to_owned()
            }
            RetKind::FnNull => {
                s.push_str(&format!("    let r_ = {call};\n"));
                "(r_.is_none() as i64)".to_owned()
            }
        };
        let mut fmt = format!("f{fi} ret={{}} sink={{}} out=");
        let mut fargs = vec![ret_expr, "b::c16_sink".to_owned()];
        for o in outs {
            fmt.push_str("{},");
            fargs.push(o);
        }
        s.push_str(&format!("    println!(\"{fmt}\", {});\n  }}\n", fargs.join(", ")));
    }
    s.push_str("} }\n");
    s
}
