//! C16 — static-function wrappers compile and behave like the wrapped functions.
//!
//! Per case: generated header(s) → real bindgen (in-process, IR dump on) → emitted wrapper file and
//! bindings; the Lean model (`bgmodel`, op `cdecl`) is asked for the wrapper text of every function
//! (types taken from the IR dump, cross-checked against the generator's AST) and for the binding
//! decision; then the property's own oracle: clang compile of the wrapper file with the same flags,
//! `nm`, and a linked C caller vs a linked Rust caller.  Model-vs-implementation disagreements and
//! implementation-vs-oracle failures are reported separately.
mod ast;
mod gen;
mod ir;
mod json;
mod oracle;
#[cfg(feature = "va")]
mod va;

use ast::*;
use bgverif::drive::{self, GenOut};
use bgverif::rng::Rng;
use bgverif::util::{self, Args};
use gen::*;
use json::*;
use std::collections::{BTreeMap, BTreeSet};
use std::path::{Path, PathBuf};

pub const DEFAULT_SUFFIX: &str = "__extern";
const RUST_KEYWORDS: &[&str] = &["match", "type", "loop", "impl", "fn", "mod", "use", "self", "move", "ref"];

#[derive(Clone, Debug, Default)]
pub struct DeclStatus {
    pub defect: Option<String>,
    pub rt_ok: bool,
    pub lex_ok: bool,
}

#[derive(Clone, Debug, Default)]
pub struct FnPrep {
    /// index into case.funcs
    pub fi: usize,
    pub in_ir: bool,
    /// model: `Function::codegen` answer
    pub model_binding: Option<(String, Option<String>, bool)>,
    /// model: wrapper text (None = serializer error) — only when the model says wrapped
    pub model_text: Option<String>,
    pub model_error: bool,
    pub ret_status: DeclStatus,
    pub param_status: Vec<DeclStatus>,
    /// implementation: binding (ident, link_name)
    pub binding: Option<(String, Option<String>)>,
    /// 1-based line of this function's wrapper in the emitted file (by its definition name)
    pub line: Option<usize>,
    pub canon: String,
    pub names_identical: bool,
    pub uses_bool: bool,
    pub uses_complex: bool,
}

pub struct Prep {
    pub case: Case,
    pub dir: PathBuf,
    pub a: bool,
    pub suffix: String,
    pub clang_args: Vec<String>,
    pub flags_desc: Vec<String>,
    pub gen: GenOut,
    pub wrapper_path: PathBuf,
    pub wrapper_text: Option<String>,
    pub expected_text: Option<String>,
    pub model_expects_error: bool,
    pub fns: Vec<FnPrep>,
    pub disagreements: Vec<J>,
    pub ir_ast_mismatch: Vec<J>,
    pub contents_headers: Vec<usize>,
}

fn parse_status(s: &str) -> DeclStatus {
    let p: Vec<&str> = s.split(':').collect();
    DeclStatus {
        defect: p.first().filter(|d| **d != "-").map(|d| d.to_string()),
        rt_ok: p.get(1) == Some(&"ok"),
        lex_ok: p.get(2) == Some(&"ok"),
    }
}

fn uses(t: &Ty, pred: &dyn Fn(&Base) -> bool) -> bool {
    match t {
        Ty::Base { b, .. } => pred(b),
        Ty::Ptr { t, .. } | Ty::Array { t, .. } | Ty::Tref { t, .. } => uses(t, pred),
        Ty::Func { ret, ps, .. } => uses(ret, pred) || ps.iter().any(|(_, t)| uses(t, pred)),
        Ty::Other => false,
    }
}

fn names_identical(canon: &str, mangled: &str) -> bool {
    canon == mangled || mangled.strip_prefix('_') == Some(canon)
}

/// foreign functions of the bindings: ident -> last `#[link_name]`
fn foreign_fns(bindings: &str) -> Result<BTreeMap<String, Option<String>>, String> {
    let file = syn::parse_file(bindings).map_err(|e| format!("bindings do not parse: {e}"))?;
    let mut out = BTreeMap::new();
    fn walk(items: &[syn::Item], out: &mut BTreeMap<String, Option<String>>) {
        for it in items {
            match it {
                syn::Item::ForeignMod(fm) => {
                    for fi in &fm.items {
                        if let syn::ForeignItem::Fn(f) = fi {
                            let mut link = None;
                            for a in &f.attrs {
                                if a.path().is_ident("link_name") {
                                    if let syn::Meta::NameValue(nv) = &a.meta {
                                        if let syn::Expr::Lit(syn::ExprLit { lit: syn::Lit::Str(s), .. }) = &nv.value {
                                            // `link_name::<false>` prefixes the symbol with \u{1} (no further mangling)
                                            let v = s.value();
                                            link = Some(v.strip_prefix('\u{1}').map(|x| x.to_owned()).unwrap_or(v));
                                        }
                                    }
                                }
                            }
                            out.insert(f.sig.ident.to_string(), link);
                        }
                    }
                }
                syn::Item::Mod(m) => {
                    if let Some((_, items)) = &m.content {
                        walk(items, out);
                    }
                }
                _ => {}
            }
        }
    }
    walk(&file.items, &mut out);
    Ok(out)
}

fn run_bindgen(case: &Case, dir: &Path, wrap_path: &Path, clang_args: &[String], log: &Path, flags_desc: &mut Vec<String>) -> GenOut {
    let hpaths: Vec<String> = case.headers.iter().map(|(n, _)| dir.join(n).to_string_lossy().into_owned()).collect();
    let contents: Vec<usize> = contents_headers(case);
    for (i, (_, text)) in case.headers.iter().enumerate() {
        if !contents.contains(&i) {
            std::fs::write(&hpaths[i], text).unwrap();
        }
    }
    if case.mode == Mode::Path {
        let mut flags: Vec<String> = vec![hpaths[0].clone(), "--formatter".into(), if case.pretty { "prettyplease" } else { "none" }.into(), "--wrap-static-fns".into()];
        if case.experimental {
            flags.push("--experimental".into());
        }
        if let Some(s) = &case.suffix {
            flags.push("--wrap-static-fns-suffix".into());
            flags.push(s.clone());
        }
        flags.push("--wrap-static-fns-path".into());
        flags.push(wrap_path.to_string_lossy().into_owned());
        flags.push("--".into());
        flags.extend(clang_args.iter().cloned());
        *flags_desc = flags.clone();
        return drive::generate_with_flags(&flags, Some(log));
    }
    // library API
    let _ = std::fs::remove_file(log);
    std::env::set_var("BINDGEN_VERIF_LOG", log);
    flags_desc.push("Builder API".into());
    let r = std::panic::catch_unwind(std::panic::AssertUnwindSafe(|| {
        let mut b = bindgen::Builder::default();
        for (i, (_, text)) in case.headers.iter().enumerate() {
            if contents.contains(&i) {
                b = b.header_contents(&hpaths[i], text);
            } else {
                b = b.header(hpaths[i].clone());
            }
        }
        b = b.formatter(if case.pretty { bindgen::Formatter::Prettyplease } else { bindgen::Formatter::None });
        b = b.wrap_static_fns(true).wrap_static_fns_path(wrap_path);
        if let Some(s) = &case.suffix {
            b = b.wrap_static_fns_suffix(s);
        }
        b = b.clang_args(clang_args.iter());
        let out = b.generate().map_err(|e| format!("{e:?}"))?;
        Ok::<String, String>(out.to_string())
    }));
    std::env::remove_var("BINDGEN_VERIF_LOG");
    let logt = std::fs::read_to_string(log).ok();
    for (i, (n, _)) in case.headers.iter().enumerate() {
        flags_desc.push(format!("{}({n})", if contents.contains(&i) { "header_contents" } else { "header" }));
    }
    match r {
        Ok(Ok(s)) => GenOut { bindings: Some(s), error: None, panic: None, log: logt },
        Ok(Err(e)) => GenOut { bindings: None, error: Some(e), panic: None, log: logt },
        Err(p) => GenOut { bindings: None, error: None, panic: Some(p.downcast_ref::<String>().cloned().or_else(|| p.downcast_ref::<&str>().map(|s| s.to_string())).unwrap_or_default()), log: logt },
    }
}

pub fn contents_headers(case: &Case) -> Vec<usize> {
    match case.mode {
        Mode::Contents => (0..case.headers.len()).collect(),
        // unsaved files are `-include`d in front of the main header: the in-memory header comes first
        Mode::Mixed => vec![0],
        _ => vec![],
    }
}

/// the part of the wrapper file in front of the wrappers, as `utils::serialize_items` writes it:
/// `input_headers` as includes; `input_header_contents` has already been moved out of the options by
/// `Builder::generate` (`std::mem::take`), so nothing is inlined.
fn prelude(case: &Case, dir: &Path) -> String {
    let contents = contents_headers(case);
    let mut s = String::new();
    let paths: Vec<String> = case.headers.iter().enumerate().filter(|(i, _)| !contents.contains(i)).map(|(_, (n, _))| dir.join(n).to_string_lossy().into_owned()).collect();
    if !paths.is_empty() {
        for p in &paths {
            s.push_str(&format!("#include \"{p}\"\n"));
        }
        s.push('\n');
    }
    s.push_str("// Static wrappers\n\n");
    s
}

fn prepare(case: Case, a: bool, root: &Path, have_model: bool) -> Prep {
    let dir = root.join(format!("case{}", case.id));
    std::fs::create_dir_all(&dir).unwrap();
    let suffix = case.suffix.clone().unwrap_or_else(|| DEFAULT_SUFFIX.to_owned());
    let mut clang_args: Vec<String> = vec![];
    let any_hpp = case.headers.iter().any(|(n, _)| n.ends_with(".hpp"));
    if case.cpp && !any_hpp {
        clang_args.push("-x".into());
        clang_args.push("c++".into());
    }
    if !case.cpp && case.id % 3 == 0 {
        clang_args.push("-std=gnu11".into());
    }
    // custom --wrap-static-fns-path: plain stem, nested directories that do not exist yet, a stem with a dot
    // (bindgen replaces what follows the last dot with the extension, `Path::with_extension`)
    let wrap_base = dir.join(["wrappers", "out/static/fns", "w.gen", "extern_fns"][case.id % 4]);
    let wrapper_path = wrap_base.with_extension(if case.cpp { "cpp" } else { "c" });
    let log = dir.join("verif.log");
    let mut flags_desc = vec![];
    let gen = run_bindgen(&case, &dir, &wrap_base, &clang_args, &log, &mut flags_desc);
    let _ = std::fs::remove_file(&log);
    let wrapper_text = std::fs::read_to_string(&wrapper_path).ok();
    let mut p = Prep {
        contents_headers: contents_headers(&case),
        case, dir, a, suffix, clang_args, flags_desc, gen, wrapper_path, wrapper_text, expected_text: None, model_expects_error: false,
        fns: vec![], disagreements: vec![], ir_ast_mismatch: vec![],
    };
    if !have_model {
        // oracle-only mode (the model driver is not available): no expectations from the model
        if let Ok(ff) = foreign_fns(p.gen.bindings.as_deref().unwrap_or("")) {
            for (fi, f) in p.case.funcs.iter().enumerate() {
                let canon = if RUST_KEYWORDS.contains(&f.name.as_str()) { format!("{}_", f.name) } else { f.name.clone() };
                let mut fp = FnPrep { fi, in_ir: true, names_identical: true, ..Default::default() };
                fp.binding = ff.get(&canon).map(|l| (canon.clone(), l.clone()));
                fp.canon = canon;
                p.fns.push(fp);
            }
        }
        if let Some(w) = &p.wrapper_text {
            for fp in p.fns.iter_mut() {
                let needle = format!(" {}{}(", p.case.funcs[fp.fi].name, p.suffix);
                fp.line = w.lines().position(|l| l.contains(&needle) && !l.starts_with("#include") && !l.starts_with("//")).map(|k| k + 1);
            }
        }
        return p;
    }
    let irdump = p.gen.log.as_deref().map(bgverif::irdump::parse_log);
    let ir = irdump.as_ref().and_then(|l| l.dumps.last()).map(|d| ir::read(d));
    let Some(ir) = ir else {
        // no IR dump: generation failed during codegen (or the hook is off)
        if p.gen.ok() {
            p.disagreements.push(J::obj(vec![("class", J::s("no-ir-dump")), ("case", J::N(p.case.id as i64))]));
            return p;
        }
        // ask the model with the signatures of the generator's AST: does the serializer refuse a kind?
        let mut reqs = vec![];
        for f in p.case.funcs.iter().filter(|f| f.is_static() && !f.variadic) {
            let mut w = format!("cdecl wrap a=gen tds=- suffix={} name={} ret {} params (", p.suffix, f.name, enc(&f.ret));
            let ps: Vec<(Option<String>, Ty)> = f.params.iter().map(|q| (q.name.clone(), q.ty.clone())).collect();
            encode_params(&ps, &mut w);
            reqs.push(w);
        }
        let answers = if reqs.is_empty() { vec![] } else { util::model(&reqs) };
        p.model_expects_error = answers.iter().any(|a| a == "error");
        let is_ser = p.gen.error.as_deref().is_some_and(|e| e.contains("Serialize"));
        if p.model_expects_error != is_ser {
            p.disagreements.push(J::obj(vec![("class", J::s("serialize-error")), ("case", J::N(p.case.id as i64)), ("model_expects_error", J::B(p.model_expects_error)), ("implementation", J::S(format!("error={:?} panic={:?}", p.gen.error, p.gen.panic)))]));
        }
        return p;
    };
    let mut by_name: BTreeMap<&str, &ir::IrFn> = BTreeMap::new();
    for f in &ir.fns {
        by_name.entry(f.name.as_str()).or_insert(f);
    }
    // ---- requests
    let mut reqs: Vec<String> = vec![];
    let mut ir_bad: Vec<(usize, J)> = vec![];
    let tds = "myint,u8_t,real_t,cb_t,fn_t,anon_t,mode_e,va_list,__builtin_va_list";
    for (fi, f) in p.case.funcs.iter().enumerate() {
        let mut fp = FnPrep { fi, ..Default::default() };
        fp.canon = if RUST_KEYWORDS.contains(&f.name.as_str()) { format!("{}_", f.name) } else { f.name.clone() };
        if let Some(irf) = by_name.get(f.name.as_str()) {
            fp.in_ir = true;
            // cross-check the IR against the generator's AST
            let mut bad = vec![];
            if irf.internal != f.is_static() {
                bad.push(format!("linkage internal={} but declared {:?}", irf.internal, f.linkage));
            }
            if irf.variadic != f.variadic {
                bad.push("variadic flag".into());
            }
            if true_den(&irf.ret) != f.ret {
                bad.push(format!("return type: IR {} vs header {}", enc(&irf.ret), enc(&f.ret)));
            }
            if irf.params.len() != f.params.len() {
                bad.push("parameter count".into());
            } else {
                for (k, ((n, t), q)) in irf.params.iter().zip(&f.params).enumerate() {
                    if n != &q.name {
                        bad.push(format!("parameter {k} name {n:?} vs {:?}", q.name));
                    }
                    if true_den(t) != q.ty {
                        bad.push(format!("parameter {k}: IR {} vs header {}", enc(t), enc(&q.ty)));
                    }
                }
            }
            if !bad.is_empty() {
                ir_bad.push((fi, J::obj(vec![("class", J::s("ir-vs-header")), ("case", J::N(p.case.id as i64)), ("function", J::s(&prototype(f))), ("planted", J::strs(f.planted.iter().map(|s| s.to_string()))), ("differences", J::strs(bad))])));
            }
            let mangled = irf.mangled.clone();
            fp.names_identical = irf.link.is_none() && names_identical(&fp.canon, mangled.as_deref().unwrap_or(&f.name));
            fp.uses_bool = uses(&irf.ret, &|b| matches!(b, Base::Int(k) if k == "Bool")) || irf.params.iter().any(|(_, t)| uses(t, &|b| matches!(b, Base::Int(k) if k == "Bool")));
            fp.uses_complex = uses(&irf.ret, &|b| matches!(b, Base::Complex(_))) || irf.params.iter().any(|(_, t)| uses(t, &|b| matches!(b, Base::Complex(_))));
            reqs.push(format!(
                "cdecl codegen wrap=1 suffix={} name={} canon={} mangled={} link={} internal={} variadic={}",
                p.suffix, f.name, fp.canon, mangled.as_deref().unwrap_or("-"), irf.link.as_deref().unwrap_or("-"), irf.internal as u8, irf.variadic as u8
            ));
            let mut w = format!("cdecl wrap a=gen tds={tds} suffix={} name={} ret {} params (", p.suffix, f.name, enc(&irf.ret));
            encode_params(&irf.params, &mut w);
            reqs.push(w);
        }
        p.fns.push(fp);
    }
    let answers = if reqs.is_empty() { vec![] } else { util::model(&reqs) };
    let mut ai = 0;
    let mut defect_mismatch = vec![];
    for fp in p.fns.iter_mut() {
        if !fp.in_ir {
            continue;
        }
        let f = &p.case.funcs[fp.fi];
        let irf = by_name[f.name.as_str()];
        let cg = answers.get(ai).cloned().unwrap_or_default();
        let wr = answers.get(ai + 1).cloned().unwrap_or_default();
        ai += 2;
        if cg != "none" {
            let kv: BTreeMap<&str, &str> = cg.split(' ').filter_map(|t| t.split_once('=')).collect();
            let link = kv.get("link").filter(|l| **l != "-").map(|l| l.to_string());
            fp.model_binding = Some((kv.get("ident").unwrap_or(&"").to_string(), link, kv.get("wrapped") == Some(&"1")));
        }
        if wr == "error" {
            fp.model_error = true;
        } else if let Some(rest) = wr.strip_prefix("ok ") {
            let (head, text) = rest.split_once(" text=").unwrap_or((rest, ""));
            fp.model_text = Some(text.replace("\\n", "\n"));
            for t in head.split(' ') {
                if let Some(v) = t.strip_prefix("ret=") {
                    fp.ret_status = parse_status(v);
                } else if let Some(v) = t.strip_prefix("p=") {
                    if v != "-" {
                        fp.param_status = v.split(',').map(parse_status).collect();
                    }
                }
            }
            // the harness' own region predicate must agree with the Lean one
            let mine_ret = ret_defect(a, &irf.ret).map(|d| d.name().to_string());
            if mine_ret != fp.ret_status.defect {
                defect_mismatch.push(format!("{}: return: harness {:?} lean {:?}", f.name, mine_ret, fp.ret_status.defect));
            }
            for (k, (_, t)) in irf.params.iter().enumerate() {
                let mine = defect(a, Ctx::Direct, t).map(|d| d.name().to_string());
                let lean = fp.param_status.get(k).and_then(|s| s.defect.clone());
                if mine != lean {
                    defect_mismatch.push(format!("{}: parameter {k}: harness {:?} lean {:?}", f.name, mine, lean));
                }
            }
            // a declaration without a defect must round-trip, and the lexer must agree with the token view
            for (k, s) in std::iter::once(&fp.ret_status).chain(fp.param_status.iter()).enumerate() {
                if (s.defect.is_none() && !s.rt_ok) || !s.lex_ok {
                    p.disagreements.push(J::obj(vec![("class", J::s("model-self-check")), ("case", J::N(p.case.id as i64)), ("function", J::s(&prototype(f))), ("slot", J::N(k as i64)), ("rt_ok", J::B(s.rt_ok)), ("lex_ok", J::B(s.lex_ok))]));
                }
            }
        } else {
            p.disagreements.push(J::obj(vec![("class", J::s("model-bad-answer")), ("case", J::N(p.case.id as i64)), ("answer", J::s(&clip(&wr, 200)))]));
        }
    }
    // the IR (bindgen's parser, not modelled) misreads some declarators; inside a defect region of the
    // printer this is only counted, elsewhere it is a disagreement
    for (fi, j) in ir_bad {
        let irf = by_name[p.case.funcs[fi].name.as_str()];
        let in_region = ret_defect(a, &irf.ret).is_some() || irf.params.iter().any(|(_, t)| defect(a, Ctx::Direct, t).is_some());
        if in_region || !p.case.funcs[fi].is_static() {
            p.ir_ast_mismatch.push(j);
        } else {
            p.disagreements.push(j);
        }
    }
    for d in defect_mismatch {
        p.disagreements.push(J::obj(vec![("class", J::s("region-predicate")), ("case", J::N(p.case.id as i64)), ("detail", J::S(d))]));
    }
    // ---- expected wrapper file (model) vs emitted
    let mut order: Vec<(u64, usize)> = p.fns.iter().enumerate().filter(|(_, fp)| fp.in_ir && fp.model_binding.as_ref().is_some_and(|b| b.2)).map(|(k, fp)| (by_name[p.case.funcs[fp.fi].name.as_str()].id, k)).collect();
    order.sort();
    p.model_expects_error = order.iter().any(|(_, k)| p.fns[*k].model_error);
    if !order.is_empty() && !p.model_expects_error {
        let mut t = prelude(&p.case, &p.dir);
        for (_, k) in &order {
            t.push_str(p.fns[*k].model_text.as_deref().unwrap_or(""));
        }
        p.expected_text = Some(t);
    }
    let cid = J::N(p.case.id as i64);
    if p.model_expects_error {
        let is_ser = p.gen.error.as_deref().is_some_and(|e| e.contains("Serialize") || e.contains("Codegen"));
        if !is_ser {
            p.disagreements.push(J::obj(vec![("class", J::s("serialize-error")), ("case", cid.clone()), ("model", J::s("CodegenError::Serialize")), ("implementation", J::S(format!("ok={} error={:?} panic={:?}", p.gen.ok(), p.gen.error, p.gen.panic)))]));
        }
    } else if !p.gen.ok() {
        p.disagreements.push(J::obj(vec![("class", J::s("generation-failed")), ("case", cid.clone()), ("model", J::s("bindings")), ("implementation", J::S(format!("error={:?} panic={:?}", p.gen.error, p.gen.panic)))]));
    } else {
        if p.expected_text != p.wrapper_text {
            let (e, w) = (p.expected_text.clone().unwrap_or_default(), p.wrapper_text.clone().unwrap_or_default());
            let first = e.lines().zip(w.lines()).position(|(x, y)| x != y).unwrap_or_else(|| e.lines().count().min(w.lines().count()));
            p.disagreements.push(J::obj(vec![
                ("class", J::s("wrapper-text")), ("case", cid.clone()),
                ("file_expected", J::B(p.expected_text.is_some())), ("file_present", J::B(p.wrapper_text.is_some())),
                ("line", J::N(first as i64 + 1)),
                ("model", J::S(clip(e.lines().nth(first).unwrap_or("<eof>"), 400))),
                ("implementation", J::S(clip(w.lines().nth(first).unwrap_or("<eof>"), 400))),
            ]));
        }
        match foreign_fns(p.gen.bindings.as_deref().unwrap_or("")) {
            Err(e) => p.disagreements.push(J::obj(vec![("class", J::s("bindings-unparsable")), ("case", cid.clone()), ("detail", J::S(e))])),
            Ok(ff) => {
                for fp in p.fns.iter_mut() {
                    let f = &p.case.funcs[fp.fi];
                    if !fp.in_ir || f.linkage == Linkage::ExternInline {
                        continue;
                    }
                    let model = fp.model_binding.as_ref().map(|(i, l, _)| (i.clone(), l.clone()));
                    let imp = model.as_ref().and_then(|(i, _)| ff.get(i).map(|l| (i.clone(), l.clone()))).or_else(|| ff.get(&fp.canon).map(|l| (fp.canon.clone(), l.clone())));
                    fp.binding = imp.clone();
                    if model != imp {
                        p.disagreements.push(J::obj(vec![("class", J::s("binding-decision")), ("case", cid.clone()), ("function", J::s(&prototype(f))), ("model", J::S(format!("{model:?}"))), ("implementation", J::S(format!("{imp:?}")))]));
                    }
                }
            }
        }
        // line of each wrapper in the emitted file
        if let Some(w) = &p.wrapper_text {
            for fp in p.fns.iter_mut() {
                let f = &p.case.funcs[fp.fi];
                let needle = format!(" {}{}(", f.name, p.suffix);
                fp.line = w.lines().position(|l| l.contains(&needle) && !l.starts_with("#include") && !l.starts_with("//")).map(|k| k + 1);
            }
        }
    }
    p
}

fn main() {
    let args = Args::parse();
    drive::quiet_panics();
    let thorough = args.thorough();
    let mut n_cases: usize = if thorough { 1500 } else { 120 };
    let mut only: Option<usize> = None;
    let mut it = args.extra.iter();
    while let Some(a) = it.next() {
        match a.as_str() {
            "--cases" => n_cases = it.next().and_then(|v| v.parse().ok()).unwrap_or(n_cases),
            "--case" => only = it.next().and_then(|v| v.parse().ok()),
            _ => {}
        }
    }
    let have_model = std::env::var("C16_NO_MODEL").is_err();
    let a = if have_model {
        let arms = util::model(&["cdecl arms".to_owned()]);
        arms.first().map(|s| s.trim() == "a=1").unwrap_or(false)
    } else {
        false
    };
    let root = args.out.join("work");
    std::fs::create_dir_all(&root).unwrap();
    let mut master = Rng::new(args.seed);
    let mut preps = vec![];
    for id in 0..n_cases {
        let mut r = master.fork();
        if only.is_some_and(|o| o != id) {
            continue;
        }
        let case = gen_case(&mut r, id, thorough);
        preps.push(prepare(case, a, &root, have_model));
    }
    // the `wrap_as_variadic` cases (ids from VA_CASE_BASE, their own PRNG stream derived from the seed)
    #[cfg(feature = "va")]
    let va_results = {
        let n_va: usize = if thorough { 300 } else { 26 };
        let mut vmaster = Rng::new(args.seed ^ 0x5641_5f43_3136);
        let mut vpreps = vec![];
        for k in 0..n_va {
            let mut r = vmaster.fork();
            let id = va::VA_CASE_BASE + k;
            if only.is_some_and(|o| o != id) {
                continue;
            }
            vpreps.push(va::prepare(va::gen_case(&mut r, id), &root, have_model));
        }
        va::run_all(&vpreps, only.is_some())
    };
    #[cfg(not(feature = "va"))]
    let va_results = oracle::VaResults::default();
    let link_budget_cpp = if thorough { 4 } else { 1 };
    let outs = oracle::run_all(&preps, link_budget_cpp, only.is_some());
    let report = oracle::report(&args, a, &preps, &outs, &va_results);
    util::write(&args.out.join("report.json"), &report.text());
    if only.is_some() {
        for (p, o) in preps.iter().zip(&outs) {
            oracle::print_replay(p, o);
        }
    }
    let _ = std::fs::remove_dir_all(&root);
    let _ = BTreeSet::<u8>::new();
}
