//! C05 — constants carry the C compiler's value in a type that can hold it.
//!
//! For generated headers (macros / enums / const variables) this driver
//!  1. asks the Lean model (`bgmodel`, ops `c05 m|e|v`) what bindgen will emit and what C computes,
//!  2. runs the real bindgen in-process under every option set and compares the syn inventory of
//!     its output with the model's prediction (CORRESPONDENCE),
//!  3. compiles a clang probe printing every constant's C type and value, and a rustc probe
//!     printing every emitted constant as i128 / f64 bits / bytes with size and signedness (ORACLE),
//!  4. classifies every oracle mismatch by the known-finding regions (computed here and,
//!     independently, by the Lean model — the two must agree), and reports anything else.
use bgverif::c05gen::*;
use bgverif::c05inv::*;
use bgverif::drive::*;
use bgverif::rng::Rng;
use bgverif::util::*;
use std::collections::{BTreeMap, HashMap, HashSet};
use std::process::Command;

// ---------------------------------------------------------------- bookkeeping

#[derive(Default)]
struct Rep {
    counts: BTreeMap<String, u64>,
    kinds: HashMap<String, u64>,
    distinct: HashSet<String>,
    samples: Vec<J>,
    /// implementation-vs-oracle failures outside every region (or with an unpredicted value)
    oracle_failures: Vec<J>,
    /// model-vs-implementation disagreements
    corr_failures: Vec<J>,
    /// C model (cEval) vs clang disagreements
    cmodel_failures: Vec<J>,
    /// region predicate computed in Lean vs in this harness
    region_failures: Vec<J>,
    /// known-finding region id → (hits, first sample)
    known: BTreeMap<String, (u64, J)>,
    machinery: Vec<String>,
}

impl Rep {
    fn inc(&mut self, k: &str) { *self.counts.entry(k.to_string()).or_insert(0) += 1; }
    fn add(&mut self, k: &str, n: u64) { *self.counts.entry(k.to_string()).or_insert(0) += n; }
    fn known_hit(&mut self, id: &str, sample: J) {
        let e = self.known.entry(id.to_string()).or_insert((0, sample));
        e.0 += 1;
    }
}

fn push_cap(v: &mut Vec<J>, j: J) { if v.len() < 20 { v.push(j); } }

// ---------------------------------------------------------------- model access

#[derive(Clone, Debug)]
struct MItem { name: String, outcome: String, emit: String, cval: String, flags: String }

fn query_macros(defs: &[(String, E)], sg: bool, fit: bool, fb: bool) -> Vec<MItem> { query_macros_c(defs, sg, fit, fb, false) }

fn query_macros_c(defs: &[(String, E)], sg: bool, fit: bool, fb: bool, cstr: bool) -> Vec<MItem> {
    if defs.is_empty() { return vec![]; }
    let mut line = format!("c05 m sg={} fit={} fb={} cstr={}", sg as u8, fit as u8, fb as u8, cstr as u8);
    for (n, e) in defs { line.push(' '); line.push_str(n); line.push('='); line.push_str(&e.to_proto()); }
    let ans = model(&[line]);
    let a = ans.first().cloned().unwrap_or_default();
    let items: Vec<MItem> = a.split(' ').filter(|s| !s.is_empty()).map(|it| {
        let p: Vec<&str> = it.split('|').collect();
        if p.len() != 5 { return MItem { name: "?".into(), outcome: it.to_string(), emit: String::new(), cval: String::new(), flags: String::new() }; }
        MItem { name: p[0].into(), outcome: p[1].into(), emit: p[2].into(), cval: p[3].into(), flags: p[4].into() }
    }).collect();
    assert!(items.len() == defs.len(), "model answered {} items for {} definitions: {}", items.len(), defs.len(), &a[..a.len().min(300)]);
    items
}

fn cval_is_value(c: &str) -> bool { c.starts_with("i:") || c.starts_with("f:") || c.starts_with("s:") }

fn cval_type(c: &str) -> Option<CTy> {
    let p: Vec<&str> = c.split(':').collect();
    if p.len() == 3 && (p[0] == "i" || p[0] == "f") { CTy::from_proto(p[1]) } else { None }
}

// ---------------------------------------------------------------- header construction

fn header_text(defs: &[(String, E)]) -> String {
    let mut seen: HashSet<&str> = HashSet::new();
    let mut s = String::new();
    for (n, e) in defs {
        if !seen.insert(n.as_str()) { s.push_str(&format!("#undef {n}\n")); }
        s.push_str(&format!("#define {n} {}\n", e.to_c()));
    }
    s
}

fn all_ok(items: &[MItem]) -> bool {
    items.iter().all(|m| cval_is_value(&m.cval) && m.outcome != "panic" && m.outcome != "unmodelled" && m.emit != "nokind")
}

/// Build one header: rounds of candidates filtered by the model (C value defined, no cexpr
/// panic), then redefinitions inserted one at a time.
fn build_header(r: &mut Rng, target: usize, rep: &mut Rep) -> Vec<(String, E)> {
    let mut defs: Vec<(String, E)> = vec![];
    let mut items: Vec<MItem> = vec![];
    let mut next_id = 0usize;
    let rounds = 4;
    for round in 0..rounds {
        let numeric: Vec<(String, CTy)> = items.iter().filter(|m| m.cval.starts_with("i:") || m.cval.starts_with("f:"))
            .filter(|m| !m.cval.starts_with("f:ldouble"))
            .filter_map(|m| cval_type(&m.cval).map(|t| (m.name.clone(), t))).collect();
        let strings: Vec<String> = items.iter().filter(|m| m.outcome.starts_with("str:")).map(|m| m.name.clone()).collect();
        let chars: Vec<String> = items.iter().filter(|m| m.outcome.starts_with("chr:")).map(|m| m.name.clone()).collect();
        let mut pool = Pool { numeric: &numeric, strings: &strings, chars: &chars, unsigned_ok: true };
        let signed_numeric: Vec<(String, CTy)> = numeric.iter().filter(|(n, t)| !t.is_unsigned_int() && items.iter().any(|m| &m.name == n && m.flags == "-")).cloned().collect();
        let want = target / rounds + 8;
        let mut cands: Vec<(String, E)> = vec![];
        for _ in 0..want {
            let mode = match r.below(20) { 0..=9 => Mode::CexprInt, 10..=12 => Mode::CexprFloat, 13..=16 => Mode::Full, _ => Mode::CharStr };
            // half of the bodies stay inside the signed fragment (no u suffix, only untainted signed names)
            let signed_only = r.chance(1, 2);
            pool.unsigned_ok = !signed_only;
            pool.numeric = if signed_only { &signed_numeric } else { &numeric };
            let e = gen_body(r, mode, &pool);
            cands.push((format!("M{next_id}"), e));
            next_id += 1;
        }
        let mut all = defs.clone();
        all.extend(cands.iter().cloned());
        let ans = query_macros(&all, false, false, false);
        let base_len = defs.len();
        for (i, c) in cands.into_iter().enumerate() {
            let m = &ans[base_len + i];
            rep.inc("macro_candidates");
            if m.outcome == "panic" || m.outcome == "unmodelled" { rep.inc("macro_candidates_rejected_cexpr_panic"); continue; }
            if !cval_is_value(&m.cval) { rep.inc(&format!("macro_candidates_rejected_c_{}", m.cval)); continue; }
            let _ = round;
            defs.push(c);
        }
        items = query_macros(&defs, false, false, false);
        assert!(all_ok(&items), "accepted definitions must keep a C value");
    }
    // redefinitions
    let n_redef = target / 12;
    for _ in 0..n_redef {
        if defs.len() < 4 { break; }
        let first_pos: HashMap<String, usize> = { let mut m = HashMap::new(); for (i, (n, _)) in defs.iter().enumerate() { m.entry(n.clone()).or_insert(i); } m };
        let victim = defs[r.below(defs.len() as u64) as usize].0.clone();
        let fp = first_pos[&victim];
        // pool: names whose FIRST definition precedes the victim's first definition
        let early: HashSet<&String> = first_pos.iter().filter(|(_, &p)| p < fp).map(|(n, _)| n).collect();
        let numeric: Vec<(String, CTy)> = items.iter().filter(|m| early.contains(&m.name)).filter(|m| !m.cval.starts_with("f:ldouble"))
            .filter_map(|m| cval_type(&m.cval).map(|t| (m.name.clone(), t))).collect();
        let strings: Vec<String> = items.iter().filter(|m| early.contains(&m.name) && m.outcome.starts_with("str:")).map(|m| m.name.clone()).collect();
        let chars: Vec<String> = vec![];
        let pool = Pool { numeric: &numeric, strings: &strings, chars: &chars, unsigned_ok: r.chance(1, 2) };
        let mode = match r.below(10) { 0..=6 => Mode::CexprInt, 7 => Mode::CexprFloat, 8 => Mode::Full, _ => Mode::CharStr };
        let body = gen_body(r, mode, &pool);
        let pos = r.range(fp as u64 + 1, defs.len() as u64) as usize;
        let mut trial = defs.clone();
        trial.insert(pos, (victim.clone(), body));
        let ans = query_macros(&trial, false, false, false);
        rep.inc("macro_redefinition_candidates");
        if all_ok(&ans) { defs = trial; items = ans; rep.inc("macro_redefinitions"); }
    }
    defs
}

// ---------------------------------------------------------------- probes

const C_PROBE_PRELUDE: &str = r#"
#include <stdio.h>
#include <string.h>
static void bgv_pr(const char *n, int tid, int neg, unsigned long long iv, double dv, float fv, const unsigned char *sp, unsigned long sz) {
  unsigned long long db; unsigned fb; memcpy(&db, &dv, 8); memcpy(&fb, &fv, 4);
  printf("%s %d %d %llu %016llx %08x ", n, tid, neg, iv, db, fb);
  if (sp) { for (unsigned long i = 0; i < sz; i++) printf("%02x", sp[i]); } else printf("-");
  printf("\n");
}
#define BGV_PTRS(sel, other) char*:sel, const char*:sel, int*:sel, const int*:sel, unsigned short*:sel, const unsigned short*:sel, unsigned int*:sel, const unsigned int*:sel, unsigned char*:sel, const unsigned char*:sel, default:other
#define BGV_TID(e) _Generic((e), _Bool:1, char:2, signed char:3, unsigned char:4, short:5, unsigned short:6, int:7, unsigned int:8, long:9, unsigned long:10, long long:11, unsigned long long:12, float:13, double:14, long double:15, char*:16, const char*:16, int*:17, const int*:17, unsigned short*:18, const unsigned short*:18, unsigned int*:19, const unsigned int*:19, unsigned char*:20, const unsigned char*:20, default:0)
#define BGV_NUM(e) _Generic((e), BGV_PTRS(0, (e)))
#define BGV_ISFLT(e, f, other) _Generic((e), float:f, double:f, long double:f, default:other)
#define BGV_IV(e) ((unsigned long long)BGV_ISFLT(e, 0, BGV_NUM(e)))
#define BGV_NEG(e) ((int)(BGV_NUM(e) < 0))
#define BGV_DV(e) ((double)BGV_ISFLT(e, (e), 0.0))
#define BGV_FV(e) ((float)_Generic((e), float:(e), default:0.0f))
#define BGV_SP(e) ((const unsigned char*)_Generic((e), BGV_PTRS((e), (const void*)0)))
#define BGV_P(N) bgv_pr(#N, BGV_TID(N), BGV_NEG(N), BGV_IV(N), BGV_DV(N), BGV_FV(N), BGV_SP(N), sizeof(N));
"#;

#[derive(Clone, Debug, PartialEq)]
enum CV { Int { ty: CTy, v: i128 }, Flt { ty: CTy, b64: u64, b32: u32 }, Str { tid: u32, bytes: Vec<u8> }, Unknown(String) }

fn tid_ty(t: u32) -> Option<CTy> {
    Some(match t { 1 => CTy::Bool, 2 => CTy::Char, 3 => CTy::SChar, 4 => CTy::UChar, 5 => CTy::Short, 6 => CTy::UShort, 7 => CTy::Int, 8 => CTy::UInt,
        9 => CTy::Long, 10 => CTy::ULong, 11 => CTy::LLong, 12 => CTy::ULLong, 13 => CTy::Float, 14 => CTy::Double, 15 => CTy::LDouble, _ => return None })
}

fn unhex(s: &str) -> Vec<u8> {
    if s == "-" { return vec![]; }
    (0..s.len() / 2).map(|i| u8::from_str_radix(&s[2 * i..2 * i + 2], 16).unwrap_or(0)).collect()
}

fn parse_c_probe(out: &str) -> HashMap<String, CV> {
    let mut m = HashMap::new();
    for l in out.lines() {
        let p: Vec<&str> = l.split(' ').collect();
        if p.len() != 7 { continue; }
        let tid: u32 = p[1].parse().unwrap_or(0);
        let iv: u64 = p[3].parse().unwrap_or(0);
        let cv = match tid {
            1..=12 => { let ty = tid_ty(tid).unwrap(); CV::Int { ty, v: if ty.signed() { iv as i64 as i128 } else { iv as i128 } } }
            13..=15 => CV::Flt { ty: tid_ty(tid).unwrap(), b64: u64::from_str_radix(p[4], 16).unwrap_or(0), b32: u32::from_str_radix(p[5], 16).unwrap_or(0) },
            16..=20 => CV::Str { tid, bytes: unhex(p[6]) },
            _ => CV::Unknown(l.to_string()),
        };
        m.insert(p[0].to_string(), cv);
    }
    m
}

fn run_c_probe(scratch: &Scratch, tag: &str, header: &str, names: &[String], cxx: bool) -> Result<HashMap<String, CV>, String> {
    let mut src = String::from(C_PROBE_PRELUDE);
    src.push_str(&format!("#include \"{header}\"\nint main(void) {{\n"));
    for n in names { src.push_str(&format!("BGV_P({n})\n")); }
    src.push_str("return 0; }\n");
    let _ = cxx;
    let f = scratch.path(&format!("{tag}.c"));
    std::fs::write(&f, src).unwrap();
    let exe = scratch.path(&format!("{tag}_c"));
    let (rc, _o, e) = run(Command::new("clang").args(["-std=gnu11", "-w", "-O0", "-I"]).arg(&scratch.0).arg(&f).arg("-o").arg(&exe));
    if rc != 0 { return Err(format!("clang failed: {}", &e[..e.len().min(1500)])); }
    let (rc, o, e) = run_exe(&exe);
    if rc != 0 { return Err(format!("C probe exited {rc}: {e}")); }
    Ok(parse_c_probe(&o))
}

const RUST_PROBE_PRELUDE: &str = r#"
#![allow(warnings)]
#![deny(overflowing_literals)]
trait Pv { fn pv(&self) -> String; }
macro_rules! ipv { ($($t:ty, $s:expr);*) => { $(impl Pv for $t { fn pv(&self) -> String { format!("i {} {} {}", *self as i128, std::mem::size_of::<$t>(), $s) } })* } }
ipv!(i8, 1; i16, 1; i32, 1; i64, 1; i128, 1; isize, 1; u8, 0; u16, 0; u32, 0; u64, 0; u128, 0; usize, 0);
impl Pv for bool { fn pv(&self) -> String { format!("i {} 1 0", *self as i128) } }
impl Pv for f64 { fn pv(&self) -> String { format!("f {:016x} 8 1", self.to_bits()) } }
impl Pv for f32 { fn pv(&self) -> String { format!("f {:016x} 4 1", (*self as f64).to_bits()) } }
impl<const N: usize> Pv for &[u8; N] { fn pv(&self) -> String { let mut s = String::from("s "); if N == 0 { s.push('-'); } for b in self.iter() { s.push_str(&format!("{:02x}", b)); } s.push_str(&format!(" {} 0", N)); s } }
impl Pv for &std::ffi::CStr { fn pv(&self) -> String { let b = self.to_bytes_with_nul(); let mut s = String::from("s "); for x in b { s.push_str(&format!("{:02x}", x)); } s.push_str(&format!(" {} 0", b.len())); s } }
"#;

#[derive(Clone, Debug, PartialEq)]
enum RV { Int { v: i128, size: u32, signed: bool }, Flt { b64: u64, size: u32 }, Str(Vec<u8>), Unknown(String) }

/// `mods`: (module name, bindings text, [(label, expression relative to the module, is_enum_cast)])
fn run_rust_probe(scratch: &Scratch, tag: &str, mods: &[(String, String, Vec<(String, String)>)]) -> Result<HashMap<String, RV>, String> {
    let mut src = String::from(RUST_PROBE_PRELUDE);
    for (m, text, _) in mods { src.push_str(&format!("pub mod {m} {{\n{text}\n}}\n")); }
    src.push_str("fn main() {\n");
    for (m, _, exprs) in mods {
        for (label, ex) in exprs { src.push_str(&format!("println!(\"{m}/{label} {{}}\", {ex});\n")); }
    }
    src.push_str("}\n");
    // not `drive::rustc_bin`: that caps lints, and `overflowing_literals` (deny by default) is exactly
    // how rustc says "this type cannot hold this literal"
    let f = scratch.path(&format!("{tag}.rs"));
    std::fs::write(&f, &src).unwrap();
    let exe = scratch.path(tag);
    let (rc, _o, e) = run(Command::new("rustc").args(["--edition", "2021", "-C", "opt-level=0", "-C", "debuginfo=0", "-o"]).arg(&exe).arg(&f));
    if rc != 0 { return Err(format!("rustc failed: {}", &e[..e.len().min(2500)])); }
    let (rc, o, e) = run_exe(&exe);
    if rc != 0 { return Err(format!("rust probe exited {rc}: {e}")); }
    let mut out = HashMap::new();
    for l in o.lines() {
        let p: Vec<&str> = l.split(' ').collect();
        if p.len() != 5 { continue; }
        let rv = match p[1] {
            "i" => RV::Int { v: p[2].parse().unwrap_or(0), size: p[3].parse().unwrap_or(0), signed: p[4] == "1" },
            "f" => RV::Flt { b64: u64::from_str_radix(p[2], 16).unwrap_or(0), size: p[3].parse().unwrap_or(0) },
            "s" => RV::Str(unhex(p[2])),
            _ => RV::Unknown(l.to_string()),
        };
        out.insert(p[0].to_string(), rv);
    }
    Ok(out)
}

/// does the emitted Rust constant carry the C value (and can the type hold it with the same sign)?
fn same_value(c: &CV, r: &RV) -> bool {
    match (c, r) {
        (CV::Int { v, .. }, RV::Int { v: rv, signed, .. }) => v == rv && (*v >= 0 || *signed),
        (CV::Flt { b64, .. }, RV::Flt { b64: rb, .. }) => b64 == rb || (f64::from_bits(*b64).is_nan() && f64::from_bits(*rb).is_nan()),
        (CV::Str { bytes, .. }, RV::Str(rb)) => bytes == rb,
        _ => false,
    }
}

fn cv_text(c: &CV) -> String {
    match c {
        CV::Int { ty, v } => format!("{} {}", ty.c_name(), v),
        CV::Flt { ty, b64, .. } => format!("{} {:?} (bits {:016x})", ty.c_name(), f64::from_bits(*b64), b64),
        CV::Str { tid, bytes } => format!("string(tid {tid}) bytes {}", bytes.iter().map(|b| format!("{b:02x}")).collect::<String>()),
        CV::Unknown(s) => s.clone(),
    }
}
fn rv_text(r: &RV) -> String {
    match r {
        RV::Int { v, size, signed } => format!("{}{} {}", if *signed { "i" } else { "u" }, size * 8, v),
        RV::Flt { b64, size } => format!("f{} {:?} (bits {:016x})", size * 8, f64::from_bits(*b64), b64),
        RV::Str(b) => format!("bytes {}", b.iter().map(|x| format!("{x:02x}")).collect::<String>()),
        RV::Unknown(s) => s.clone(),
    }
}

/// does the Lean C model's value agree with what clang printed?
fn cmodel_agrees(lean: &str, c: &CV) -> bool {
    let p: Vec<&str> = lean.split(':').collect();
    match (p.as_slice(), c) {
        (["i", ty, v], CV::Int { ty: cty, v: cv }) => *ty == cty.proto() && v.parse::<i128>().ok() == Some(*cv),
        (["f", "float", b], CV::Flt { ty: CTy::Float, b32, .. }) => (*b == "nan" && f32::from_bits(*b32).is_nan()) || u32::from_str_radix(b, 16).ok() == Some(*b32),
        (["f", "double", b], CV::Flt { ty: CTy::Double, b64, .. }) => (*b == "nan" && f64::from_bits(*b64).is_nan()) || u64::from_str_radix(b, 16).ok() == Some(*b64),
        // long double: the model carries the nearest double; compare after conversion to double
        (["f", "ldouble", b], CV::Flt { ty: CTy::LDouble, b64, .. }) => u64::from_str_radix(b, 16).ok() == Some(*b64),
        (["s", pre, h], CV::Str { tid, bytes }) => {
            let unit = match *pre { "L" | "U" => 4usize, "u" => 2, _ => 1 };
            let want_tid = match *pre { "L" => 17, "U" => 19, "u" => 18, _ => 16 };
            let mut b = vec![];
            for x in unhex(h) { b.push(x); for _ in 1..unit { b.push(0); } }
            for _ in 0..unit { b.push(0); }
            *tid == want_tid && &b == bytes
        }
        _ => false,
    }
}

// ---------------------------------------------------------------- macros

struct OptSet { sg: bool, fit: bool, fb: bool, cstr: bool }
impl OptSet {
    fn flags(&self) -> Vec<&'static str> {
        let mut v = vec![];
        if self.sg { v.extend(["--default-macro-constant-type", "signed"]); }
        if self.fit { v.push("--fit-macro-constant-types"); }
        if self.fb { v.push("--clang-macro-fallback"); }
        if self.cstr { v.push("--generate-cstr"); }
        v
    }
    fn tag(&self) -> String { format!("sg{}fit{}{}fb{}", self.sg as u8, self.fit as u8, if self.cstr { "cstr" } else { "" }, self.fb as u8) }
}

const REGION_IDS: [(char, &str); 6] = [('u', "macro_unsigned_wrap"), ('c', "macro_char_sign"), ('r', "macro_redefinition"), ('f', "macro_float_suffix"), ('w', "macro_wide_string"), ('p', "macro_open_reference")];

/// the definition together with everything it (transitively) references — a small reproducer
fn slice_header(defs: &[(String, E)], name: &str) -> String {
    let mut need: HashSet<String> = HashSet::new();
    let mut stack = vec![name.to_string()];
    while let Some(n) = stack.pop() {
        if !need.insert(n.clone()) { continue; }
        for (m, b) in defs { if *m == n { let mut r = vec![]; b.refs(&mut r); stack.extend(r); } }
    }
    let sub: Vec<(String, E)> = defs.iter().filter(|(n, _)| need.contains(n)).cloned().collect();
    header_text(&sub)
}

fn macro_header_case(scratch: &Scratch, case: &str, defs: &[(String, E)], optsets: &[OptSet], rep: &mut Rep) {
    let text = header_text(defs);
    let hname = format!("{case}.h");
    std::fs::write(scratch.path(&hname), &text).unwrap();
    rep.inc("macro_headers");
    rep.add("macro_definitions", defs.len() as u64);
    for (_, e) in defs { e.kinds(&mut rep.kinds); rep.distinct.insert(format!("m:{}", e.to_proto())); }

    // model: C values + regions (option independent)
    let base = query_macros(defs, false, false, false);
    // region predicates: harness mirror vs Lean
    let mut tenv: HashMap<String, CTy> = HashMap::new();
    for m in &base { if let Some(t) = cval_type(&m.cval) { tenv.insert(m.name.clone(), t); } }
    let my_flags = def_flags(&tenv, defs);
    for (i, m) in base.iter().enumerate() {
        if m.flags == "-" && m.outcome.starts_with("int:") { rep.inc("macro_defs_in_theorem_fragment(signed,no-UB,cexpr-parsable)"); }
        if m.flags != "-" { rep.inc("macro_defs_in_some_region"); }
        let k = m.outcome.split(':').next().unwrap_or("?"); rep.inc(&format!("cexpr_outcome_{k}"));
        rep.inc("region_predicates_compared");
        if my_flags[i].text() != m.flags {
            push_cap(&mut rep.region_failures, J::obj(vec![("definition", J::s(format!("#define {} {}", defs[i].0, defs[i].1.to_c()))), ("lean", J::s(&m.flags)), ("harness", J::s(my_flags[i].text()))]));
        }
    }
    // C oracle
    let mut first_names: Vec<String> = vec![];
    for (n, _) in defs { if !first_names.contains(n) { first_names.push(n.clone()); } }
    let cvals = match run_c_probe(scratch, &format!("{case}_probe"), &hname, &first_names, false) {
        Ok(v) => v,
        Err(e) => { rep.machinery.push(format!("{case}: {e}")); return; }
    };
    // C model vs clang
    let mut last_item: HashMap<&str, &MItem> = HashMap::new();
    for m in &base { last_item.insert(m.name.as_str(), m); }
    for n in &first_names {
        let m = last_item[n.as_str()];
        // a name that references an OPEN name has no value in the C model by design (textual re-association)
        if !cval_is_value(&m.cval) && m.flags.contains('p') { rep.inc("c_model_no_value_open_reference"); continue; }
        rep.inc("c_model_vs_clang_compared");
        match cvals.get(n) {
            Some(c) if cmodel_agrees(&m.cval, c) => {}
            other => push_cap(&mut rep.cmodel_failures, J::obj(vec![("header", J::s(slice_header(defs, n))), ("name", J::s(n)), ("lean_cEval", J::s(&m.cval)), ("clang", J::s(other.map(cv_text).unwrap_or("missing".into())))])),
        }
    }

    // real bindgen under every option set
    let mut mods: Vec<(String, String, Vec<(String, String)>)> = vec![];
    let mut emitted_by_set: Vec<(String, BTreeMap<String, String>, BTreeMap<String, String>, HashMap<String, String>)> = vec![]; // (tag, actual, predicted, region flags of the emitted definition)
    for os in optsets {
        let pred_items = query_macros_c(defs, os.sg, os.fit, os.fb, os.cstr);
        let mut predicted: BTreeMap<String, String> = BTreeMap::new();
        let mut flagmap: HashMap<String, String> = HashMap::new();
        for m in &pred_items { if m.emit != "-" && m.emit != "dup" { predicted.insert(m.name.clone(), m.emit.clone()); flagmap.insert(m.name.clone(), m.flags.clone()); } }
        let out = generate_text(scratch, &hname, &text, &os.flags(), &[], false);
        rep.inc("bindgen_runs");
        let Some(b) = out.bindings else {
            push_cap(&mut rep.corr_failures, J::obj(vec![("header", J::s(&text)), ("options", J::s(os.tag())), ("implementation", J::s(format!("no bindings: error={:?} panic={:?}", out.error, out.panic))), ("model", J::s("bindings"))]));
            continue;
        };
        let inv = match inventory(&b) { Ok(i) => i, Err(e) => { rep.machinery.push(format!("{case}: {e}")); continue; } };
        let mut actual: BTreeMap<String, String> = BTreeMap::new();
        for c in &inv.consts {
            let t = match &c.val {
                Val::Bytes(bs) => { if c.ty != format!("&[u8;{}]", bs.len()) { format!("badlen {}", c.ty) } else { "str".into() } }
                Val::CStr(_) => { if c.ty == "&::std::ffi::CStr" { "cstr".into() } else { format!("badty {}", c.ty) } }
                _ => c.ty.clone() };
            actual.insert(c.name.clone(), format!("{}:{}", t, c.val.text()));
        }
        // correspondence
        let names: HashSet<&String> = actual.keys().chain(predicted.keys()).collect();
        for n in names {
            rep.inc("correspondence_compared");
            let (a, p) = (actual.get(n), predicted.get(n));
            if a != p {
                push_cap(&mut rep.corr_failures, J::obj(vec![("header", J::s(slice_header(defs, n))), ("options", J::s(os.tag())), ("name", J::s(n)),
                    ("implementation", J::s(a.cloned().unwrap_or("(nothing emitted)".into()))), ("model", J::s(p.cloned().unwrap_or("(nothing emitted)".into())))]));
            }
        }
        for m in &pred_items { let k = if m.emit == "-" { "macro_omitted" } else if m.emit == "dup" { "macro_dup_not_emitted" } else { "macro_emitted" }; rep.inc(k); }
        let exprs: Vec<(String, String)> = actual.keys().map(|n| (n.clone(), format!("{}::{}.pv()", os.tag(), n))).collect();
        mods.push((os.tag(), b, exprs));
        emitted_by_set.push((os.tag(), actual, predicted, flagmap));
    }
    // Rust oracle
    let rvals = match run_rust_probe(scratch, &format!("{case}_rs"), &mods) {
        Ok(v) => v,
        Err(e) => {
            // the emitted constants do not compile: some type cannot hold its literal
            push_cap(&mut rep.oracle_failures, J::obj(vec![("header", J::s(&text)), ("what", J::s("emitted bindings rejected by rustc")), ("rustc", J::s(e))]));
            return;
        }
    };
    let mut sampled = 0;
    for (tag, actual, predicted, flag_of) in &emitted_by_set {
        let fb = tag.ends_with("fb1");
        for (n, a) in actual {
            rep.inc("oracle_compared");
            let (Some(c), Some(rv)) = (cvals.get(n), rvals.get(&format!("{tag}/{n}"))) else { rep.machinery.push(format!("{case}: no probe value for {n}")); continue; };
            if rep.samples.len() < 6 && sampled < 2 && n.len() % 3 == 0 {
                sampled += 1;
                rep.samples.push(J::obj(vec![("kind", J::s("macro")), ("definition", J::s(slice_header(defs, n))), ("options", J::s(tag)), ("bindgen", J::s(a)), ("clang", J::s(cv_text(c))), ("rust_probe", J::s(rv_text(rv)))]));
            }
            if same_value(c, rv) { rep.inc("oracle_agree"); continue; }
            // mismatch: which region, and did the model predict exactly this output?
            let predicted_ok = predicted.get(n) == Some(a);
            // with the clang fallback the value comes from clang itself; only the i64 carrier can lose it
            let fallback_region = fb && matches!(c, CV::Int { ty, v } if !ty.signed() && *v >= (1i128 << 63));
            let flags = flag_of.get(n.as_str()).map(|s| s.as_str()).unwrap_or("-");
            let sample = J::obj(vec![("header", J::s(slice_header(defs, n))), ("options", J::s(tag)), ("name", J::s(n)), ("bindgen_emits", J::s(a)),
                ("rust_value", J::s(rv_text(rv))), ("c_value", J::s(cv_text(c))), ("regions", J::s(flags)), ("model_predicted_this_output", J::B(predicted_ok))]);
            if predicted_ok && (flags != "-" || fallback_region) {
                rep.inc("oracle_mismatch_in_known_region");
                if fallback_region { rep.known_hit("macro_fallback_unsigned_wrap", sample.clone()); }
                for (ch, id) in REGION_IDS { if flags.contains(ch) { rep.known_hit(id, sample.clone()); } }
            } else {
                push_cap(&mut rep.oracle_failures, sample);
            }
        }
    }
}


// ---------------------------------------------------------------- enums

#[derive(Clone, Debug)]
struct EnumDecl { name: Option<String>, scoped: bool, fixed: Option<CTy>, under: CTy, variants: Vec<(String, Option<String>, i128)> }

const STYLES: [&str; 7] = ["consts", "moduleconsts", "newtype", "bitfield", "newtype_global", "rust", "rust_non_exhaustive"];

/// clang's choice of the underlying type of an enum without a fixed type (Sema::ActOnEnumBody)
fn clang_underlying(vals: &[i128]) -> CTy {
    let neg = vals.iter().any(|v| *v < 0);
    if !neg {
        if vals.iter().all(|v| *v <= u32::MAX as i128) { CTy::UInt } else { CTy::ULong }
    } else if vals.iter().all(|v| CTy::Int.holds(*v)) { CTy::Int } else { CTy::Long }
}

fn gen_enum(r: &mut Rng, tag: &str, cxx: bool) -> EnumDecl {
    let fixed = if cxx && r.chance(3, 5) { Some(*r.pick(&[CTy::Char, CTy::SChar, CTy::UChar, CTy::Short, CTy::UShort, CTy::Int, CTy::UInt, CTy::Long, CTy::ULong, CTy::LLong, CTy::ULLong])) } else { None };
    let n = r.range(1, 7) as usize;
    let allow_neg = r.chance(1, 2);
    let wide = r.chance(1, 3);
    let mut variants: Vec<(String, Option<String>, i128)> = vec![];
    let mut prev: Option<i128> = None;
    for i in 0..n {
        let name = format!("k{tag}v{i}");
        let range: (i128, i128) = match fixed { Some(t) => (t.lo(), t.hi()), None => if allow_neg { (i64::MIN as i128, i64::MAX as i128) } else { (0, u64::MAX as i128) } };
        let explicit = prev.is_none() && r.chance(1, 2) || prev.is_some() && r.chance(3, 5) || prev.map_or(false, |p| p + 1 > range.1);
        let (init, v) = if explicit {
            let v: i128 = match r.below(8) {
                0 if !variants.is_empty() => variants[r.below(variants.len() as u64) as usize].2,   // duplicate
                1 => range.1,
                2 => range.0,
                3 if wide || fixed.is_some() => { let w = r.range(1, 64); let x = (r.next() as i128) & ((1i128 << w) - 1); if range.0 < 0 && r.chance(1, 2) { -x } else { x } }
                4 if range.0 < 0 => -(r.below(200) as i128) - 1,
                5 => *r.pick(&[0x7fff_ffffi128, 0x8000_0000, 0xffff_ffff, 0x1_0000_0000, 255, 256, 65535, 65536]),
                _ => r.below(100) as i128,
            };
            let v = v.clamp(range.0, range.1);
            let text = if v < 0 { if v == i64::MIN as i128 { "(-9223372036854775807LL - 1)".to_string() } else { format!("{v}") } }
                       else if v > i64::MAX as i128 { format!("{v}ULL") } else if r.chance(1, 3) { format!("0x{v:x}") } else { format!("{v}") };
            (Some(text), v)
        } else { (None, prev.map_or(0, |p| p + 1)) };
        variants.push((name, init, v));
        prev = Some(v);
    }
    // an unfixed enum cannot mix negative values with values above i64::MAX
    if fixed.is_none() && variants.iter().any(|v| v.2 < 0) && variants.iter().any(|v| v.2 > i64::MAX as i128) {
        for v in variants.iter_mut() { if v.2 > i64::MAX as i128 { v.2 = 7; v.1 = Some("7".into()); } }
        // implicit successors were computed from the old values: make everything explicit
        let mut p: Option<i128> = None;
        for v in variants.iter_mut() { if v.1.is_none() { let x = p.map_or(0, |q| q + 1); v.2 = x; } p = Some(v.2); }
    }
    let vals: Vec<i128> = variants.iter().map(|v| v.2).collect();
    let under = fixed.unwrap_or_else(|| clang_underlying(&vals));
    let named = r.chance(5, 6);
    EnumDecl { name: if named { Some(format!("E{tag}")) } else { None }, scoped: cxx && named && fixed.is_some() && r.chance(1, 4), fixed, under, variants }
}

fn enum_text(e: &EnumDecl) -> String {
    let mut s = String::from("enum ");
    if e.scoped { s.push_str("class "); }
    if let Some(n) = &e.name { s.push_str(n); s.push(' '); }
    if let Some(t) = e.fixed { s.push_str(&format!(": {} ", t.c_name().replace("_Bool", "bool"))); }
    s.push_str("{ ");
    let vs: Vec<String> = e.variants.iter().map(|(n, init, _)| match init { Some(i) => format!("{n} = {i}"), None => n.clone() }).collect();
    s.push_str(&vs.join(", "));
    s.push_str(" };\n");
    s
}

/// C / C++ probe: value of every enumerator, size and signedness of every named enum
fn run_enum_probe(scratch: &Scratch, tag: &str, header: &str, enums: &[EnumDecl], cxx: bool) -> Result<(HashMap<String, i128>, HashMap<String, (u32, bool)>), String> {
    let mut src = format!("#include <stdio.h>\n#include \"{header}\"\nint main(void) {{\n");
    for e in enums {
        for (v, _, _) in &e.variants {
            let q = if e.scoped { format!("{}::{}", e.name.as_ref().unwrap(), v) } else { v.clone() };
            let neg = if e.scoped { format!("({q} < ({})0)", e.name.as_ref().unwrap()) } else { format!("({q} < 0)") };
            src.push_str(&format!("printf(\"V {v} %d %llu\\n\", (int){neg}, (unsigned long long){q});\n"));
        }
        if let Some(n) = &e.name {
            if cxx {
                src.push_str(&format!("printf(\"T {n} %d %d\\n\", (int)sizeof({n}), (int)((__underlying_type({n}))-1 < 0));\n"));
            } else {
                src.push_str(&format!("printf(\"T {n} %d %d\\n\", (int)sizeof(enum {n}), (int)((enum {n})-1 < 0));\n"));
            }
        }
    }
    src.push_str("return 0; }\n");
    let f = scratch.path(&format!("{tag}.{}", if cxx { "cpp" } else { "c" }));
    std::fs::write(&f, src).unwrap();
    let exe = scratch.path(&format!("{tag}_e"));
    let mut c = Command::new(if cxx { "clang++" } else { "clang" });
    c.args([if cxx { "-std=c++14" } else { "-std=gnu11" }, "-w", "-O0", "-I"]).arg(&scratch.0).arg(&f).arg("-o").arg(&exe);
    let (rc, _o, er) = run(&mut c);
    if rc != 0 { return Err(format!("clang failed: {}", &er[..er.len().min(1500)])); }
    let (rc, o, er) = run_exe(&exe);
    if rc != 0 { return Err(format!("enum probe exited {rc}: {er}")); }
    let mut vals = HashMap::new(); let mut tys = HashMap::new();
    for l in o.lines() {
        let p: Vec<&str> = l.split(' ').collect();
        if p.len() == 4 && p[0] == "V" { let u: u64 = p[3].parse().unwrap_or(0); vals.insert(p[1].to_string(), if p[2] == "1" { u as i64 as i128 } else { u as i128 }); }
        if p.len() == 4 && p[0] == "T" { tys.insert(p[1].to_string(), (p[2].parse().unwrap_or(0), p[3] == "1")); }
    }
    Ok((vals, tys))
}

/// where bindgen put an enumerator
struct Found { lit: String, repr: String, type_name: String, probe: String }

fn find_variant(inv: &Inventory, module: &str, v: &str) -> Result<Found, String> {
    for (en, (repr, vs)) in &inv.enums {
        if let Some((_, d)) = vs.iter().find(|(n, _)| n == v) {
            let signed = repr.starts_with('i');
            return Ok(Found { lit: format!("lit:{}", d.text()), repr: repr.clone(), type_name: en.clone(),
                probe: format!("format!(\"i {{}} {{}} {}\", {module}::{en}::{v} as i128, std::mem::size_of::<{module}::{en}>())", signed as u8) });
        }
    }
    let suffix = format!("_{v}");
    let cands: Vec<&ConstItem> = inv.consts.iter().filter(|c| c.name == v || c.name.ends_with(&suffix)).collect();
    if cands.len() != 1 { return Err(format!("{} constants match enumerator {v}", cands.len())); }
    let c = cands[0];
    let path = match c.ctx.split_once(' ') { Some((_, t)) => format!("{module}::{t}::{}", c.name), None => format!("{module}::{}", c.name) };
    let ty_key = if c.ty == "Type" { format!("{}/Type", c.ctx) } else { format!("/{}", c.ty) };
    match &c.val {
        Val::Call(f, inner) => Ok(Found { lit: format!("lit:{}", inner.text()), repr: inv.newtypes.get(f).cloned().unwrap_or_default(), type_name: f.clone(), probe: format!("{path}.0.pv()") }),
        Val::Path(p) => {
            let en = &p[0];
            let (repr, _) = inv.enums.get(en).cloned().unwrap_or_default();
            let signed = repr.starts_with('i');
            Ok(Found { lit: format!("alias:{}", p.last().unwrap()), repr, type_name: en.clone(),
                probe: format!("format!(\"i {{}} {{}} {}\", {path} as i128, std::mem::size_of::<{module}::{en}>())", signed as u8) })
        }
        Val::Int(_) | Val::Bool(_) => Ok(Found { lit: format!("lit:{}", c.val.text()), repr: inv.aliases.get(&ty_key).cloned().unwrap_or_default(), type_name: c.ty.clone(), probe: format!("{path}.pv()") }),
        o => Err(format!("unexpected value form for {v}: {o:?}")),
    }
}

fn enum_section(scratch: &Scratch, r: &mut Rng, n_headers: usize, per: usize, all_combos: bool, rep: &mut Rep) {
    for h in 0..n_headers {
        let cxx = h % 2 == 1;
        let case = format!("e{h}");
        let enums: Vec<EnumDecl> = (0..per).map(|i| gen_enum(r, &format!("{h}x{i}"), cxx)).collect();
        let text: String = enums.iter().map(enum_text).collect();
        let hname = format!("{case}.{}", if cxx { "hpp" } else { "h" });
        std::fs::write(scratch.path(&hname), &text).unwrap();
        rep.inc("enum_headers"); rep.add("enums", enums.len() as u64);
        for e in &enums {
            rep.distinct.insert(format!("e:{}", enum_text(e)));
            rep.inc(&format!("enum_underlying_{}", e.under.proto()));
            if e.name.is_none() { rep.inc("enum_anonymous"); }
            if e.scoped { rep.inc("enum_scoped"); }
            let mut seen = HashSet::new();
            for v in &e.variants { if !seen.insert(v.2) { rep.inc("enum_duplicate_values"); } if v.2 < 0 { rep.inc("enum_negative_values"); } if v.2 > u32::MAX as i128 || v.2 < i32::MIN as i128 { rep.inc("enum_beyond_32bit_values"); } if v.1.is_none() { rep.inc("enum_implicit_values"); } }
        }
        let (cvals, ctys) = match run_enum_probe(scratch, &format!("{case}_probe"), &hname, &enums, cxx) { Ok(v) => v, Err(e) => { rep.machinery.push(format!("{case}: {e}")); continue; } };
        // generator's own expectation vs the C compiler (validates the underlying-type rule and implicit values)
        for e in &enums {
            for (v, _, val) in &e.variants {
                rep.inc("c_model_vs_clang_compared");
                if cvals.get(v) != Some(val) { push_cap(&mut rep.cmodel_failures, J::obj(vec![("enum", J::s(enum_text(e))), ("name", J::s(v)), ("generator", J::s(format!("{val}"))), ("clang", J::s(format!("{:?}", cvals.get(v))))])); }
            }
            if let Some(n) = &e.name {
                let want = (e.under.bits() / 8, e.under.signed());
                if ctys.get(n) != Some(&want) { push_cap(&mut rep.cmodel_failures, J::obj(vec![("enum", J::s(enum_text(e))), ("generator_underlying", J::s(e.under.c_name())), ("clang_size_signed", J::s(format!("{:?}", ctys.get(n))))])); }
            }
        }
        // option combinations
        let mut combos: Vec<(&str, bool, bool)> = vec![];
        for st in STYLES { for tr in [false, true] { for noprep in [false, true] { combos.push((st, tr, noprep)); } } }
        if !all_combos {
            // every style x translate once, prepend alternating
            combos = combos.into_iter().enumerate().filter(|(i, c)| (c.2 as usize) == (i / 2 + h) % 2).map(|(_, c)| c).collect();
        }
        let mut mods: Vec<(String, String, Vec<(String, String)>)> = vec![];
        let mut expect: Vec<(String, String)> = vec![]; // (module/variant, enum name or "")
        for (st, tr, noprep) in &combos {
            let module = format!("{}_{}{}", st, if *tr { "t" } else { "c" }, if *noprep { "n" } else { "p" });
            let mut flags: Vec<&str> = vec!["--default-enum-style", st, "--no-layout-tests"];
            if *tr { flags.push("--translate-enum-integer-types"); }
            if *noprep { flags.push("--no-prepend-enum-name"); }
            let clang: Vec<&str> = if cxx { vec!["-x", "c++", "-std=c++14"] } else { vec![] };
            let out = generate_text(scratch, &hname, &text, &flags, &clang, false);
            rep.inc("bindgen_runs");
            let Some(b) = out.bindings else { push_cap(&mut rep.corr_failures, J::obj(vec![("header", J::s(&text)), ("options", J::s(&module)), ("implementation", J::s(format!("{:?} {:?}", out.error, out.panic)))])); continue; };
            let inv = match inventory(&b) { Ok(i) => i, Err(e) => { rep.machinery.push(format!("{case}: {e}")); continue; } };
            // model
            let reqs: Vec<String> = enums.iter().map(|e| {
                let mut l = format!("c05 e style={st} tr={} ty={}", *tr as u8, e.under.proto());
                for (v, _, val) in &e.variants { l.push_str(&format!(" {v}={val}")); }
                l
            }).collect();
            let answers = model(&reqs);
            let mut exprs = vec![];
            for (e, ans) in enums.iter().zip(answers.iter()) {
                let toks: Vec<&str> = ans.split(' ').collect();
                let model_repr = toks[0].strip_prefix("repr=").unwrap_or("?").split(',').next().unwrap_or("?").to_string();
                for (i, (v, _, _)) in e.variants.iter().enumerate() {
                    rep.inc("correspondence_compared"); rep.inc("enum_variants_compared");
                    let want = toks.get(i + 2).and_then(|t| t.split_once('=')).map(|(_, x)| x.to_string()).unwrap_or_default();
                    match find_variant(&inv, &module, v) {
                        Ok(f) => {
                            if f.lit != want || f.repr != model_repr {
                                push_cap(&mut rep.corr_failures, J::obj(vec![("enum", J::s(enum_text(e))), ("options", J::s(&module)), ("name", J::s(v)),
                                    ("implementation", J::s(format!("{} repr={}", f.lit, f.repr))), ("model", J::s(format!("{want} repr={model_repr}")))]));
                            }
                            let _ = &f.type_name;
                            exprs.push((v.clone(), f.probe));
                            expect.push((format!("{module}/{v}"), e.name.clone().unwrap_or_default()));
                        }
                        Err(er) => push_cap(&mut rep.corr_failures, J::obj(vec![("enum", J::s(enum_text(e))), ("options", J::s(&module)), ("name", J::s(v)), ("implementation", J::s(er)), ("model", J::s(want))])),
                    }
                }
            }
            mods.push((module, b, exprs));
        }
        let rvals = match run_rust_probe(scratch, &format!("{case}_rs"), &mods) {
            Ok(v) => v,
            Err(e) => { push_cap(&mut rep.oracle_failures, J::obj(vec![("header", J::s(&text)), ("what", J::s("emitted enum bindings rejected by rustc")), ("rustc", J::s(e))])); continue; }
        };
        let by_variant: HashMap<&str, &EnumDecl> = enums.iter().flat_map(|e| e.variants.iter().map(move |v| (v.0.as_str(), e))).collect();
        for (key, _en) in &expect {
            rep.inc("oracle_compared");
            let v = key.split('/').nth(1).unwrap();
            let e = by_variant[v];
            let (Some(cv), Some(rv)) = (cvals.get(v), rvals.get(key)) else { rep.machinery.push(format!("{case}: no probe value for {key}")); continue; };
            let (csize, csigned) = e.name.as_ref().and_then(|n| ctys.get(n)).copied().unwrap_or((e.under.bits() / 8, e.under.signed()));
            let ok = matches!(rv, RV::Int { v: x, size, signed } if x == cv && *size == csize && *signed == csigned);
            if ok { rep.inc("oracle_agree"); }
            else { push_cap(&mut rep.oracle_failures, J::obj(vec![("enum", J::s(enum_text(e))), ("options", J::s(key.split('/').next().unwrap())), ("name", J::s(v)), ("rust_value", J::s(rv_text(rv))), ("c_value", J::s(format!("{cv} in a {csize}-byte {} type", if csigned { "signed" } else { "unsigned" })))])); }
            if rep.samples.len() < 10 && key.ends_with("v0") && key.starts_with("rust_c") && rep.counts.get("enum_samples").copied().unwrap_or(0) < 2 {
                rep.inc("enum_samples");
                rep.samples.push(J::obj(vec![("kind", J::s("enum")), ("declaration", J::s(enum_text(e))), ("options", J::s(key.split('/').next().unwrap())), ("enumerator", J::s(v)), ("clang", J::s(format!("{cv} size {csize} signed {csigned}"))), ("rust_probe", J::s(rv_text(rv)))]));
            }
        }
    }
}


// ---------------------------------------------------------------- special cases: regions outside the generators

/// One declaration per header so that a rustc rejection is attributable.  Each case states the
/// region predicate (mirrored in Lean: `enumBoolTranslated`, `wcharRegion`; long double is
/// syntactic) and the check is the same as everywhere: the model must predict bindgen's output,
/// and a C-vs-Rust disagreement (or a rustc rejection) is a known finding only inside the region.
fn special_section(scratch: &Scratch, thorough: bool, rep: &mut Rep) {
    // (a) enum over bool, every style / translate / prepend combination
    let text = "enum EBa : bool { kEBf = false, kEBt = true, kEBd = true };\n";
    std::fs::write(scratch.path("sb.hpp"), text).unwrap();
    let mut combos: Vec<(&str, bool, bool)> = vec![];
    for st in STYLES { for tr in [false, true] { for noprep in [false, true] { if thorough || (!noprep && matches!(st, "consts" | "newtype" | "rust")) { combos.push((st, tr, noprep)); } } } }
    for (st, tr, noprep) in combos {
        let module = format!("{}_{}{}", st, if tr { "t" } else { "c" }, if noprep { "n" } else { "p" });
        let mut flags: Vec<&str> = vec!["--default-enum-style", st, "--no-layout-tests"];
        if tr { flags.push("--translate-enum-integer-types"); }
        if noprep { flags.push("--no-prepend-enum-name"); }
        let out = generate_text(scratch, "sb.hpp", text, &flags, &["-x", "c++", "-std=c++14"], false);
        rep.inc("bindgen_runs"); rep.inc("special_cases");
        let Some(b) = out.bindings else { push_cap(&mut rep.corr_failures, J::obj(vec![("header", J::s(text)), ("options", J::s(&module)), ("implementation", J::s(format!("{:?} {:?}", out.error, out.panic)))])); continue; };
        let inv = match inventory(&b) { Ok(i) => i, Err(e) => { rep.machinery.push(e); continue; } };
        let ans = model(&[format!("c05 e style={st} tr={} ty=bool kEBf=0 kEBt=1 kEBd=1", tr as u8)]).remove(0);
        let toks: Vec<&str> = ans.split(' ').collect();
        let model_repr = toks[0].strip_prefix("repr=").unwrap_or("?").split(',').next().unwrap_or("?").to_string();
        let lean_region = toks.get(1).and_then(|t| t.strip_prefix("region=")).unwrap_or("?");
        let is_rust = st.starts_with("rust");
        let my_region = if tr && !is_rust { "b" } else { "-" };
        rep.inc("region_predicates_compared");
        if lean_region != my_region { push_cap(&mut rep.region_failures, J::obj(vec![("case", J::s(&module)), ("lean", J::s(lean_region)), ("harness", J::s(my_region))])); }
        let mut exprs = vec![]; let mut predicted = true;
        for (i, v) in ["kEBf", "kEBt", "kEBd"].iter().enumerate() {
            rep.inc("correspondence_compared");
            let want = toks.get(i + 2).and_then(|t| t.split_once('=')).map(|(_, x)| x.to_string()).unwrap_or_default();
            match find_variant(&inv, "m", v) {
                Ok(f) => { if f.lit != want || f.repr != model_repr { predicted = false; push_cap(&mut rep.corr_failures, J::obj(vec![("enum", J::s(text)), ("options", J::s(&module)), ("name", J::s(*v)), ("implementation", J::s(format!("{} repr={}", f.lit, f.repr))), ("model", J::s(format!("{want} repr={model_repr}")))])); } exprs.push((v.to_string(), f.probe)); }
                Err(e) => { predicted = false; push_cap(&mut rep.corr_failures, J::obj(vec![("enum", J::s(text)), ("options", J::s(&module)), ("name", J::s(*v)), ("implementation", J::s(e))])); }
            }
        }
        rep.inc("oracle_compared");
        let sample = |what: String| J::obj(vec![("header", J::s(text)), ("options", J::s(&module)), ("bindgen_emits", J::s(b.trim())), ("what", J::s(what)), ("c_value", J::s("false = 0, true = 1 in a 1-byte unsigned type"))]);
        match run_rust_probe(scratch, &format!("sb_{module}"), &[("m".to_string(), b.clone(), exprs)]) {
            Ok(rv) => {
                let want = [("m/kEBf", 0i128), ("m/kEBt", 1), ("m/kEBd", 1)];
                let ok = want.iter().all(|(k, v)| matches!(rv.get(*k), Some(RV::Int { v: x, size: 1, signed: false }) if x == v));
                if ok { rep.inc("oracle_agree"); } else { push_cap(&mut rep.oracle_failures, sample(format!("values {:?}", rv))); }
            }
            Err(e) => {
                if my_region == "b" && predicted { rep.inc("oracle_mismatch_in_known_region"); rep.known_hit("enum_bool_translated", sample(format!("rustc rejects: {}", e.lines().find(|l| l.contains("error")).unwrap_or("")))); }
                else { push_cap(&mut rep.oracle_failures, sample(format!("rustc rejects: {e}"))); }
            }
        }
    }
    // (b) wchar_t
    let wcases: [(&str, &str, Option<i128>); 3] = [
        ("sw1", "enum EWa : wchar_t { kEWn = -1, kEWp = 5 };\n", None),
        ("sw2", "const wchar_t kWneg = -1;\n", Some(-1)),
        ("sw3", "const wchar_t kWpos = 97;\n", Some(97)),
    ];
    for (case, text, var) in wcases {
        std::fs::write(scratch.path(&format!("{case}.hpp")), text).unwrap();
        let out = generate_text(scratch, &format!("{case}.hpp"), text, &["--no-layout-tests"], &["-x", "c++", "-std=c++14"], false);
        rep.inc("bindgen_runs"); rep.inc("special_cases");
        let Some(b) = out.bindings else { push_cap(&mut rep.corr_failures, J::obj(vec![("header", J::s(text)), ("implementation", J::s(format!("{:?} {:?}", out.error, out.panic)))])); continue; };
        let inv = match inventory(&b) { Ok(i) => i, Err(e) => { rep.machinery.push(e); continue; } };
        let sample = |what: String, c: &str| J::obj(vec![("header", J::s(text)), ("bindgen_emits", J::s(b.trim())), ("what", J::s(what)), ("c_value", J::s(c))]);
        if let Some(v) = var {
            let name = if v < 0 { "kWneg" } else { "kWpos" };
            let ans = model(&[format!("c05 v ty=wchar v={v}")]).remove(0);
            let (want, region) = ans.split_once(" region=").unwrap_or((&ans, "?"));
            let my_region = if v < 0 { "w" } else { "-" };
            rep.inc("region_predicates_compared");
            if region != my_region { push_cap(&mut rep.region_failures, J::obj(vec![("case", J::s(case)), ("lean", J::s(region)), ("harness", J::s(my_region))])); }
            let actual = inv.consts.iter().find(|c| c.name == name).map(|c| format!("{}:{}", c.ty, c.val.text()));
            rep.inc("correspondence_compared");
            let predicted = actual.as_deref() == Some(want);
            if !predicted { push_cap(&mut rep.corr_failures, J::obj(vec![("header", J::s(text)), ("implementation", J::s(actual.clone().unwrap_or_default())), ("model", J::s(want))])); }
            rep.inc("oracle_compared");
            match run_rust_probe(scratch, &format!("{case}_rs"), &[("m".to_string(), b.clone(), vec![(name.to_string(), format!("m::{name}.pv()"))])]) {
                Ok(rv) => {
                    // C: wchar_t is a signed 32-bit int
                    let ok = matches!(rv.get(&format!("m/{name}")), Some(RV::Int { v: x, size: 4, .. }) if *x == v);
                    if ok { rep.inc("oracle_agree"); } else { push_cap(&mut rep.oracle_failures, sample(format!("{:?}", rv), &format!("{v} (wchar_t = int)"))); }
                }
                Err(e) => {
                    if my_region == "w" && predicted { rep.inc("oracle_mismatch_in_known_region"); rep.known_hit("wchar_treated_unsigned", sample(format!("rustc rejects: {}", e.lines().find(|l| l.contains("error")).unwrap_or("")), "-1 (wchar_t = int)")); }
                    else { push_cap(&mut rep.oracle_failures, sample(format!("rustc rejects: {e}"), &format!("{v}"))); }
                }
            }
        } else {
            let ans = model(&["c05 e style=consts tr=0 ty=wchar kEWn=-1 kEWp=5".to_string()]).remove(0);
            let toks: Vec<&str> = ans.split(' ').collect();
            let model_repr = toks[0].strip_prefix("repr=").unwrap_or("?").split(',').next().unwrap_or("?").to_string();
            let region = toks.get(1).and_then(|t| t.strip_prefix("region=")).unwrap_or("?");
            rep.inc("region_predicates_compared");
            if region != "w" { push_cap(&mut rep.region_failures, J::obj(vec![("case", J::s(case)), ("lean", J::s(region)), ("harness", J::s("w"))])); }
            let mut predicted = true; let mut exprs = vec![];
            for (i, v) in ["kEWn", "kEWp"].iter().enumerate() {
                rep.inc("correspondence_compared");
                let want = toks.get(i + 2).and_then(|t| t.split_once('=')).map(|(_, x)| x.to_string()).unwrap_or_default();
                match find_variant(&inv, "m", v) {
                    Ok(f) => { if f.lit != want || f.repr != model_repr { predicted = false; push_cap(&mut rep.corr_failures, J::obj(vec![("enum", J::s(text)), ("name", J::s(*v)), ("implementation", J::s(format!("{} repr={}", f.lit, f.repr))), ("model", J::s(format!("{want} repr={model_repr}")))])); } exprs.push((v.to_string(), f.probe)); }
                    Err(e) => { predicted = false; push_cap(&mut rep.corr_failures, J::obj(vec![("enum", J::s(text)), ("implementation", J::s(e))])); }
                }
            }
            rep.inc("oracle_compared");
            match run_rust_probe(scratch, &format!("{case}_rs"), &[("m".to_string(), b.clone(), exprs)]) {
                Ok(rv) => {
                    let ok = matches!(rv.get("m/kEWn"), Some(RV::Int { v: -1, size: 4, signed: true })) && matches!(rv.get("m/kEWp"), Some(RV::Int { v: 5, size: 4, signed: true }));
                    if ok { rep.inc("oracle_agree"); }
                    else if predicted { rep.inc("oracle_mismatch_in_known_region"); rep.known_hit("wchar_treated_unsigned", sample(format!("rust values {:?}", rv.get("m/kEWn").map(rv_text)), "kEWn = -1 in a 4-byte signed type")); }
                    else { push_cap(&mut rep.oracle_failures, sample(format!("{:?}", rv), "kEWn = -1, kEWp = 5 (signed 4 bytes)")); }
                }
                Err(e) => push_cap(&mut rep.oracle_failures, sample(format!("rustc rejects: {e}"), "kEWn = -1")),
            }
        }
    }
    // (c) const long double
    let text = "const long double kLD = 1.5L;\n";
    std::fs::write(scratch.path("sl.h"), text).unwrap();
    let out = generate_text(scratch, "sl.h", text, &["--no-layout-tests"], &[], false);
    rep.inc("bindgen_runs"); rep.inc("special_cases");
    if let Some(b) = out.bindings {
        if let Ok(inv) = inventory(&b) {
            let actual = inv.consts.iter().find(|c| c.name == "kLD").map(|c| format!("{}:{}", c.ty, c.val.text()));
            rep.inc("correspondence_compared");
            // model: `rustIntName .ldouble` = "u128", value printed as the f64 clang reports
            let want = format!("u128:{:016x}", 1.5f64.to_bits());
            let predicted = actual.as_deref() == Some(want.as_str());
            if !predicted { push_cap(&mut rep.corr_failures, J::obj(vec![("header", J::s(text)), ("implementation", J::s(actual.unwrap_or_default())), ("model", J::s(want))])); }
            rep.inc("oracle_compared");
            let sample = |what: String| J::obj(vec![("header", J::s(text)), ("bindgen_emits", J::s(b.trim())), ("what", J::s(what)), ("c_value", J::s("1.5 (long double)"))]);
            match run_rust_probe(scratch, "sl_rs", &[("m".to_string(), b.clone(), vec![])]) {
                Ok(_) => { rep.inc("oracle_agree"); }
                Err(e) => {
                    if predicted { rep.inc("oracle_mismatch_in_known_region"); rep.known_hit("constvar_long_double", sample(format!("rustc rejects: {}", e.lines().find(|l| l.contains("error")).unwrap_or("")))); }
                    else { push_cap(&mut rep.oracle_failures, sample(format!("rustc rejects: {e}"))); }
                }
            }
        }
    }
    // (h) the clang macro fallback sees what the user force-includes: macros that only the fallback can evaluate (a cast)
    //     and whose value depends on a `-include`d configuration header must carry the configured value, like the macros
    //     cexpr evaluates itself
    {
        let cfg = scratch.path("h_cfg.h");
        std::fs::write(&cfg, "#define CFG_WIDTH 16\n").unwrap();
        let text = "#ifndef CFG_WIDTH\n#define CFG_WIDTH 8\n#endif\n#define H_WIDTH CFG_WIDTH\n#define H_LIMIT (1 << CFG_WIDTH)\n#define H_MASK ((unsigned int)((1ull << CFG_WIDTH) - 1))\n#define H_MIN (-(long)(1ull << (CFG_WIDTH - 1)))\n#define H_BYTES ((int)sizeof(char[CFG_WIDTH]))\n";
        let cfgs = cfg.to_string_lossy().into_owned();
        for (tag, flags) in [("hfb", vec!["--no-layout-tests", "--clang-macro-fallback"]), ("hfbfit", vec!["--no-layout-tests", "--clang-macro-fallback", "--fit-macro-constant-types"])] {
            let fbdir = scratch.path(&format!("{tag}_build"));
            let _ = std::fs::create_dir_all(&fbdir);
            let fbdirs = fbdir.to_string_lossy().into_owned();
            let mut fl: Vec<&str> = flags.clone();
            fl.extend(["--clang-macro-fallback-build-dir", fbdirs.as_str()]);
            let out = generate_text(scratch, &format!("{tag}.h"), text, &fl, &["-include", cfgs.as_str()], false);
            rep.inc("bindgen_runs"); rep.inc("special_cases");
            let Some(b) = out.bindings else { push_cap(&mut rep.oracle_failures, J::obj(vec![("header", J::s(text)), ("what", J::s(format!("no bindings: {:?} {:?}", out.error, out.panic)))])); continue; };
            let inv = match inventory(&b) { Ok(i) => i, Err(e) => { rep.machinery.push(e); continue; } };
            // C values with `-include h_cfg.h`: CFG_WIDTH = 16
            for (name, want) in [("H_WIDTH", "16"), ("H_LIMIT", "65536"), ("H_MASK", "65535"), ("H_MIN", "-32768"), ("H_BYTES", "16")] {
                rep.inc("oracle_compared");
                match inv.consts.iter().find(|c| c.name == name) {
                    None => { rep.inc("oracle_agree"); } // not emitted: nothing wrong is said
                    Some(c) => {
                        let got: String = c.val.text().chars().filter(|ch| !ch.is_whitespace()).collect();
                        if got == want { rep.inc("oracle_agree"); }
                        else { push_cap(&mut rep.oracle_failures, J::obj(vec![("header", J::s(text)), ("options", J::s(format!("{} -- -include h_cfg.h (`#define CFG_WIDTH 16`)", flags.join(" ")))), ("bindgen_emits", J::s(format!("{name} = {got}"))), ("what", J::s("the fallback evaluated the macro without the force-included header")), ("c_value", J::s(want))])); }
                    }
                }
            }
        }
    }
    // (d) enumerators of an enum nested in a class template (C++): the values are read from a cursor of the
    //     dependent context, which evaluates to 0
    {
        let text = "template<typename T> struct W5 { enum Inner { kW5a = 3, kW5b = 7, kW5c = -2 }; T t; };\nW5<int> w5_use;\n";
        let out = generate_text(scratch, "st.hpp", text, &["--no-layout-tests"], &["-x", "c++", "-std=c++14"], false);
        rep.inc("bindgen_runs"); rep.inc("special_cases");
        if let Some(b) = out.bindings {
            rep.inc("oracle_compared");
            let flat: String = b.split_whitespace().collect::<Vec<_>>().join(" ");
            let val = |n: &str| -> Option<String> { let k = format!("pub const W5_Inner_{n} : W5_Inner = "); let k2 = format!("pub const W5_Inner_{n}: W5_Inner = "); flat.find(&k).map(|i| i + k.len()).or_else(|| flat.find(&k2).map(|i| i + k2.len())).map(|i| flat[i..].split(';').next().unwrap_or("").trim().to_string()) };
            let got = (val("kW5a"), val("kW5b"), val("kW5c"));
            let sample = J::obj(vec![("header", J::s(text)), ("bindgen_emits", J::s(b.trim())), ("c_value", J::s("W5<int>::kW5a = 3, kW5b = 7, kW5c = -2")), ("what", J::s(format!("emitted {:?}", got)))]);
            match (got.0.as_deref(), got.1.as_deref(), got.2.as_deref()) {
                (Some("3"), Some("7"), Some("-2")) => rep.inc("oracle_agree"),
                (Some("0"), Some("0"), Some("0")) => { rep.inc("oracle_mismatch_in_known_region"); rep.known_hit("template_nested_enum_zero", sample); }
                (None, None, None) => rep.inc("oracle_agree"), // omitted: allowed
                _ => push_cap(&mut rep.oracle_failures, sample),
            }
        } else { push_cap(&mut rep.corr_failures, J::obj(vec![("header", J::s(text)), ("implementation", J::s(format!("{:?} {:?}", out.error, out.panic)))])); }
    }
    // (f) C++ `const` variables whose initialiser is not a constant expression (dynamic initialisation): C has no
    //     compile-time value, so no `pub const` may be emitted (an `extern static` is the allowed rendering);
    //     foldable neighbours keep their value
    {
        let text = "extern int c5_base;\nextern unsigned char c5_small;\nconst int c5_dyn1 = c5_base * 1000;\nconst int c5_dyn2 = (c5_base + 4) << 12;\nconst long c5_dyn3 = -c5_base - 32;\nconst unsigned c5_dyn4 = c5_small ? 255u : 30u;\nconst int c5_fixed = 7 * 6;\nconst long c5_neg = -(1L << 40);\n";
        let out = generate_text(scratch, "sd.hpp", text, &["--no-layout-tests"], &["-x", "c++", "-std=c++14"], false);
        rep.inc("bindgen_runs"); rep.inc("special_cases");
        if let Some(b) = out.bindings {
            let flat: String = b.split_whitespace().collect::<Vec<_>>().join(" ");
            let val = |n: &str| -> Option<String> { for k in [format!("pub const {n}: "), format!("pub const {n} : ")] { if let Some(i) = flat.find(&k) { return flat[i + k.len()..].split(';').next().and_then(|d| d.split('=').nth(1)).map(|v| v.split_whitespace().collect::<String>()); } } None };
            for n in ["c5_dyn1", "c5_dyn2", "c5_dyn3", "c5_dyn4"] {
                rep.inc("oracle_compared");
                match val(n) {
                    None => rep.inc("oracle_agree"),
                    Some(v) => push_cap(&mut rep.oracle_failures, J::obj(vec![("header", J::s(text)), ("name", J::s(n)), ("rust_value", J::s(v)), ("c_value", J::s("computed at program start from c5_base / c5_small: no compile-time value")), ("what", J::s("a constant is emitted for a dynamically initialised const variable"))])),
                }
            }
            for (n, want) in [("c5_fixed", "42"), ("c5_neg", "-1099511627776")] {
                rep.inc("oracle_compared");
                match val(n) {
                    Some(v) if v == want => rep.inc("oracle_agree"),
                    None => rep.inc("oracle_agree"),
                    Some(v) => push_cap(&mut rep.oracle_failures, J::obj(vec![("header", J::s(text)), ("name", J::s(n)), ("rust_value", J::s(v)), ("c_value", J::s(want))])),
                }
            }
        } else { push_cap(&mut rep.corr_failures, J::obj(vec![("header", J::s(text)), ("implementation", J::s(format!("{:?} {:?}", out.error, out.panic)))])); }
    }
    // (g) 128-bit integers (outside the typed grammar of the generators): const variables and an enum over __int128
    {
        let text = "const __int128 c5_w1 = -5;\nconst __int128 c5_w2 = -9223372036854775807LL - 1;\nconst unsigned __int128 c5_w3 = 7;\nconst __int128 c5_w4 = 9223372036854775807LL;\nenum c5_WE : __int128 { c5_WN = -1, c5_WP = 5, c5_WD = -1 };\n";
        let out = generate_text(scratch, "sw.hpp", text, &["--no-layout-tests"], &["-x", "c++", "-std=c++14"], false);
        rep.inc("bindgen_runs"); rep.inc("special_cases");
        if let Some(b) = out.bindings {
            let flat: String = b.split_whitespace().collect::<Vec<_>>().join(" ");
            let val = |n: &str| -> Option<(String, String)> { for k in [format!("pub const {n}: "), format!("pub const {n} : ")] { if let Some(i) = flat.find(&k) { let d = flat[i + k.len()..].split(';').next().unwrap_or(""); let mut it = d.splitn(2, '='); let ty = it.next().unwrap_or("").trim().to_string(); let v: String = it.next().unwrap_or("").split_whitespace().collect(); return Some((ty, v)); } } None };
            for (n, ty, want) in [("c5_w1", "i128", "-5"), ("c5_w2", "i128", "-9223372036854775808"), ("c5_w3", "u128", "7"), ("c5_w4", "i128", "9223372036854775807"),
                                  ("c5_WE_c5_WN", "c5_WE", "-1"), ("c5_WE_c5_WP", "c5_WE", "5"), ("c5_WE_c5_WD", "c5_WE", "-1")] {
                rep.inc("oracle_compared");
                match val(n) {
                    Some((t, v)) if t == ty && v == want => rep.inc("oracle_agree"),
                    None => rep.inc("oracle_agree"),
                    Some((t, v)) => push_cap(&mut rep.oracle_failures, J::obj(vec![("header", J::s(text)), ("name", J::s(n)), ("rust_value", J::s(format!("{t} = {v}"))), ("c_value", J::s(format!("{ty} = {want}")))])),
                }
            }
            rep.inc("oracle_compared");
            if flat.contains("pub type c5_WE = i128 ;") || flat.contains("pub type c5_WE = i128;") { rep.inc("oracle_agree"); }
            else { push_cap(&mut rep.oracle_failures, J::obj(vec![("header", J::s(text)), ("name", J::s("c5_WE")), ("rust_value", J::s("underlying type is not i128")), ("c_value", J::s("__int128 (signed)"))])); }
        } else { push_cap(&mut rep.corr_failures, J::obj(vec![("header", J::s(text)), ("implementation", J::s(format!("{:?} {:?}", out.error, out.panic)))])); }
    }
    // (e) a function-like macro whose parameter is spelled like an object-like macro: `K` alone is not a C
    //     expression, no constant may be emitted for it
    {
        let text = "#define kFL1 1\n#define kFLK(kFL1) +2\n#define kFLJ(x) 5\n";
        let out = generate_text(scratch, "sf.h", text, &["--no-layout-tests"], &[], false);
        rep.inc("bindgen_runs"); rep.inc("special_cases");
        if let Some(b) = out.bindings {
            rep.inc("oracle_compared");
            let sample = J::obj(vec![("header", J::s(text)), ("bindgen_emits", J::s(b.trim())), ("c_value", J::s("kFLK is a function-like macro: `kFLK` alone does not expand, there is no value")), ("what", J::s("a constant is emitted for a function-like macro"))]);
            let has = |n: &str| b.contains(&format!("pub const {n}:")) || b.contains(&format!("pub const {n} :"));
            if has("kFLJ") { push_cap(&mut rep.oracle_failures, sample); }
            else if has("kFLK") { rep.inc("oracle_mismatch_in_known_region"); rep.known_hit("function_like_macro_as_constant", sample); }
            else { rep.inc("oracle_agree"); }
        }
    }
}

// ---------------------------------------------------------------- const variables

fn var_section(scratch: &Scratch, r: &mut Rng, n_headers: usize, per: usize, rep: &mut Rep) {
    for h in 0..n_headers {
        let case = format!("v{h}");
        let mut text = String::new();
        let mut vars: Vec<(String, CTy, String)> = vec![]; // name, type, initializer text
        let mut strs: Vec<(String, Vec<u8>)> = vec![];
        for i in 0..per {
            let name = format!("kV{h}x{i}");
            match r.below(14) {
                0 => { // string
                    // no interior NUL: a `const char *` constant is a C string (clang's evaluator stops at the first NUL)
                    let (t, bytes) = loop { let E::Str { text: t, bytes, .. } = str_lit(r, false) else { unreachable!() }; if !bytes.contains(&0) { break (t, bytes); } };
                    let t = t.trim_start_matches("u8").to_string();
                    text.push_str(&format!("const char *const {name} = {t};\n"));
                    strs.push((name, bytes));
                }
                1 | 2 => { // floats
                    let ty = if r.chance(1, 2) { CTy::Float } else { CTy::Double };
                    let E::Flt { text: t, .. } = float_lit(r) else { unreachable!() };
                    let init = if r.chance(1, 3) { format!("-{t}") } else { t };
                    text.push_str(&format!("const {} {name} = {init};\n", ty.c_name()));
                    vars.push((name, ty, init));
                }
                _ => {
                    let ty = *r.pick(&INT_TYPES);
                    // initializer: boundary / random value of the type, or an arbitrary literal converted by C
                    let init = match r.below(6) {
                        0 => format!("{}", ty.hi()),
                        1 => if ty.signed() { format!("({} - 1)", ty.lo() + 1) } else { "0".into() },
                        2 => format!("{}", if ty.signed() { -((r.next() as i128) & ty.hi()) } else { (r.next() as i128) & ty.hi() }),
                        3 => { let n = gen_int_value(r, false); int_lit(r, n, true).to_c() }
                        4 => { let n = gen_int_value(r, true); format!("-{}", int_lit(r, n, true).to_c()) }
                        _ => format!("{}", r.below(200)),
                    };
                    // a bare decimal literal above i64::MAX needs a suffix to be valid C
                    let init = { let digits = init.trim_start_matches('-'); if !digits.is_empty() && digits.chars().all(|c| c.is_ascii_digit()) && digits.parse::<u128>().map_or(false, |v| v > i64::MAX as u128) { format!("{init}ULL") } else { init } };
                    text.push_str(&format!("const {} {name} = {init};\n", ty.c_name()));
                    vars.push((name, ty, init));
                }
            }
        }
        let hname = format!("{case}.h");
        std::fs::write(scratch.path(&hname), &text).unwrap();
        rep.inc("var_headers");
        let all_names: Vec<String> = vars.iter().map(|v| v.0.clone()).chain(strs.iter().map(|s| s.0.clone())).collect();
        let cvals = match run_c_probe(scratch, &format!("{case}_probe"), &hname, &all_names, false) { Ok(v) => v, Err(e) => { rep.machinery.push(format!("{case}: {e}")); continue; } };
        let out = generate_text(scratch, &hname, &text, &[], &[], false);
        rep.inc("bindgen_runs");
        let Some(b) = out.bindings else { push_cap(&mut rep.corr_failures, J::obj(vec![("header", J::s(&text)), ("implementation", J::s(format!("{:?} {:?}", out.error, out.panic)))])); continue; };
        let inv = match inventory(&b) { Ok(i) => i, Err(e) => { rep.machinery.push(e); continue; } };
        let actual: HashMap<String, &ConstItem> = inv.consts.iter().map(|c| (c.name.clone(), c)).collect();
        // model: integer variables
        let mut reqs = vec![]; let mut req_names = vec![];
        for (n, ty, _) in &vars {
            if ty.is_float() { continue; }
            if let Some(CV::Int { v, .. }) = cvals.get(n) { reqs.push(format!("c05 v ty={} v={}", ty.proto(), v)); req_names.push(n.clone()); }
        }
        let answers = if reqs.is_empty() { vec![] } else { model(&reqs) };
        for (n, ans) in req_names.iter().zip(answers.iter()) {
            rep.inc("correspondence_compared"); rep.inc("var_int");
            let a = actual.get(n).map(|c| format!("{}:{}", c.ty, c.val.text()));
            let ans = ans.split(' ').next().unwrap_or("").to_string();
            let ans = &ans;
            if a.as_deref() != Some(ans.as_str()) {
                push_cap(&mut rep.corr_failures, J::obj(vec![("header", J::s(text.lines().find(|l| l.contains(n.as_str())).unwrap_or(""))), ("name", J::s(n)), ("implementation", J::s(a.unwrap_or("(nothing)".into()))), ("model", J::s(ans))]));
            }
        }
        // model for floats / strings: the type name and the value clang computed
        for (n, ty, _) in &vars {
            if !ty.is_float() { continue; }
            rep.inc("correspondence_compared"); rep.inc("var_float");
            let want_ty = ty.rust_name();
            let ok = matches!(actual.get(n), Some(c) if c.ty == want_ty);
            if !ok { push_cap(&mut rep.corr_failures, J::obj(vec![("name", J::s(n)), ("implementation", J::s(format!("{:?}", actual.get(n)))), ("model", J::s(want_ty))])); }
        }
        for (n, bytes) in &strs {
            rep.inc("correspondence_compared"); rep.inc("var_string");
            let mut want = bytes.clone(); want.push(0);
            let ok = matches!(actual.get(n), Some(c) if c.val == Val::Bytes(want.clone()));
            if !ok { push_cap(&mut rep.corr_failures, J::obj(vec![("name", J::s(n)), ("implementation", J::s(format!("{:?}", actual.get(n)))), ("model", J::s(format!("bytes {:?}", want)))])); }
        }
        // oracle
        let exprs: Vec<(String, String)> = inv.consts.iter().map(|c| (c.name.clone(), format!("b::{}.pv()", c.name))).collect();
        let rvals = match run_rust_probe(scratch, &format!("{case}_rs"), &[("b".to_string(), b.clone(), exprs)]) {
            Ok(v) => v,
            Err(e) => { push_cap(&mut rep.oracle_failures, J::obj(vec![("header", J::s(&text)), ("what", J::s("emitted bindings rejected by rustc")), ("rustc", J::s(e))])); continue; }
        };
        for (i, n) in all_names.iter().enumerate() {
            rep.inc("oracle_compared");
            rep.distinct.insert(format!("v:{}", text.lines().nth(i).unwrap_or("")));
            let c = cvals.get(n);
            // a const char* variable: the C probe prints the pointed-to bytes with sizeof(pointer); use the known bytes
            let c_owned;
            let c = if let Some((_, bytes)) = strs.iter().find(|s| &s.0 == n) { let mut b = bytes.clone(); b.push(0); c_owned = CV::Str { tid: 16, bytes: b }; Some(&c_owned) } else { c };
            let rv = rvals.get(&format!("b/{n}"));
            match (c, rv) {
                (Some(c), Some(rv)) => {
                    // size / signedness of the Rust type must be those of the C type
                    let shape_ok = match (c, rv) {
                        (CV::Int { ty, .. }, RV::Int { size, signed, .. }) => *size * 8 == ty.bits() && *signed == ty.signed(),
                        (CV::Flt { ty, .. }, RV::Flt { size, .. }) => *size * 8 == ty.bits(),
                        _ => true,
                    };
                    if same_value(c, rv) && shape_ok { rep.inc("oracle_agree"); }
                    else { push_cap(&mut rep.oracle_failures, J::obj(vec![("header", J::s(text.lines().nth(i).unwrap_or(""))), ("name", J::s(n)), ("rust_value", J::s(rv_text(rv))), ("c_value", J::s(cv_text(c)))])); }
                    if rep.samples.len() < 8 && i == 0 { rep.samples.push(J::obj(vec![("kind", J::s("const variable")), ("declaration", J::s(text.lines().nth(i).unwrap_or(""))), ("clang", J::s(cv_text(c))), ("rust_probe", J::s(rv_text(rv)))])); }
                }
                _ => push_cap(&mut rep.oracle_failures, J::obj(vec![("header", J::s(text.lines().nth(i).unwrap_or(""))), ("name", J::s(n)), ("what", J::s("constant missing on one side")), ("c", J::s(format!("{c:?}"))), ("rust", J::s(format!("{rv:?}")))])),
            }
        }
    }
}

// ---------------------------------------------------------------- corpus (DESIGN §7 rows 3 and 11 and the regions' witnesses)

fn lit(text: &str, dec: bool, n: u128, suf: Suf) -> E { E::Int { text: text.into(), dec, n, suf } }

fn corpus_defs() -> Vec<(String, E)> {
    let p = |e: E| E::Paren(Box::new(e));
    vec![
        ("BIG".into(), lit("0xFFFFFFFFFFFFFFFF", false, u64::MAX as u128, Suf::None)),
        ("M1U".into(), p(E::Un("-", Box::new(lit("1u", true, 1, Suf::U))))),
        ("NOTU".into(), p(E::Un("~", Box::new(lit("0u", true, 0, Suf::U))))),
        ("CHFF".into(), E::Chr { text: "'\\xff'".into(), pre: Pre::None, code: 255 }),
        ("X".into(), lit("1", true, 1, Suf::None)),
        ("Y".into(), p(E::Bin("+", Box::new(E::Ident("X".into())), Box::new(lit("10", true, 10, Suf::None))))),
        ("X".into(), lit("2", true, 2, Suf::None)),
        ("F1".into(), E::Flt { text: "1.1f".into(), suf: 'f', b64: 1.1f64.to_bits(), b32: 1.1f32.to_bits() }),
        ("WS".into(), E::Str { text: "L\"ab\"".into(), pre: Pre::L, bytes: b"ab".to_vec() }),
        ("BIGCAST".into(), p(E::Cast(CTy::ULLong, Box::new(E::Un("-", Box::new(lit("1", true, 1, Suf::None))))))),
        ("OKHEX".into(), lit("0x7fffffff", false, 0x7fffffff, Suf::None)),
        ("NEG".into(), p(E::Un("-", Box::new(lit("5", true, 5, Suf::None))))),
        // open bodies: textual expansion re-associates (`A*3` is `1+2*3`)
        ("OPA".into(), E::Bin("+", Box::new(lit("1", true, 1, Suf::None)), Box::new(lit("2", true, 2, Suf::None)))),
        ("OPB".into(), p(E::Bin("*", Box::new(E::Ident("OPA".into())), Box::new(lit("3", true, 3, Suf::None))))),
        ("OPFLAGS".into(), E::Bin("|", Box::new(lit("4", true, 4, Suf::None)), Box::new(lit("1", true, 1, Suf::None)))),
        ("OPX".into(), p(E::Bin("&", Box::new(E::Ident("OPFLAGS".into())), Box::new(lit("3", true, 3, Suf::None))))),
        ("OPALIAS".into(), E::Ident("OPA".into())),
    ]
}


// ---------------------------------------------------------------- oracle-only search (model not available)

/// Used by the check when the Lean side does not build (broken obligation / translator failure):
/// literal macros at and around every threshold under all option sets, judged by clang and rustc
/// alone; regions are computed by the harness mirror with the types clang reports.
fn oracle_only_search(scratch: &Scratch, r: &mut Rng, rep: &mut Rep) {
    let mut defs: Vec<(String, E)> = vec![];
    let mut i = 0;
    for &v in INTERESTING.iter() {
        for d in [-1i128, 0, 1] {
            let n = v as i128 + d;
            if n < 0 || n > u64::MAX as i128 { continue; }
            for neg in [false, true] {
                let l = int_lit(r, n as u128, false);
                let e = if neg { E::Paren(Box::new(E::Un("-", Box::new(l)))) } else { l };
                defs.push((format!("M{i}"), e)); i += 1;
            }
        }
    }
    for _ in 0..200 { let n = gen_int_value(r, false); let l = int_lit(r, n, true); defs.push((format!("M{i}"), l)); i += 1; }
    let text = header_text(&defs);
    std::fs::write(scratch.path("oo.h"), &text).unwrap();
    let names: Vec<String> = defs.iter().map(|d| d.0.clone()).collect();
    let cvals = match run_c_probe(scratch, "oo_probe", "oo.h", &names, false) { Ok(v) => v, Err(e) => { rep.machinery.push(e); return; } };
    let mut tenv: HashMap<String, CTy> = HashMap::new();
    for (n, c) in &cvals { if let CV::Int { ty, .. } = c { tenv.insert(n.clone(), *ty); } }
    let flags = def_flags(&tenv, &defs);
    for os in [OptSet { sg: false, fit: false, fb: false, cstr: false }, OptSet { sg: true, fit: false, fb: false, cstr: false }, OptSet { sg: false, fit: true, fb: false, cstr: false }, OptSet { sg: true, fit: true, fb: false, cstr: false }] {
        let out = generate_text(scratch, "oo.h", &text, &os.flags(), &[], false);
        rep.inc("bindgen_runs");
        let Some(b) = out.bindings else { continue; };
        let Ok(inv) = inventory(&b) else { continue; };
        // one rustc per constant would be slow: first try all, on rejection bisect by halves
        let all: Vec<&ConstItem> = inv.consts.iter().collect();
        let mut stack: Vec<Vec<&ConstItem>> = vec![all];
        while let Some(group) = stack.pop() {
            if group.is_empty() { continue; }
            let body: String = group.iter().map(|c| format!("pub const {}: {} = {};\n", c.name, c.ty, c.val.text())).collect();
            let exprs: Vec<(String, String)> = group.iter().map(|c| (c.name.clone(), format!("m::{}.pv()", c.name))).collect();
            match run_rust_probe(scratch, &format!("oo_{}_{}", os.tag(), stack.len()), &[("m".to_string(), body, exprs)]) {
                Ok(rv) => for c in &group {
                    rep.inc("oracle_compared");
                    let (Some(cv), Some(r)) = (cvals.get(&c.name), rv.get(&format!("m/{}", c.name))) else { continue; };
                    let idx = names.iter().position(|n| n == &c.name).unwrap();
                    if same_value(cv, r) { rep.inc("oracle_agree"); }
                    else if flags[idx].any() { rep.inc("oracle_mismatch_in_known_region"); }
                    else { push_cap(&mut rep.oracle_failures, J::obj(vec![("header", J::s(format!("#define {} {}\n", c.name, defs[idx].1.to_c()))), ("options", J::s(os.tag())), ("bindgen_emits", J::s(format!("{}:{}", c.ty, c.val.text()))), ("rust_value", J::s(rv_text(r))), ("c_value", J::s(cv_text(cv)))])); }
                },
                Err(e) => {
                    if group.len() == 1 {
                        let c = group[0];
                        let idx = names.iter().position(|n| n == &c.name).unwrap();
                        push_cap(&mut rep.oracle_failures, J::obj(vec![("header", J::s(format!("#define {} {}\n", c.name, defs[idx].1.to_c()))), ("options", J::s(os.tag())), ("bindgen_emits", J::s(format!("{}:{}", c.ty, c.val.text()))),
                            ("what", J::s(format!("rustc rejects: {}", e.lines().find(|l| l.contains("error")).unwrap_or("")))), ("c_value", J::s(cvals.get(&c.name).map(cv_text).unwrap_or_default()))]));
                    } else {
                        let mid = group.len() / 2;
                        stack.push(group[..mid].to_vec());
                        stack.push(group[mid..].to_vec());
                    }
                }
            }
            if rep.oracle_failures.len() >= 3 { break; }
        }
    }
}

fn write_report(args: &Args, rep: &Rep) {
    // report
    let known = J::O(rep.known.iter().map(|(k, (n, s))| (k.clone(), J::obj(vec![("hits", J::N(*n as i128)), ("sample", s.clone())]))).collect());
    let kinds: BTreeMap<String, u64> = rep.kinds.iter().map(|(k, v)| (k.clone(), *v)).collect();
    let j = J::obj(vec![
        ("tier", J::s(&args.tier)), ("seed", J::N(args.seed as i128)),
        ("counts", J::map(&rep.counts)), ("constructor_kinds", J::map(&kinds)),
        ("distinct_nontrivial", J::N(rep.distinct.len() as i128)),
        ("samples", J::A(rep.samples.clone())),
        ("oracle_failures", J::A(rep.oracle_failures.clone())),
        ("correspondence_failures", J::A(rep.corr_failures.clone())),
        ("cmodel_failures", J::A(rep.cmodel_failures.clone())),
        ("region_failures", J::A(rep.region_failures.clone())),
        ("known", known),
        ("machinery", J::A(rep.machinery.iter().map(J::s).collect())),
    ]);
    write(&args.out.join("report.json"), &j.render());
    println!("c05: headers={} defs={} oracle_compared={} oracle_failures={} corr_failures={} cmodel_failures={} region_failures={} known={:?} machinery={}",
        rep.counts.get("macro_headers").copied().unwrap_or(0), rep.counts.get("macro_definitions").copied().unwrap_or(0),
        rep.counts.get("oracle_compared").copied().unwrap_or(0), rep.oracle_failures.len(), rep.corr_failures.len(), rep.cmodel_failures.len(),
        rep.region_failures.len(), rep.known.iter().map(|(k, v)| (k.clone(), v.0)).collect::<Vec<_>>(), rep.machinery.len());
}

// ---------------------------------------------------------------- main

fn main() {
    if std::env::var("C05_DEBUG").is_err() {
        // bindgen's own panics are caught and reported; machinery panics must stay visible
        std::panic::set_hook(Box::new(|i| {
            let loc = i.location().map(|l| l.file().to_string()).unwrap_or_default();
            if !loc.contains("/repo/") { eprintln!("harness panic: {i}"); }
        }));
    }
    let args = Args::parse();
    let mut rng = Rng::new(args.seed);
    let mut rep = Rep::default();
    let scratch = Scratch::new("c05");
    let thorough = args.thorough();

    let all_sets = || vec![
        OptSet { sg: false, fit: false, fb: false, cstr: false }, OptSet { sg: true, fit: false, fb: false, cstr: false },
        OptSet { sg: false, fit: true, fb: false, cstr: false }, OptSet { sg: true, fit: true, fb: false, cstr: false },
        OptSet { sg: false, fit: false, fb: true, cstr: false }, OptSet { sg: true, fit: true, fb: true, cstr: false },
        OptSet { sg: false, fit: false, fb: false, cstr: true },
    ];
    if args.extra.iter().any(|a| a == "--oracle-only") {
        let mut r = rng.fork();
        oracle_only_search(&scratch, &mut r, &mut rep);
        write_report(&args, &rep);
        return;
    }
    // corpus first
    macro_header_case(&scratch, "corpus", &corpus_defs(), &all_sets(), &mut rep);

    let t0 = std::time::Instant::now();
    let (n_headers, per_header) = if thorough { (24, 400) } else { (5, 300) };
    for h in 0..n_headers {
        let mut r = rng.fork();
        let defs = build_header(&mut r, per_header, &mut rep);
        macro_header_case(&scratch, &format!("m{h}"), &defs, &all_sets(), &mut rep);
    }
    eprintln!("c05: macros done at {:.0}s", t0.elapsed().as_secs_f64());
    let (eh, eper) = if thorough { (8, 70) } else { (4, 50) };
    let mut r = rng.fork();
    enum_section(&scratch, &mut r, eh, eper, thorough, &mut rep);
    eprintln!("c05: enums done at {:.0}s", t0.elapsed().as_secs_f64());
    let (vh, vper) = if thorough { (8, 300) } else { (2, 150) };
    let mut r = rng.fork();
    var_section(&scratch, &mut r, vh, vper, &mut rep);

    eprintln!("c05: vars done at {:.0}s", t0.elapsed().as_secs_f64());
    special_section(&scratch, thorough, &mut rep);
    eprintln!("c05: special cases done at {:.0}s", t0.elapsed().as_secs_f64());

    write_report(&args, &rep);
}
