//! Smoke test of the harness plumbing: generate bindings for one header with the IR dump on.
use bgverif::drive::*;
fn main() {
    quiet_panics();
    let s = Scratch::new("smoke");
    let out = generate_text(&s, "a.h", "struct S { int a:3; unsigned b:5; long c; };\nint f(struct S*);\n", &[], &[], true);
    println!("ok={} err={:?} panic={:?}", out.ok(), out.error, out.panic);
    let log = bgverif::irdump::parse_log(out.log.as_deref().unwrap_or(""));
    println!("dumps={} records={} unstable={} consulted={}", log.dumps.len(), log.dumps.first().map_or(0, |d| d.len()), log.unstable.len(), log.consulted.len());
    println!("{}", out.bindings.unwrap_or_default().lines().take(5).collect::<Vec<_>>().join("\n"));
}
