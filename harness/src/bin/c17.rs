//! C17 — reported dependencies are exactly the files that were read.
//!
//! Correspondence + oracle driver.
//!  A. make specification: random rule lines → model `makeParse` vs the installed GNU make.
//!  B. `bindgen::verif::depfile_string` vs the model's `toStringWith` on hostile names, and the
//!     round trip of that text through real make vs the model's prediction (known-finding regions).
//!  C. whole program: generated include DAGs on disk → library driver in a child process
//!     (recording ParseCallbacks + CargoCallbacks + depfile) and the CLI (`--depfile`) → callback
//!     sequence / cargo lines / depfile set vs the include-DAG model, depfile parsed by the model and
//!     by real make, file set vs `clang -H` and `clang -M`.
//!  D. (`--env-probe VAR`) failing-input search for an unannounced environment read.
use bgverif::drive::Scratch;
use bgverif::rng::Rng;
use bgverif::util::{json_str, model, run, Args};
use std::collections::{BTreeMap, BTreeSet};
use std::io::Write;
use std::path::{Path, PathBuf};
use std::process::Command;

// ------------------------------------------------------------------ child mode (library driver)

#[derive(Debug)]
struct Recorder(PathBuf);
impl Recorder {
    fn put(&self, kind: &str, s: &str) {
        if let Ok(mut f) = std::fs::OpenOptions::new().create(true).append(true).open(&self.0) {
            let _ = writeln!(f, "{kind} {}", hex(s.as_bytes()));
        }
    }
}
impl bindgen::callbacks::ParseCallbacks for Recorder {
    fn header_file(&self, f: &str) {
        self.put("header", f)
    }
    fn include_file(&self, f: &str) {
        self.put("include", f)
    }
    fn read_env_var(&self, k: &str) {
        self.put("env", k)
    }
}

fn hex(b: &[u8]) -> String {
    if b.is_empty() {
        return "-".into();
    }
    b.iter().map(|x| format!("{x:02x}")).collect()
}
fn hexs(s: &str) -> String {
    hex(s.as_bytes())
}
fn unhex(s: &str) -> Vec<u8> {
    if s == "-" {
        return vec![];
    }
    (0..s.len() / 2).map(|i| u8::from_str_radix(&s[2 * i..2 * i + 2], 16).unwrap_or(0)).collect()
}
fn unhex_s(s: &str) -> String {
    String::from_utf8_lossy(&unhex(s)).into_owned()
}
fn hex_list(l: &[String]) -> String {
    if l.is_empty() {
        ".".into()
    } else {
        l.iter().map(|s| hexs(s)).collect::<Vec<_>>().join(",")
    }
}
fn unhex_list(s: &str) -> Vec<String> {
    if s == "." {
        vec![]
    } else {
        s.split(',').map(unhex_s).collect()
    }
}

/// `c17 --child <spec>`: the spec is a list of `key hex…` lines.
fn child(spec: &str) -> i32 {
    let text = std::fs::read_to_string(spec).unwrap();
    let mut b = bindgen::Builder::default();
    let mut out = None;
    for line in text.lines() {
        let t: Vec<&str> = line.split(' ').collect();
        match t[0] {
            "cwd" => std::env::set_current_dir(unhex_s(t[1])).unwrap(),
            "header" => b = b.header(unhex_s(t[1])),
            "contents" => b = b.header_contents(&unhex_s(t[1]), &unhex_s(t[2])),
            "clangarg" => b = b.clang_arg(unhex_s(t[1])),
            "depfile" => b = b.depfile(unhex_s(t[1]), unhex_s(t[2])),
            "cargo" => match t[1] {
                "1" => b = b.parse_callbacks(Box::new(bindgen::CargoCallbacks::new())),
                "2" => b = b.parse_callbacks(Box::new(bindgen::CargoCallbacks::new().rerun_on_header_files(false))),
                _ => {}
            },
            "log" => b = b.parse_callbacks(Box::new(Recorder(PathBuf::from(unhex_s(t[1]))))),
            "out" => out = Some(unhex_s(t[1])),
            // what is generated must not change which files are reported as read
            "codegen" => match t[1] {
                "1" => b = b.with_codegen_config(bindgen::CodegenConfig::FUNCTIONS | bindgen::CodegenConfig::TYPES),
                "2" => b = b.with_codegen_config(bindgen::CodegenConfig::TYPES),
                _ => {}
            },
            _ => {}
        }
    }
    match b.generate() {
        Ok(bindings) => {
            if let Some(o) = out {
                if bindings.write_to_file(o).is_err() {
                    return 3;
                }
            }
            0
        }
        Err(e) => {
            eprintln!("bindgen-error: {e:?}");
            1
        }
    }
}

/// run with a wall-clock limit; exit code -9 = killed after `secs`
fn run_timeout(cmd: &mut Command, secs: u64) -> (i32, String, String) {
    use std::io::Read;
    use std::process::Stdio;
    let mut child = match cmd.stdin(Stdio::null()).stdout(Stdio::piped()).stderr(Stdio::piped()).spawn() {
        Ok(c) => c,
        Err(e) => return (-1, String::new(), format!("spawn failed: {e}")),
    };
    let mut so = child.stdout.take().unwrap();
    let mut se = child.stderr.take().unwrap();
    let t1 = std::thread::spawn(move || { let mut b = Vec::new(); let _ = so.read_to_end(&mut b); b });
    let t2 = std::thread::spawn(move || { let mut b = Vec::new(); let _ = se.read_to_end(&mut b); b });
    let t0 = std::time::Instant::now();
    let rc = loop {
        match child.try_wait() {
            Ok(Some(s)) => break s.code().unwrap_or(-1),
            Ok(None) => {
                if t0.elapsed().as_secs() > secs {
                    let _ = child.kill();
                    let _ = child.wait();
                    break -9;
                }
                std::thread::sleep(std::time::Duration::from_millis(5));
            }
            Err(_) => break -1,
        }
    };
    let o = t1.join().unwrap_or_default();
    let e = t2.join().unwrap_or_default();
    (rc, String::from_utf8_lossy(&o).into_owned(), String::from_utf8_lossy(&e).into_owned())
}

// ------------------------------------------------------------------ real make

const MF: &str = "__bgverif_mf__";

/// Feed `text` (exactly, no newline added) to GNU make as a makefile and read the rule database:
/// sorted entries `T target: prereqs…` / `N name:` (a file that is only a prerequisite).
/// `None`: make rejected the makefile.
fn make_entries(dir: &Path, text: &[u8]) -> Option<Vec<String>> {
    std::fs::write(dir.join(MF), text).unwrap();
    let o = Command::new("env")
        .arg("-i")
        .arg("make")
        .arg("-pqr")
        .arg("-f")
        .arg(MF)
        .current_dir(dir)
        .output()
        .ok()?;
    let err = String::from_utf8_lossy(&o.stderr);
    if err.contains("***") && !err.contains("No rule to make target") && !err.contains("No targets") {
        return None;
    }
    let out = String::from_utf8_lossy(&o.stdout).into_owned();
    let i = out.find("# Files")?;
    let j = out.find("# files hash-table stats").unwrap_or(out.len());
    let sec: Vec<&str> = out[i..j].split('\n').collect();
    let mut ents = vec![];
    let mut k = 0;
    while k < sec.len() {
        let l = sec[k];
        if l.starts_with("# Not a target:") {
            if k + 1 < sec.len() {
                ents.push(format!("N {}", sec[k + 1]));
            }
            k += 2;
            continue;
        }
        if !l.is_empty() && !l.starts_with('#') && !l.starts_with('\t') && k > 0 && sec[k - 1].is_empty() {
            ents.push(format!("T {l}"));
        }
        k += 1;
    }
    ents.retain(|e| e != &format!("N {MF}:") && e != "N .DEFAULT:");
    ents.sort();
    Some(ents)
}

/// the database entries a parse `(targets, deps)` corresponds to
fn render(tgs: &[String], deps: &[String]) -> Vec<String> {
    let mut ents = vec![];
    let mut seen = BTreeSet::new();
    for t in tgs {
        if !seen.insert(t.clone()) {
            continue;
        }
        let mut s = format!("T {t}:");
        if !deps.is_empty() {
            s.push(' ');
            s.push_str(&deps.join(" "));
        }
        ents.push(s);
    }
    for d in deps {
        if seen.insert(d.clone()) {
            ents.push(format!("N {d}:"));
        }
    }
    ents.sort();
    ents
}

/// cases in which the database text cannot be compared reliably (several targets, a target among
/// its own prerequisites — make drops it —, names beginning with `#`, names equal to the makefile)
fn comparable(tgs: &[String], deps: &[String]) -> bool {
    tgs.len() == 1
        && !deps.contains(&tgs[0])
        && tgs.iter().chain(deps.iter()).all(|n| !n.starts_with('#') && n != MF && n != ".DEFAULT" && !n.is_empty())
}

/// parse the model's `T=… D=…` answer
fn parse_answer(a: &str) -> Option<(Vec<String>, Vec<String>)> {
    let mut t = None;
    let mut d = None;
    for tok in a.split(' ') {
        if let Some(x) = tok.strip_prefix("T=") {
            t = Some(unhex_list(x));
        } else if let Some(x) = tok.strip_prefix("D=") {
            d = Some(unhex_list(x));
        }
    }
    Some((t?, d?))
}

/// make's own spelling of a name: leading `./` (and following slashes) removed
fn sd(n: &str) -> String {
    let mut s = n;
    while s.len() > 2 && s.starts_with("./") {
        s = &s[2..];
        s = s.trim_start_matches('/');
        if s.is_empty() {
            return "./".into();
        }
    }
    s.to_owned()
}

// region predicates — identical to Model/Depfile.lean regionHash / regionDollar / regionBackslash
fn region_hash(table_fixed: bool, n: &str) -> bool {
    n.contains('#') && !table_fixed
}
fn region_dollar(table_fixed: bool, n: &str) -> bool {
    n.contains('$') && !table_fixed
}
fn region_backslash(n: &str) -> bool {
    let c: Vec<char> = n.chars().collect();
    for i in 0..c.len() {
        if c[i] == '\\' && (i + 1 == c.len() || (c[i + 1] != ' ' && c[i + 1] != '\\')) {
            return true;
        }
    }
    false
}
/// the last prerequisite (or, with no prerequisite, nothing) ends in a space
fn region_trailing_space(deps: &[String]) -> bool {
    deps.last().map_or(false, |d| d.ends_with(' '))
}
/// characters of the property's quantifier: anything except make metacharacters other than
/// space, backslash, `#`, `$`
fn in_quantifier(n: &str) -> bool {
    !n.is_empty() && n.chars().all(|c| !"%;=*?[]~()|&\n\r\0\t:".contains(c))
}

// ------------------------------------------------------------------ statistics / failures

#[derive(Default)]
struct Stats {
    counters: BTreeMap<String, u64>,
    failures: Vec<(String, String, String)>, // (kind, class, json input)
    known: BTreeMap<String, (u64, String)>,  // finding id -> (count, first witness json)
    samples: Vec<String>,
    distinct: BTreeSet<String>,
}
impl Stats {
    fn inc(&mut self, k: &str) {
        *self.counters.entry(k.to_owned()).or_insert(0) += 1;
    }
    fn add(&mut self, k: &str, n: u64) {
        *self.counters.entry(k.to_owned()).or_insert(0) += n;
    }
    fn fail(&mut self, kind: &str, class: &str, input: String) {
        if self.failures.len() < 40 {
            self.failures.push((kind.into(), class.into(), input));
        }
        self.inc(&format!("FAIL:{kind}:{class}"));
    }
    fn known(&mut self, id: &str, witness: String) {
        let e = self.known.entry(id.to_owned()).or_insert((0, witness));
        e.0 += 1;
    }
    fn merge(&mut self, o: Stats) {
        for (k, v) in o.counters {
            *self.counters.entry(k).or_insert(0) += v;
        }
        for f in o.failures {
            if self.failures.len() < 40 {
                self.failures.push(f);
            }
        }
        for (k, (n, w)) in o.known {
            let e = self.known.entry(k).or_insert((0, w));
            e.0 += n;
        }
        for s in o.samples {
            if self.samples.len() < 6 {
                self.samples.push(s);
            }
        }
        self.distinct.extend(o.distinct);
    }
}

fn jobj(kv: &[(&str, String)]) -> String {
    format!("{{{}}}", kv.iter().map(|(k, v)| format!("{}:{}", json_str(k), v)).collect::<Vec<_>>().join(","))
}
fn jlist(l: &[String]) -> String {
    format!("[{}]", l.iter().map(|s| json_str(s)).collect::<Vec<_>>().join(","))
}

// ------------------------------------------------------------------ A. make specification

fn part_a(rng: &mut Rng, n: usize, st: &mut Stats) {
    let s = Scratch::new("c17mk");
    let alpha: Vec<&str> = vec!["a", "b", "\\", "\\", " ", " ", "#", "$", ":", "\t", ".", "/", "é", "a", "b", " "];
    let rare: Vec<&str> = vec!["%", "~", "(", ";", "="];
    let talpha: Vec<&str> = vec!["o", "\\", " ", "$", "#", ".", "/"];
    let mut lines = vec![];
    for _ in 0..n {
        let mode = rng.below(8);
        let mut line = String::new();
        if mode == 0 {
            for _ in 0..rng.range(1, 13) {
                line.push_str(*rng.pick::<&str>(&alpha));
            }
        } else {
            let hostile = rng.chance(3, 10);
            for _ in 0..rng.range(1, 4) {
                if hostile {
                    line.push_str(*rng.pick::<&str>(&talpha));
                } else {
                    line.push_str(*rng.pick::<&str>(&["o", "u"]));
                }
            }
            line.push(':');
            for _ in 0..rng.range(0, 13) {
                if rng.chance(1, 60) {
                    line.push_str(*rng.pick::<&str>(&rare));
                } else {
                    line.push_str(*rng.pick::<&str>(&alpha));
                }
            }
        }
        lines.push(line);
    }
    let reqs: Vec<String> = lines.iter().map(|l| format!("c17 dep parse {}", hexs(l))).collect();
    let ans = model(&reqs);
    for (l, a) in lines.iter().zip(ans.iter()) {
        st.inc("A.lines");
        if a == "none" {
            st.inc("A.model_none");
            continue;
        }
        let Some((t, d)) = parse_answer(a) else {
            st.fail("correspondence", "make-spec-driver", jobj(&[("line", json_str(l)), ("model", json_str(a))]));
            continue;
        };
        if !comparable(&t, &d) {
            st.inc("A.not_comparable");
            continue;
        }
        let real = make_entries(&s.0, l.as_bytes());
        let want = render(&t, &d);
        st.inc("A.compared");
        st.distinct.insert(format!("A:{}", want.join("|")));
        if real.as_ref() != Some(&want) {
            st.fail(
                "correspondence",
                "make-spec",
                jobj(&[("part", json_str("A")), ("line", json_str(l)), ("model", jlist(&want)), ("make", real.map_or("null".into(), |r| jlist(&r)))]),
            );
        } else if st.samples.len() < 2 {
            st.samples.push(jobj(&[("part", json_str("A")), ("line", json_str(l)), ("make_and_model", jlist(&want))]));
        }
    }
}

// ------------------------------------------------------------------ B. depfile_string + round trip

fn hostile_name(rng: &mut Rng) -> String {
    // mostly in-quantifier characters, sometimes tab / colon / other metacharacters
    let base: Vec<&str> = vec!["a", "b", "c", "x", "/", ".", " ", " ", "\\", "#", "$", "é", "ü", "日", "-", "_", "h"];
    let extra: Vec<&str> = vec!["\t", ":", ";", "=", "%", "*", "~", "(", "\n"];
    let mut s = String::new();
    let kind = rng.below(10);
    let len = rng.range(1, 10);
    for _ in 0..len {
        if kind == 0 && rng.chance(1, 4) {
            s.push_str(*rng.pick::<&str>(&extra));
        } else if kind <= 3 {
            s.push_str(*rng.pick::<&str>(&["a", "b", "/", ".", "h", "_"]));
            if rng.chance(1, 5) {
                s.push(' ');
            }
        } else {
            s.push_str(*rng.pick::<&str>(&base));
        }
    }
    if rng.chance(1, 6) {
        s = format!("./{s}");
    }
    s
}

fn part_b(rng: &mut Rng, n: usize, n_make: usize, table_fixed: bool, st: &mut Stats) {
    let s = Scratch::new("c17rt");
    let mut cases = vec![];
    for _ in 0..n {
        let tgt = if rng.chance(1, 2) { "out.rs".to_owned() } else { hostile_name(rng) };
        let mut deps = BTreeSet::new();
        for _ in 0..rng.range(0, 5) {
            deps.insert(hostile_name(rng));
        }
        let deps: Vec<String> = deps.into_iter().collect(); // BTreeSet order = byte order, as in bindgen
        cases.push((tgt, deps));
    }
    // fixed witnesses first (DESIGN §7 row 9 and the Lean witness lemmas)
    let w = |t: &str, d: &[&str]| (t.to_owned(), d.iter().map(|x| x.to_string()).collect::<Vec<_>>());
    let mut all = vec![
        w("out", &["a#b", "c"]),
        w("out", &["a$b"]),
        w("out", &["a\\b"]),
        w("out", &["a\\ b", "c"]),
        w("out", &["a "]),
        w("out.rs", &["./inc/b#x.h", "./inc/d$y z.h", "main.h"]),
        w("Mod Name", &["../path/with spaces/in/it", "/absolute/path", "C:\\win\\absolute\\path"]),
    ];
    all.extend(cases);
    let reqs: Vec<String> = all.iter().map(|(t, d)| format!("c17 dep rt {} {}", hexs(t), hex_list(d))).collect();
    let ans = model(&reqs);
    for (idx, ((tgt, deps), a)) in all.iter().zip(ans.iter()).enumerate() {
        st.inc("B.cases");
        let refs: Vec<&str> = deps.iter().map(|s| s.as_str()).collect();
        let real = bindgen::verif::depfile_string(tgt, &refs);
        let toks: BTreeMap<&str, &str> = a.split(' ').filter_map(|t| t.split_once('=')).collect();
        let mtext = toks.get("text").map(|h| unhex_s(h)).unwrap_or_default();
        let input = |extra: Vec<(&str, String)>| {
            let mut v = vec![("part", json_str("B")), ("target", json_str(tgt)), ("deps", jlist(deps)), ("depfile_text", json_str(&real))];
            v.extend(extra);
            jobj(&v)
        };
        if mtext != real {
            st.fail("correspondence", "depfile_string-vs-toStringWith", input(vec![("model_text", json_str(&mtext))]));
            // failing-input search without the model: does the real make read the names back?
            let names: Vec<&String> = std::iter::once(tgt).chain(deps.iter()).collect();
            let want_t = vec![sd(tgt)];
            let want_d: Vec<String> = deps.iter().map(|d| sd(d)).collect();
            if comparable(&want_t, &want_d) && names.iter().all(|n| !n.is_empty() && in_quantifier(n))
                && !names.iter().any(|n| region_hash(table_fixed, n) || region_dollar(table_fixed, n) || region_backslash(n)) && !region_trailing_space(deps) {
                let real_entries = make_entries(&s.0, real.as_bytes());
                if real_entries.as_ref() != Some(&render(&want_t, &want_d)) {
                    st.fail("oracle-failure", "depfile-roundtrip", input(vec![("make_reads", real_entries.map_or("null".into(), |r| jlist(&r))), ("note", json_str("found while the model is out of step"))]));
                }
            }
            continue;
        }
        st.distinct.insert(format!("B:{real}"));
        if idx >= n_make + 7 {
            continue;
        }
        // round trip through the real make
        let names: Vec<&String> = std::iter::once(tgt).chain(deps.iter()).collect();
        let mparse = if a.contains(" none ") { None } else { parse_answer(a) };
        let want_t = vec![sd(tgt)];
        let want_d: Vec<String> = deps.iter().map(|d| sd(d)).collect();
        if !comparable(&want_t, &want_d) || names.iter().any(|n| n.is_empty()) {
            st.inc("B.not_comparable");
            continue;
        }
        let real_entries = make_entries(&s.0, real.as_bytes());
        let ok_real = real_entries.as_ref() == Some(&render(&want_t, &want_d));
        let ok_model = mparse.as_ref().map_or(false, |(t, d)| t == &want_t && d == &want_d);
        st.inc("B.make_runs");
        // the model of make must agree with make whenever it claims to know
        if let Some((t, d)) = &mparse {
            if comparable(t, d) && real_entries.as_ref() != Some(&render(t, d)) {
                st.fail("correspondence", "make-spec", input(vec![("model_parse", jlist(&render(t, d))), ("make", real_entries.clone().map_or("null".into(), |r| jlist(&r)))]));
                continue;
            }
        }
        if ok_real {
            st.inc("B.roundtrip_ok");
            if mparse.is_some() && !ok_model {
                st.fail("correspondence", "make-spec", input(vec![("note", json_str("make round-trips, model says it does not"))]));
            }
            if st.samples.len() < 4 && deps.iter().any(|d| d.contains(' ')) {
                st.samples.push(input(vec![("make_reads", jlist(&render(&want_t, &want_d)))]));
            }
            continue;
        }
        // make does not read the names back
        if !names.iter().all(|n| in_quantifier(n)) {
            st.inc("B.outside_quantifier");
            continue;
        }
        let rh = names.iter().any(|n| region_hash(table_fixed, n));
        let rd = names.iter().any(|n| region_dollar(table_fixed, n));
        let rb = names.iter().any(|n| region_backslash(n));
        let rt = region_trailing_space(deps) ;
        // cross-check the region flags with the model's
        let flags = format!("rh={} rd={} rb={}", rh as u8, rd as u8, rb as u8);
        if !a.ends_with(&flags) {
            st.fail("correspondence", "region-predicates", input(vec![("harness", json_str(&flags)), ("model", json_str(a))]));
            continue;
        }
        // predicted by the model?  (model unmodelled = cannot predict)
        // the model predicts what make does: the same reading, or (model `none`) make rejecting the line
        let predicted = match &mparse {
            Some((t, d)) => real_entries.as_ref() == Some(&render(t, d)),
            None => real_entries.is_none(),
        };
        let wit = input(vec![("make_reads", real_entries.clone().map_or("null".into(), |r| jlist(&r)))]);
        if (rh || rd) && predicted {
            st.known("depfile_hash_dollar", wit);
        } else if rb && predicted {
            st.known("depfile_backslash", wit);
        } else if rt && predicted {
            st.known("depfile_trailing_space", wit);
        } else if mparse.is_none() && real_entries.is_some() && (rh || rd || rb || rt) {
            // in a known region but the model does not follow make here ($x after a backslash …)
            st.inc("B.region_unpredicted");
        } else {
            st.fail("oracle-failure", "depfile-roundtrip", wit);
        }
    }
}

// ------------------------------------------------------------------ C. include DAGs

#[derive(Clone, Debug)]
enum D {
    Incl { angle: bool, name: usize },
    Cond { active: bool, form: u8, body: Vec<D> },
}

#[derive(Clone, Debug)]
struct FileSpec {
    dir: usize,
    base: String,
    guard: u8, // 0 none, 1 ifndef, 2 pragma once
    body: Vec<D>,
    level: u32,
}

#[derive(Clone, Debug)]
struct Case {
    dirs: Vec<String>, // relative to cwd, dirs[0] = "."
    q: Vec<usize>,
    i: Vec<usize>,
    s: Vec<usize>,
    files: Vec<FileSpec>,
    names: Vec<String>,
    inputs: Vec<usize>,
    input_style: Vec<u8>, // 0 relative, 1 ./relative, 2 absolute
    virt: Vec<(String, Vec<D>)>,
    target: Option<String>,        // TARGET in the child's environment
    extra_set: Vec<String>,        // which BINDGEN_EXTRA_CLANG_ARGS* keys are set
    cargo_mode: u8,                // 1 = CargoCallbacks::new(), 2 = rerun_on_header_files(false)
    module: String,
}

fn path_of(dirs: &[String], d: usize, name: &str) -> String {
    if dirs[d] == "." {
        name.to_owned()
    } else {
        format!("{}/{}", dirs[d], name)
    }
}

impl Case {
    fn file_path(&self, f: usize) -> String {
        path_of(&self.dirs, self.files[f].dir, &self.files[f].base)
    }
    /// (dir, name) → file: which generated file lives at dirs[d]/name
    fn lookup(&self, d: usize, name: usize) -> Option<usize> {
        let p = path_of(&self.dirs, d, &self.names[name]);
        (0..self.files.len()).find(|&f| self.file_path(f) == p)
    }
    fn name_id(&mut self, s: &str) -> usize {
        if let Some(i) = self.names.iter().position(|n| n == s) {
            i
        } else {
            self.names.push(s.to_owned());
            self.names.len() - 1
        }
    }
    /// generation-time copy of the model's `resolve` (only used to avoid dead includes)
    fn resolve(&self, includer_dir: usize, angle: bool, name: usize) -> Option<usize> {
        let mut ds = vec![];
        if !angle {
            ds.push(includer_dir);
            ds.extend(&self.q);
        }
        ds.extend(&self.i);
        ds.extend(&self.s);
        ds.into_iter().find_map(|d| self.lookup(d, name))
    }
}

fn body_str(b: &[D]) -> String {
    if b.is_empty() {
        return "-".into();
    }
    b.iter()
        .map(|d| match d {
            D::Incl { angle, name } => format!("{}{}", if *angle { 'a' } else { 'q' }, name),
            D::Cond { active, body, .. } => format!("{}({})", if *active { 'T' } else { 'F' }, body_str(body)),
        })
        .collect::<Vec<_>>()
        .join(",")
}

fn nat_list(l: &[usize]) -> String {
    if l.is_empty() {
        ".".into()
    } else {
        l.iter().map(|x| x.to_string()).collect::<Vec<_>>().join(",")
    }
}

fn model_request(c: &Case) -> String {
    let mut fs = vec![];
    for d in 0..c.dirs.len() {
        for n in 0..c.names.len() {
            if let Some(f) = c.lookup(d, n) {
                fs.push(format!("{d}:{n}:{f}"));
            }
        }
    }
    let files: Vec<String> = c
        .files
        .iter()
        .map(|f| format!("{}:{}:{}", f.dir, ["n", "g", "o"][f.guard as usize], body_str(&f.body)))
        .collect();
    let virt: Vec<String> = c.virt.iter().map(|(_, b)| body_str(b)).collect();
    format!(
        "c17 inc fuel=6000 cwd=0 q={} I={} S={} fs={} files={} inputs={} virt={}",
        nat_list(&c.q),
        nat_list(&c.i),
        nat_list(&c.s),
        if fs.is_empty() { ".".into() } else { fs.join(",") },
        if files.is_empty() { ".".into() } else { files.join(";") },
        nat_list(&c.inputs),
        if virt.is_empty() { ".".into() } else { virt.join(";") }
    )
}

fn render_body(c: &Case, b: &[D], out: &mut String) {
    for d in b {
        match d {
            D::Incl { angle, name } => {
                if *angle {
                    out.push_str(&format!("#include <{}>\n", c.names[*name]));
                } else {
                    out.push_str(&format!("#include \"{}\"\n", c.names[*name]));
                }
            }
            D::Cond { active, form, body } => {
                let open = if *active {
                    ["#if 1", "#ifndef BGV_UNDEFINED", "#if defined(__clang__)"][(*form % 3) as usize]
                } else {
                    ["#if 0", "#ifdef BGV_UNDEFINED", "#if defined(BGV_UNDEFINED) && 1"][(*form % 3) as usize]
                };
                out.push_str(open);
                out.push('\n');
                render_body(c, body, out);
                out.push_str("#endif\n");
            }
        }
    }
}

fn file_text(c: &Case, f: usize) -> String {
    let fs = &c.files[f];
    let mut t = String::new();
    match fs.guard {
        1 => t.push_str(&format!("#ifndef BGV_G_{f}\n#define BGV_G_{f}\n")),
        2 => t.push_str("#pragma once\n"),
        _ => {}
    }
    render_body(c, &fs.body, &mut t);
    t.push_str(&format!("extern int bgv_v_{f};\n"));
    if fs.guard == 1 {
        t.push_str("#endif\n");
    }
    t
}

fn gen_body(rng: &mut Rng, c: &mut Case, includer_dir: usize, level: u32, fanout: u64, depth: u32, kinds: &mut BTreeSet<String>) -> Vec<D> {
    let mut body = vec![];
    let n = rng.range(0, fanout);
    for _ in 0..n {
        let r = rng.below(100);
        if r < 12 && depth < 2 {
            // inactive region: anything goes, including files that do not exist
            let mut inner = vec![];
            for _ in 0..rng.range(1, 2) {
                let nm = if rng.chance(1, 2) {
                    c.name_id("does not exist.h")
                } else {
                    let f = rng.below(c.files.len() as u64) as usize;
                    let b = c.files[f].base.clone();
                    c.name_id(&b)
                };
                inner.push(D::Incl { angle: rng.chance(1, 3), name: nm });
            }
            kinds.insert("cond-false".into());
            body.push(D::Cond { active: false, form: rng.below(3) as u8, body: inner });
            continue;
        }
        if r < 22 && depth < 2 {
            let inner = gen_body(rng, c, includer_dir, level, 2, depth + 1, kinds);
            kinds.insert("cond-true".into());
            body.push(D::Cond { active: true, form: rng.below(3) as u8, body: inner });
            continue;
        }
        // pick a target: deeper level, or (rarely) any guarded file (cycle / back edge)
        let cands: Vec<usize> = (0..c.files.len())
            .filter(|&t| c.files[t].level > level || (c.files[t].guard != 0 && c.files[t].level > 0 && rng.chance(1, 12)))
            .collect();
        if cands.is_empty() {
            continue;
        }
        let t = *rng.pick(&cands);
        let tdir = c.dirs[c.files[t].dir].clone();
        // candidate spellings of t
        let mut spellings = vec![c.files[t].base.clone()];
        if let Some((parent, sub)) = tdir.rsplit_once('/') {
            let _ = parent;
            spellings.push(format!("{}/{}", sub, c.files[t].base));
        } else if tdir != "." {
            spellings.push(format!("{}/{}", tdir, c.files[t].base));
        }
        let mut tries = vec![];
        for sp in &spellings {
            for angle in [false, true] {
                tries.push((sp.clone(), angle));
            }
        }
        // shuffle
        for k in (1..tries.len()).rev() {
            let j = rng.below(k as u64 + 1) as usize;
            tries.swap(k, j);
        }
        let accept_any = rng.chance(1, 5);
        for (sp, angle) in tries {
            let nm = c.name_id(&sp);
            match c.resolve(includer_dir, angle, nm) {
                Some(r) if r == t || accept_any => {
                    kinds.insert(if angle { "angle".into() } else { "quote".into() });
                    if r != t {
                        kinds.insert("shadowed".into());
                    }
                    if sp.contains('/') {
                        kinds.insert("subdir-spelling".into());
                    }
                    body.push(D::Incl { angle, name: nm });
                    break;
                }
                _ => {}
            }
        }
    }
    body
}

const HOSTILE_BASES: &[&str] = &[
    "b c.h", "d#e.h", "f$g.h", "h\\i.h", "é.h", "日本.h", "j k#l$m.h", "n\\ o.h", "p$$q.h", "r##s.h", "t\\\\u.h", "v w x.h",
    " lead.h", "w$.h", "#x.h",
];
const EXOTIC_BASES: &[&str] = &["y\tz.h", "c:d.h", "e;f.h", "g=h.h", "trail .h"];
const PLAIN_BASES: &[&str] = &["a.h", "b.h", "c.h", "d.h", "e.h", "util.h", "types.h", "cfg.h", "x.h", "y.h"];

fn gen_case(rng: &mut Rng, thorough: bool, kinds: &mut BTreeSet<String>) -> Case {
    let idir = rng.pick(&["inc", "in c", "i#d", "i$d", "üdir", "inc"]).to_string();
    let dirs = vec![".".to_owned(), idir.clone(), "sys".to_owned(), format!("{idir}/sub"), "local".to_owned(), "quo".to_owned()];
    let mut c = Case {
        dirs,
        q: if rng.chance(1, 3) { vec![5] } else { vec![] },
        i: if rng.chance(4, 5) { vec![1] } else { vec![] },
        s: if rng.chance(3, 5) { vec![2] } else { vec![] },
        files: vec![],
        names: vec![],
        inputs: vec![],
        input_style: vec![],
        virt: vec![],
        target: None,
        extra_set: vec![],
        cargo_mode: if rng.chance(1, 4) { 2 } else { 1 },
        module: if rng.chance(1, 3) { "out dir/bind#ings$.rs".into() } else { "out.rs".into() },
    };
    if idir != "inc" {
        kinds.insert("hostile-dir".into());
    }
    let hostile = rng.chance(1, 2);
    let exotic = rng.chance(1, 12);
    let nfiles = rng.range(2, if thorough { 22 } else { 14 }) as usize;
    let ninputs = match rng.below(10) {
        0 => 0,
        1..=6 => 1,
        7 | 8 => 2,
        _ => 3,
    }
    .min(nfiles);
    let mut used = BTreeSet::new();
    for f in 0..nfiles {
        let is_input = f < ninputs;
        let dir = if is_input {
            if rng.chance(1, 4) {
                4
            } else {
                0
            }
        } else {
            *rng.pick(&[0usize, 1, 1, 2, 3, 4, 5, 0])
        };
        let mut base;
        let mut tries = 0;
        loop {
            base = if exotic && rng.chance(1, 4) {
                rng.pick(EXOTIC_BASES).to_string()
            } else if hostile && rng.chance(2, 5) {
                rng.pick(HOSTILE_BASES).to_string()
            } else {
                rng.pick(PLAIN_BASES).to_string()
            };
            if is_input {
                base = format!("in{f}_{base}");
            }
            tries += 1;
            if used.insert((dir, base.clone())) {
                break;
            }
            if tries > 20 {
                base = format!("u{f}_{base}");
                used.insert((dir, base.clone()));
                break;
            }
        }
        for ch in ['#', '$', '\\', ' ', 'é', '日', '\t', ':'] {
            if base.contains(ch) {
                kinds.insert(format!("name-char-{}", match ch { '#' => "hash", '$' => "dollar", '\\' => "backslash", ' ' => "space", '\t' => "tab", ':' => "colon", _ => "nonascii" }));
            }
        }
        let level = if is_input { 0 } else { rng.range(1, 6) as u32 };
        let guard = if is_input { *rng.pick(&[0u8, 0, 1, 2]) } else { *rng.pick(&[0u8, 1, 1, 2, 2, 0, 1, 2]) };
        c.files.push(FileSpec { dir, base, guard, body: vec![], level });
    }
    // bodies (need all files to exist first)
    for f in 0..nfiles {
        let level = c.files[f].level;
        let dir = c.files[f].dir;
        let fan = if c.files[f].guard == 0 && level > 0 { 2 } else { 5 };
        let b = gen_body(rng, &mut c, dir, level, fan, 0, kinds);
        c.files[f].body = b;
        kinds.insert(format!("guard-{}", ["none", "ifndef", "once"][c.files[f].guard as usize]));
    }
    c.inputs = (0..ninputs).collect();
    if ninputs >= 2 && rng.chance(1, 6) {
        // the same header given twice
        c.inputs.push(0);
        kinds.insert("input-repeated".into());
    }
    c.input_style = c.inputs.iter().map(|_| rng.below(3) as u8).collect();
    let nvirt = if ninputs == 0 { rng.range(1, 2) } else if rng.chance(1, 4) { rng.range(1, 2) } else { 0 };
    for v in 0..nvirt {
        let b = gen_body(rng, &mut c, 0, 0, 4, 0, kinds);
        c.virt.push((format!("virt{v} mem.h"), b));
        kinds.insert("header_contents".into());
    }
    kinds.insert(format!("inputs-{}", ninputs));
    match rng.below(6) {
        0 | 1 => {
            c.target = Some("x86_64-unknown-linux-gnu".into());
            kinds.insert("TARGET-set".into());
            match rng.below(4) {
                0 => c.extra_set.push("BINDGEN_EXTRA_CLANG_ARGS_x86_64-unknown-linux-gnu".into()),
                1 => c.extra_set.push("BINDGEN_EXTRA_CLANG_ARGS_x86_64_unknown_linux_gnu".into()),
                2 => c.extra_set.push("BINDGEN_EXTRA_CLANG_ARGS".into()),
                _ => {}
            }
        }
        2 => {
            c.extra_set.push("BINDGEN_EXTRA_CLANG_ARGS".into());
        }
        _ => {}
    }
    for k in &c.extra_set {
        kinds.insert(format!("env-{k}"));
    }
    c
}

fn input_arg(c: &Case, root: &Path, k: usize) -> String {
    let p = c.file_path(c.inputs[k]);
    match c.input_style[k] {
        1 => format!("./{p}"),
        2 => root.join(&p).to_string_lossy().into_owned(),
        _ => p,
    }
}

fn clang_flags(c: &Case) -> Vec<String> {
    let mut v = vec![];
    for &d in &c.q {
        v.push("-iquote".into());
        v.push(c.dirs[d].clone());
    }
    for &d in &c.i {
        if d % 2 == 1 && c.dirs[d].len() % 2 == 0 {
            v.push(format!("-I{}", c.dirs[d]));
        } else {
            v.push("-I".into());
            v.push(c.dirs[d].clone());
        }
    }
    for &d in &c.s {
        v.push("-isystem".into());
        v.push(c.dirs[d].clone());
    }
    v
}

fn canon(root: &Path, p: &str) -> Option<PathBuf> {
    let pp = if Path::new(p).is_absolute() { PathBuf::from(p) } else { root.join(p) };
    std::fs::canonicalize(pp).ok()
}

/// parse clang's `-M` output (its own escaping: `\ `, `\#`, `$$`, backslash-newline)
fn parse_clang_m(text: &str) -> Vec<String> {
    let joined = text.replace("\\\n", " ");
    let body = match joined.find(": ") {
        Some(i) => &joined[i + 2..],
        None => return vec![],
    };
    let mut out = vec![];
    let mut cur = String::new();
    let cs: Vec<char> = body.chars().collect();
    let mut i = 0;
    while i < cs.len() {
        let c = cs[i];
        if c == '\\' && i + 1 < cs.len() && (cs[i + 1] == ' ' || cs[i + 1] == '#' || cs[i + 1] == '\\') {
            cur.push(cs[i + 1]);
            i += 2;
        } else if c == '$' && i + 1 < cs.len() && cs[i + 1] == '$' {
            cur.push('$');
            i += 2;
        } else if c == ' ' || c == '\n' {
            if !cur.is_empty() {
                out.push(std::mem::take(&mut cur));
            }
            i += 1;
        } else {
            cur.push(c);
            i += 1;
        }
    }
    if !cur.is_empty() {
        out.push(cur);
    }
    out
}

fn case_json(c: &Case, root: &Path) -> String {
    let files: Vec<String> = (0..c.files.len())
        .map(|f| jobj(&[("path", json_str(&c.file_path(f))), ("text", json_str(&file_text(c, f)))]))
        .collect();
    let virt: Vec<String> = c
        .virt
        .iter()
        .map(|(n, b)| {
            let mut t = String::new();
            render_body(c, b, &mut t);
            jobj(&[("name", json_str(n)), ("text", json_str(&t))])
        })
        .collect();
    let inputs: Vec<String> = (0..c.inputs.len()).map(|k| input_arg(c, Path::new("<root>"), k)).collect();
    let _ = root;
    jobj(&[
        ("files", format!("[{}]", files.join(","))),
        ("header_contents", format!("[{}]", virt.join(","))),
        ("inputs", jlist(&inputs)),
        ("clang_args", jlist(&clang_flags(c))),
        ("target_env", c.target.as_ref().map_or("null".into(), |t| json_str(t))),
        ("extra_env_set", jlist(&c.extra_set)),
        ("module", json_str(&c.module)),
        ("model_request", json_str(&model_request(c))),
    ])
}

struct WholeOut {
    ok: bool,
}

fn run_case(c: &Case, idx: usize, table_fixed: bool, st: &mut Stats, self_exe: &Path) -> WholeOut {
    let mut model_broken = false;
    let sc = Scratch::new(&format!("c17dag{idx}"));
    let root = std::fs::canonicalize(&sc.0).unwrap();
    for d in &c.dirs {
        std::fs::create_dir_all(root.join(d)).unwrap();
    }
    std::fs::create_dir_all(root.join("out dir")).unwrap();
    for f in 0..c.files.len() {
        std::fs::write(root.join(c.file_path(f)), file_text(c, f)).unwrap();
    }
    let id_of: BTreeMap<PathBuf, usize> = (0..c.files.len()).filter_map(|f| canon(&root, &c.file_path(f)).map(|p| (p, f))).collect();
    let fail = |st: &mut Stats, kind: &str, class: &str, extra: Vec<(&str, String)>| {
        let mut v = vec![("part", json_str("C")), ("case", case_json(c, &root))];
        v.extend(extra);
        st.fail(kind, class, jobj(&v));
    };
    // ---- model
    let ans = model(&[model_request(c)]);
    let a = ans.first().cloned().unwrap_or_default();
    let model_err = a == "error";
    let (m_entered, m_reported) = if model_err {
        (vec![], vec![])
    } else {
        let toks: BTreeMap<&str, &str> = a.split(' ').filter_map(|t| t.split_once('=')).collect();
        let p = |k: &str| -> Option<Vec<usize>> {
            let s = toks.get(k)?;
            if *s == "." {
                Some(vec![])
            } else {
                s.split(',').map(|x| x.parse().ok()).collect()
            }
        };
        match (p("entered"), p("reported")) {
            (Some(e), Some(r)) => (e, r),
            _ => {
                fail(st, "correspondence", "include-model-driver", vec![("model", json_str(&a))]);
                return WholeOut { ok: false };
            }
        }
    };
    // ---- library driver (child process)
    let log = root.join("__cb.log");
    let depfile = root.join("__lib.d");
    let mut spec = format!("cwd {}\n", hexs(&root.to_string_lossy()));
    let inputs: Vec<String> = (0..c.inputs.len()).map(|k| input_arg(c, &root, k)).collect();
    for i in &inputs {
        spec.push_str(&format!("header {}\n", hexs(i)));
    }
    for (n, b) in &c.virt {
        let mut t = String::new();
        render_body(c, b, &mut t);
        t.push_str("extern int bgv_virt;\n");
        spec.push_str(&format!("contents {} {}\n", hexs(n), hexs(&t)));
    }
    let flags = clang_flags(c);
    for f in &flags {
        spec.push_str(&format!("clangarg {}\n", hexs(f)));
    }
    spec.push_str(&format!("depfile {} {}\n", hexs(&c.module), hexs(&depfile.to_string_lossy())));
    spec.push_str(&format!("codegen {}\n", idx % 3));
    st.inc(&format!("C.codegen_config_{}", idx % 3));
    spec.push_str(&format!("cargo {}\nlog {}\nout {}\n", c.cargo_mode, hexs(&log.to_string_lossy()), hexs(&root.join("__lib.rs").to_string_lossy())));
    let specp = root.join("__spec");
    std::fs::write(&specp, spec).unwrap();
    let mut cmd = Command::new(self_exe);
    cmd.arg("--child").arg(&specp).env_remove("TARGET");
    for k in ["BINDGEN_EXTRA_CLANG_ARGS", "BINDGEN_EXTRA_CLANG_ARGS_x86_64-unknown-linux-gnu", "BINDGEN_EXTRA_CLANG_ARGS_x86_64_unknown_linux_gnu"] {
        cmd.env_remove(k);
    }
    if let Some(t) = &c.target {
        cmd.env("TARGET", t);
    }
    for k in &c.extra_set {
        cmd.env(k, "-DBGV_EXTRA=1");
    }
    let (mut rc, mut stdout, mut stderr) = run_timeout(&mut cmd, 120);
    st.inc("C.library_runs");
    if rc == -9 && !model_err {
        // an overloaded machine is not a finding: once more, with a generous limit
        st.inc("C.library_retries_after_timeout");
        let _ = std::fs::remove_file(&log);
        let r = run_timeout(&mut cmd, 1200);
        rc = r.0;
        stdout = r.1;
        stderr = r.2;
    }
    if rc == -9 {
        if model_err {
            st.inc("C.model_error_timeout");
            return WholeOut { ok: true };
        }
        fail(st, "correspondence", "bindgen-timeout", vec![]);
        return WholeOut { ok: false };
    }
    if model_err {
        st.inc("C.model_error_cases");
        // a missing include in an active region / runaway recursion: bindgen must not succeed
        if rc == 0 {
            fail(st, "correspondence", "include-model-error-but-bindgen-ok", vec![]);
            return WholeOut { ok: false };
        }
        return WholeOut { ok: true };
    }
    if rc != 0 {
        fail(st, "correspondence", "bindgen-failed-model-ok", vec![("rc", rc.to_string()), ("stderr", json_str(&stderr.chars().take(600).collect::<String>()))]);
        return WholeOut { ok: false };
    }
    // ---- callback log
    let logtext = std::fs::read_to_string(&log).unwrap_or_default();
    let mut ev_env = vec![];
    let mut ev_hdr = vec![];
    let mut ev_inc = vec![];
    let mut order_ok = true;
    let mut phase = 0;
    for l in logtext.lines() {
        let (k, v) = l.split_once(' ').unwrap_or((l, "-"));
        let v = unhex_s(v);
        let ph = match k {
            "env" => 0,
            "header" => 1,
            _ => 2,
        };
        if ph < phase {
            order_ok = false;
        }
        phase = ph;
        match k {
            "env" => ev_env.push(v),
            "header" => ev_hdr.push(v),
            _ => ev_inc.push(v),
        }
    }
    if !order_ok {
        fail(st, "correspondence", "callback-order", vec![("log", json_str(&logtext))]);
    }
    if ev_hdr != inputs {
        fail(st, "correspondence", "header_file-notifications", vec![("got", jlist(&ev_hdr)), ("inputs", jlist(&inputs))]);
    }
    // include_file sequence → file ids
    let mut inc_ids = vec![];
    for n in &ev_inc {
        match canon(&root, n).and_then(|p| id_of.get(&p).copied()) {
            Some(f) => inc_ids.push(f),
            None => {
                fail(st, "oracle-failure", "include_file-reports-unknown-file", vec![("name", json_str(n))]);
                return WholeOut { ok: false };
            }
        }
    }
    if inc_ids != m_reported {
        fail(st, "correspondence", "include_file-sequence-vs-model-reported", vec![("implementation", json_str(&nat_list(&inc_ids))), ("model", json_str(&nat_list(&m_reported)))]);
        // the model is out of step: go on with the model-free oracles below (make, clang -H / -M): they
        // are the failing-input search
        model_broken = true;
    }
    st.add("C.include_notifications", inc_ids.len() as u64);
    // ---- cargo lines: model of CargoCallbacks on the model's event list
    let set_keys: Vec<String> = c.extra_set.clone();
    let req = format!(
        "c17 cargo rerun={} target={} set={} inputs={} reported={}",
        if c.cargo_mode == 1 { 1 } else { 0 },
        c.target.as_ref().map_or("none".into(), |t| hexs(t)),
        hex_list(&set_keys),
        hex_list(&inputs),
        hex_list(&ev_inc)
    );
    let cargo_model = model(&[req]).first().map(|s| unhex_list(s)).unwrap_or_default();
    let cargo_real: Vec<String> = stdout.lines().map(|s| s.to_owned()).collect();
    if cargo_model != cargo_real {
        fail(st, "correspondence", "cargo-lines", vec![("implementation", jlist(&cargo_real)), ("model", jlist(&cargo_model))]);
    }
    // the env reads announced = the rerun-if-env-changed lines, and TARGET is always among them
    let env_lines: Vec<String> = cargo_real.iter().filter_map(|l| l.strip_prefix("cargo:rerun-if-env-changed=")).map(|s| s.to_owned()).collect();
    if env_lines != ev_env || !ev_env.iter().any(|k| k == "TARGET") {
        fail(st, "oracle-failure", "env-announcements", vec![("read_env_var", jlist(&ev_env)), ("cargo", jlist(&env_lines))]);
    }
    // ---- sets
    let entered_set: BTreeSet<usize> = m_entered.iter().copied().collect();
    let recorded_set: BTreeSet<usize> = c.inputs.iter().copied().chain(m_reported.iter().copied()).collect();
    if entered_set != recorded_set {
        fail(st, "proof-obligation", "deps_eq_filesRead contradicted by the model driver", vec![]);
    }
    // ---- depfile text = to_string(module, BTreeSet(inputs ∪ include names))
    let dep_bytes = std::fs::read(&depfile).unwrap_or_default();
    let dep_text = String::from_utf8_lossy(&dep_bytes).into_owned();
    let name_set: BTreeSet<String> = inputs.iter().cloned().chain(ev_inc.iter().cloned()).collect();
    let names: Vec<String> = name_set.into_iter().collect();
    let rt = model(&[format!("c17 dep rt {} {}", hexs(&c.module), hex_list(&names))]);
    let rta = rt.first().cloned().unwrap_or_default();
    let toks: BTreeMap<&str, &str> = rta.split(' ').filter_map(|t| t.split_once('=')).collect();
    let mtext = toks.get("text").map(|h| unhex_s(h)).unwrap_or_default();
    if mtext != dep_text {
        fail(st, "correspondence", "depfile-text-vs-model", vec![("implementation", json_str(&dep_text)), ("model", json_str(&mtext))]);
        model_broken = true;
    }
    // ---- depfile read by make and by the model
    let mparse = if rta.contains(" none ") { None } else { parse_answer(&rta) };
    let want_t = vec![sd(&c.module)];
    let want_d: Vec<String> = names.iter().map(|d| sd(d)).collect();
    let mkdir = root.join("__mk");
    std::fs::create_dir_all(&mkdir).unwrap();
    let real_entries = make_entries(&mkdir, &dep_bytes);
    st.inc("C.make_runs");
    if let (Some((t, d)), false) = (&mparse, model_broken) {
        if comparable(t, d) && real_entries.as_ref() != Some(&render(t, d)) {
            fail(st, "correspondence", "make-spec", vec![("depfile", json_str(&dep_text)), ("model_parse", jlist(&render(t, d))), ("make", real_entries.clone().map_or("null".into(), |r| jlist(&r)))]);
        }
    }
    let all_names: Vec<&String> = std::iter::once(&c.module).chain(names.iter()).collect();
    let ok_real = real_entries.as_ref() == Some(&render(&want_t, &want_d));
    if ok_real {
        st.inc("C.depfile_roundtrip_ok");
        // make's names, realpath-normalised, are exactly the files read
        let got: BTreeSet<usize> = want_d.iter().filter_map(|n| canon(&root, n).and_then(|p| id_of.get(&p).copied())).collect();
        if got != entered_set && !model_broken {
            fail(st, "oracle-failure", "depfile-set-vs-files-read", vec![("depfile", json_str(&dep_text))]);
        }
    } else if comparable(&want_t, &want_d) {
        let rh = all_names.iter().any(|n| region_hash(table_fixed, n));
        let rd = all_names.iter().any(|n| region_dollar(table_fixed, n));
        let rb = all_names.iter().any(|n| region_backslash(n));
        let rtsp = region_trailing_space(&names);
        // the model predicts what make does: the same reading, or (model `none`) make rejecting the line
        let predicted = match &mparse {
            Some((t, d)) => real_entries.as_ref() == Some(&render(t, d)),
            None => real_entries.is_none(),
        };
        let wit = jobj(&[("part", json_str("C")), ("depfile_text", json_str(&dep_text)), ("make_reads", real_entries.clone().map_or("null".into(), |r| jlist(&r))), ("case", case_json(c, &root))]);
        if !all_names.iter().all(|n| in_quantifier(n)) {
            st.inc("C.outside_quantifier");
        } else if model_broken {
            // no prediction available: a failure inside a listed region is not judged, one outside is the failing input
            if rh || rd || rb || rtsp { st.inc("C.region_unpredicted"); } else { st.fail("oracle-failure", "depfile-roundtrip", wit); }
        } else if (rh || rd) && predicted {
            st.known("depfile_hash_dollar", wit);
        } else if rb && predicted {
            st.known("depfile_backslash", wit);
        } else if rtsp && predicted {
            st.known("depfile_trailing_space", wit);
        } else if mparse.is_none() && real_entries.is_some() && (rh || rd || rb || rtsp) {
            st.inc("C.region_unpredicted");
        } else {
            st.fail("oracle-failure", "depfile-roundtrip", wit);
        }
    } else {
        st.inc("C.not_comparable");
    }
    // recorded names (before any make reading), realpath-normalised = files read: the property's set claim
    let rec: BTreeSet<usize> = names.iter().filter_map(|n| canon(&root, n).and_then(|p| id_of.get(&p).copied())).collect();
    if !model_broken && (rec.len() != names.iter().filter_map(|n| canon(&root, n)).collect::<BTreeSet<_>>().len() || rec != entered_set) {
        fail(st, "oracle-failure", "recorded-set-vs-model-files-read", vec![("recorded", jlist(&names)), ("model_entered", json_str(&nat_list(&m_entered)))]);
    }
    // ---- oracle: clang -H / -M on the same command line
    let mut cargs: Vec<String> = vec!["-fsyntax-only".into(), "-H".into(), "-x".into(), "c".into()];
    cargs.extend(flags.iter().cloned());
    // order: -include inputs[..n-1], -include virt…, main  (or virt0 main)
    let mut virt_paths = vec![];
    for (k, (_, b)) in c.virt.iter().enumerate() {
        let mut t = String::new();
        render_body(c, b, &mut t);
        let p = format!("__virt{k}.h");
        std::fs::write(root.join(&p), t).unwrap();
        virt_paths.push(p);
    }
    let main: String;
    if inputs.is_empty() {
        for v in virt_paths.iter().skip(1) {
            cargs.push("-include".into());
            cargs.push(v.clone());
        }
        main = virt_paths[0].clone();
    } else {
        for i in &inputs[..inputs.len() - 1] {
            cargs.push("-include".into());
            cargs.push(i.clone());
        }
        for v in &virt_paths {
            cargs.push("-include".into());
            cargs.push(v.clone());
        }
        main = inputs[inputs.len() - 1].clone();
    }
    let lex = |p: &str| -> String {
        let abs = if p.starts_with('/') { p.to_owned() } else { format!("{}/{}", root.to_string_lossy(), p) };
        let abs = abs.replace('\\', "/");
        let parts: Vec<&str> = abs.split('/').filter(|x| !x.is_empty() && *x != ".").collect();
        format!("/{}", parts.join("/"))
    };
    let lex_id: BTreeMap<String, usize> = (0..c.files.len()).map(|f| (lex(&c.file_path(f)), f)).collect();
    let mut hcmd = Command::new("clang");
    hcmd.args(&cargs).arg(&main).current_dir(&root);
    let (hrc, _ho, herr) = run(&mut hcmd);
    st.inc("C.clang_H_runs");
    let h_complete = c.inputs.len() == 1 && c.virt.is_empty();
    if hrc != 0 {
        fail(st, "oracle-failure", "clang-rejects-what-bindgen-accepted", vec![("stderr", json_str(&herr.chars().take(400).collect::<String>()))]);
    } else {
        let mut hset: BTreeSet<usize> = c.inputs.iter().copied().collect();
        for l in herr.lines() {
            let t = l.trim_start_matches('.');
            if t.len() < l.len() && t.starts_with(' ') {
                let p = &t[1..];
                if p.starts_with("__virt") {
                    continue;
                }
                if let Some(f) = lex_id.get(&lex(p)).copied() {
                    hset.insert(f);
                }
            }
        }
        if h_complete {
            st.inc("C.clang_H_compared");
        }
        if h_complete && hset != rec {
            fail(st, "oracle-failure", "recorded-set-vs-clang-H", vec![("rec_ids", json_str(&format!("{rec:?}"))), ("clang_ids", json_str(&format!("{hset:?}"))), ("recorded", jlist(&names)), ("clang_H", json_str(&herr.chars().take(1500).collect::<String>()))]);
        }
    }
    // clang -M: complete (also lists what -include'd files include; -H does not).  LLVM writes the
    // names through `llvm::sys::path::native`, which on POSIX turns every backslash into a slash, so
    // names are compared after the same rewriting (lexically normalised absolute paths).
    {
        let mut margs: Vec<String> = vec!["-M".into(), "-MF".into(), "__clang.d".into(), "-x".into(), "c".into()];
        margs.extend(cargs[4..].iter().cloned());
        let mut mcmd = Command::new("clang");
        mcmd.args(&margs).arg(&main).current_dir(&root);
        let (mrc, _mo, me) = run(&mut mcmd);
        if mrc == 0 {
            st.inc("C.clang_M_runs");
            let text = std::fs::read_to_string(root.join("__clang.d")).unwrap_or_default();
            let mset: BTreeSet<usize> = parse_clang_m(&text).iter().filter_map(|n| lex_id.get(&lex(n)).copied()).collect();
            if mset != rec {
                fail(st, "oracle-failure", "recorded-set-vs-clang-M", vec![("rec_ids", json_str(&format!("{rec:?}"))), ("clang_ids", json_str(&format!("{mset:?}"))), ("recorded", jlist(&names)), ("clang_M", json_str(&text))]);
            }
        } else {
            fail(st, "oracle-failure", "clang-M-rejects-what-bindgen-accepted", vec![("stderr", json_str(&me.chars().take(400).collect::<String>()))]);
        }
    }
    // ---- CLI: single on-disk input, no header_contents
    if c.inputs.len() == 1 && c.virt.is_empty() {
        let mut args: Vec<String> = vec![inputs[0].clone(), "--depfile".into(), "__cli.d".into(), "-o".into(), c.module.clone()];
        args.push("--".into());
        args.extend(flags.iter().cloned());
        let mut envs: Vec<(&str, &str)> = vec![];
        let tgt;
        if let Some(t) = &c.target {
            tgt = t.clone();
            envs.push(("TARGET", &tgt));
        }
        let mut cmd = Command::new(bgverif::drive::cli_path());
        cmd.args(&args).current_dir(&root).env_remove("TARGET");
        for k in ["BINDGEN_EXTRA_CLANG_ARGS", "BINDGEN_EXTRA_CLANG_ARGS_x86_64-unknown-linux-gnu", "BINDGEN_EXTRA_CLANG_ARGS_x86_64_unknown_linux_gnu"] {
            cmd.env_remove(k);
        }
        for (k, v) in envs {
            cmd.env(k, v);
        }
        for k in &c.extra_set {
            cmd.env(k, "-DBGV_EXTRA=1");
        }
        let (rc, _o, e) = run(&mut cmd);
        st.inc("C.cli_runs");
        let cli_text = String::from_utf8_lossy(&std::fs::read(root.join("__cli.d")).unwrap_or_default()).into_owned();
        if rc != 0 || cli_text != dep_text {
            fail(st, "correspondence", "cli-depfile-vs-library-depfile", vec![("rc", rc.to_string()), ("cli", json_str(&cli_text)), ("library", json_str(&dep_text)), ("stderr", json_str(&e.chars().take(300).collect::<String>()))]);
        }
    }
    st.distinct.insert(format!("C:{}", a));
    if st.samples.len() < 6 && m_reported.len() >= 3 {
        st.samples.push(jobj(&[
            ("part", json_str("C")),
            ("inputs", jlist(&inputs)),
            ("clang_args", jlist(&flags)),
            ("depfile", json_str(&dep_text)),
            ("model_entered", json_str(&nat_list(&m_entered))),
            ("model_reported", json_str(&nat_list(&m_reported))),
            ("cargo_lines", cargo_real.len().to_string()),
        ]));
    }
    WholeOut { ok: true }
}

fn part_c(seed: u64, n: usize, thorough: bool, table_fixed: bool, threads: usize, self_exe: &Path) -> (Stats, BTreeSet<String>) {
    let mut handles = vec![];
    for t in 0..threads {
        let exe = self_exe.to_owned();
        handles.push(std::thread::spawn(move || {
            let mut st = Stats::default();
            let mut kinds = BTreeSet::new();
            let mut i = t;
            while i < n {
                // every case has its own generator state derived from (seed, index)
                let mut rng = Rng::new(seed.wrapping_mul(1_000_003).wrapping_add(i as u64 * 7919 + 17));
                let c = gen_case(&mut rng, thorough, &mut kinds);
                st.inc("C.cases");
                st.add("C.files_generated", c.files.len() as u64);
                let o = run_case(&c, i, table_fixed, &mut st, &exe);
                if o.ok {
                    st.inc("C.cases_completed");
                }
                i += threads;
            }
            (st, kinds)
        }));
    }
    let mut st = Stats::default();
    let mut kinds = BTreeSet::new();
    for h in handles {
        let (s, k) = h.join().unwrap();
        st.merge(s);
        kinds.extend(k);
    }
    (st, kinds)
}

// ------------------------------------------------------------------ D. env probe (failing-input search)

/// Does setting VAR change the bindings while VAR is never announced?  Library driver, a few
/// headers, a few candidate values.  Prints `env-probe var=… announced=… differs=…`.
fn env_probe(var: &str, self_exe: &Path, out: &Path) -> i32 {
    let sc = Scratch::new("c17env");
    let root = std::fs::canonicalize(&sc.0).unwrap();
    std::fs::write(root.join("p.h"), "#include <stddef.h>\nstruct S { long a; void *p; size_t n; };\nint f(struct S *s, long double x);\n#if defined(__x86_64__)\nextern int on_x86_64;\n#endif\n#if defined(__aarch64__)\nextern int on_aarch64;\n#endif\n").unwrap();
    let values = ["", "1", "x86_64-unknown-linux-gnu", "aarch64-unknown-linux-gnu", "i686-unknown-linux-gnu", "/nonexistent", "1.40.0", "-DX=1"];
    let mut base: Option<String> = None;
    let mut announced = false;
    let mut found: Option<String> = None;
    for (k, v) in std::iter::once(None).chain(values.iter().map(|v| Some(*v))).enumerate() {
        let log = root.join(format!("cb{k}.log"));
        let outp = root.join(format!("o{k}.rs"));
        let spec = format!("cwd {}\nheader {}\ncargo 0\nlog {}\nout {}\n", hexs(&root.to_string_lossy()), hexs("p.h"), hexs(&log.to_string_lossy()), hexs(&outp.to_string_lossy()));
        let sp = root.join(format!("spec{k}"));
        std::fs::write(&sp, spec).unwrap();
        let mut cmd = Command::new(self_exe);
        cmd.arg("--child").arg(&sp).env_remove(var);
        if let Some(v) = v {
            cmd.env(var, v);
        }
        let (rc, _o, _e) = run(&mut cmd);
        let text = if rc == 0 { std::fs::read_to_string(&outp).unwrap_or_default() } else { format!("<error rc={rc}>") };
        let logt = std::fs::read_to_string(&log).unwrap_or_default();
        if logt.lines().any(|l| l == format!("env {}", hexs(var))) {
            announced = true;
        }
        match (&base, v) {
            (None, _) => base = Some(text),
            (Some(b), Some(v)) => {
                if *b != text && found.is_none() {
                    found = Some(v.to_owned());
                }
            }
            _ => {}
        }
    }
    let rep = jobj(&[
        ("var", json_str(var)),
        ("announced", announced.to_string()),
        ("bindings_differ_with_value", found.as_ref().map_or("null".into(), |v| json_str(v))),
        ("header", json_str("p.h (struct + function + target-conditional externs)")),
    ]);
    std::fs::write(out.join("env_probe.json"), &rep).unwrap();
    println!("env-probe {rep}");
    if found.is_some() && !announced {
        1
    } else {
        0
    }
}

// ------------------------------------------------------------------ main

fn main() {
    let argv: Vec<String> = std::env::args().collect();
    if argv.len() >= 3 && argv[1] == "--child" {
        std::process::exit(child(&argv[2]));
    }
    let self_exe = std::env::current_exe().unwrap();
    let args = Args::parse();
    if let Some(i) = args.extra.iter().position(|a| a == "--env-probe") {
        std::process::exit(env_probe(&args.extra[i + 1], &self_exe, &args.out));
    }
    let thorough = args.thorough();
    let table = model(&["c17 dep table".to_owned()]).first().cloned().unwrap_or_default();
    let table_fixed = table == "fixed";
    let mut st = Stats::default();
    let mut rng = Rng::new(args.seed);
    let only: Option<&String> = args.extra.iter().position(|a| a == "--only").map(|i| &args.extra[i + 1]);
    let want = |p: &str| only.map_or(true, |o| o.contains(p));
    let t0 = std::time::Instant::now();
    if want("A") {
        let mut r = rng.fork();
        part_a(&mut r, if thorough { 9000 } else { 1500 }, &mut st);
    }
    let ta = t0.elapsed().as_secs_f64();
    if want("B") {
        let mut r = rng.fork();
        part_b(&mut r, if thorough { 40000 } else { 6000 }, if thorough { 5000 } else { 1200 }, table_fixed, &mut st);
    }
    let tb = t0.elapsed().as_secs_f64();
    let mut kinds = BTreeSet::new();
    if want("C") {
        let n = if thorough { 1500 } else { 120 };
        let (s, k) = part_c(args.seed, n, thorough, table_fixed, 8, &self_exe);
        st.merge(s);
        kinds = k;
    }
    // ---- D. a file the user force-includes through a clang argument (`-- -include pre.h`) is read like any other
    if want("C") {
        let sc = Scratch::new("c17userinc");
        let root = std::fs::canonicalize(&sc.0).unwrap();
        std::fs::write(root.join("pre.h"), "#define C17_PRE 1\ntypedef int c17_pre_t;\n").unwrap();
        std::fs::write(root.join("inc.h"), "extern int c17_inc_v;\n").unwrap();
        std::fs::write(root.join("a.h"), "#include \"inc.h\"\nc17_pre_t c17_f(void);\n").unwrap();
        let mut cmd = Command::new(bgverif::drive::cli_path());
        cmd.args(["a.h", "--depfile", "d.d", "-o", "out.rs", "--", "-include", "pre.h"]).current_dir(&root);
        let (rc, _o, e) = run(&mut cmd);
        st.inc("D.user_include_runs");
        let dep = std::fs::read_to_string(root.join("d.d")).unwrap_or_default();
        let has = |n: &str| dep.split_whitespace().any(|w| w.trim_start_matches("./") == n);
        let wit = jobj(&[("part", json_str("D")), ("command", json_str("bindgen a.h --depfile d.d -o out.rs -- -include pre.h")), ("depfile_text", json_str(dep.trim())), ("clang_M", json_str("a.o: a.h pre.h inc.h"))]);
        if rc != 0 { st.fail("oracle-failure", "user-include-run-failed", jobj(&[("stderr", json_str(&e.chars().take(300).collect::<String>()))])); }
        else if has("a.h") && has("inc.h") && !has("pre.h") { st.known("user_include_arg_not_reported", wit); }
        else if has("a.h") && has("inc.h") && has("pre.h") { st.inc("D.user_include_reported"); }
        else { st.fail("oracle-failure", "depfile-set-vs-files-read", wit); }
    }
    let tc = t0.elapsed().as_secs_f64();
    // report
    let counters: Vec<String> = st.counters.iter().map(|(k, v)| format!("{}:{}", json_str(k), v)).collect();
    let failures: Vec<String> = st.failures.iter().map(|(k, c, i)| jobj(&[("kind", json_str(k)), ("class", json_str(c)), ("input", i.clone())])).collect();
    let known: Vec<String> = st.known.iter().map(|(k, (n, w))| jobj(&[("id", json_str(k)), ("count", n.to_string()), ("witness", w.clone())])).collect();
    let kinds_v: Vec<String> = kinds.into_iter().collect();
    let rep = jobj(&[
        ("tier", json_str(&args.tier)),
        ("seed", args.seed.to_string()),
        ("escape_table", json_str(&table)),
        ("counters", format!("{{{}}}", counters.join(","))),
        ("kinds_hit", jlist(&kinds_v)),
        ("distinct_nontrivial", st.distinct.len().to_string()),
        ("failures", format!("[{}]", failures.join(","))),
        ("known", format!("[{}]", known.join(","))),
        ("samples", format!("[{}]", st.samples.join(","))),
        ("seconds", format!("[{ta:.1},{tb:.1},{tc:.1}]")),
    ]);
    std::fs::write(args.out.join("report.json"), rep).unwrap();
    println!("c17: failures={} known={:?} counters={}", st.failures.len(), st.known.keys().collect::<Vec<_>>(), counters.len());
    std::process::exit(if st.failures.is_empty() { 0 } else { 1 });
}
