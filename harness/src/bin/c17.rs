//! C17 — placeholder main, child mode first.
use std::io::Write;
use std::path::PathBuf;

#[derive(Debug)]
struct Recorder(PathBuf);
impl Recorder {
    fn put(&self, kind: &str, s: &str) {
        if let Ok(mut f) = std::fs::OpenOptions::new().create(true).append(true).open(&self.0) {
            let _ = writeln!(f, "{kind} {}", hex(s.as_bytes()));
        }
    }
}
impl bindgen::callbacks::ParseCallbacks for Recorder {
    fn header_file(&self, f: &str) { self.put("header", f) }
    fn include_file(&self, f: &str) { self.put("include", f) }
    fn read_env_var(&self, k: &str) { self.put("env", k) }
}

fn hex(b: &[u8]) -> String {
    if b.is_empty() { return "-".into(); }
    b.iter().map(|x| format!("{x:02x}")).collect()
}
fn unhex(s: &str) -> Vec<u8> {
    if s == "-" { return vec![]; }
    (0..s.len() / 2).map(|i| u8::from_str_radix(&s[2 * i..2 * i + 2], 16).unwrap()).collect()
}
fn unhex_s(s: &str) -> String { String::from_utf8(unhex(s)).unwrap() }

/// Child mode: `c17 --child <spec>`; the spec is a list of `key hex...` lines.
fn child(spec: &str) -> i32 {
    let text = std::fs::read_to_string(spec).unwrap();
    let mut b = bindgen::Builder::default();
    let mut out = None;
    for line in text.lines() {
        let t: Vec<&str> = line.split(' ').collect();
        match t[0] {
            "cwd" => std::env::set_current_dir(unhex_s(t[1])).unwrap(),
            "header" => b = b.header(unhex_s(t[1])),
            "contents" => b = b.header_contents(&unhex_s(t[1]), &unhex_s(t[2])),
            "clangarg" => b = b.clang_arg(unhex_s(t[1])),
            "depfile" => b = b.depfile(unhex_s(t[1]), unhex_s(t[2])),
            "cargo" => match t[1] {
                "1" => b = b.parse_callbacks(Box::new(bindgen::CargoCallbacks::new())),
                "2" => b = b.parse_callbacks(Box::new(bindgen::CargoCallbacks::new().rerun_on_header_files(false))),
                _ => {}
            },
            "log" => b = b.parse_callbacks(Box::new(Recorder(PathBuf::from(unhex_s(t[1]))))),
            "out" => out = Some(unhex_s(t[1])),
            _ => {}
        }
    }
    match b.generate() {
        Ok(bindings) => {
            if let Some(o) = out {
                if bindings.write_to_file(o).is_err() { return 3; }
            }
            0
        }
        Err(e) => { eprintln!("bindgen-error: {e:?}"); 1 }
    }
}

fn main() {
    let argv: Vec<String> = std::env::args().collect();
    if argv.len() >= 3 && argv[1] == "--child" {
        std::process::exit(child(&argv[2]));
    }
}
