//! C09 — allow-listing: correspondence (model vs implementation sets), regex model vs `regex` crate,
//! and the property's own oracles (minimality, roots emitted, consistency with the full run,
//! rustc closure) on generated declaration graphs and on the repository headers.
use bgverif::allowmodel::{self as am, Answer, PatternSets};
use bgverif::allowgen::{self as cgen, DKind, Program};
use bgverif::drive::{self, Scratch};
use bgverif::leafinv as inventory;
use bgverif::irdump;
use bgverif::rng::Rng;
use bgverif::util::{self, json_str, Args};
use std::collections::{BTreeMap, BTreeSet};

#[derive(Default)]
struct Stats {
    graphs: u64,
    runs: u64,
    gen_failed: u64,
    model_compared: u64,
    model_unsupported: u64,
    corr_disagree: u64,
    distinct_sets: BTreeSet<(Vec<u64>, Vec<u64>)>,
    nontrivial: u64,
    minimal_checked: u64,
    roots_checked: u64,
    consistent_checked: u64,
    consistent_items: u64,
    anon_renumbered: u64,
    closure_compiled: u64,
    closure_baseline_broken: u64,
    rx_pairs: u64,
    rx_unsupported: u64,
    rx_match_true: u64,
    rx_anchor_differs_from_search: u64,
    repo_headers: u64,
    repo_compared: u64,
    repo_skipped: u64,
    hist: BTreeMap<String, u64>,
    samples: Vec<String>,
    /// known-finding id -> (count, first witness description)
    known: BTreeMap<String, (u64, String)>,
}

impl Stats {
    fn known(&mut self, id: &str, what: String) {
        let e = self.known.entry(id.to_owned()).or_insert((0, what));
        e.0 += 1;
    }
    fn bump(&mut self, k: &str) {
        *self.hist.entry(k.to_owned()).or_insert(0) += 1;
    }
}

struct Failure {
    kind: &'static str, // correspondence | oracle-minimal | oracle-roots | oracle-consistent | oracle-closure | regex
    detail: String,
    input: String, // JSON object text
}

struct Case {
    prog: Option<Program>,
    main_h: String,
    inc_h: String,
    flags: Vec<String>, // bindgen flags without header path
    allow: PatternSets,
    block: PatternSets,
    recursive: bool,
    cfg_types: bool,
}

fn case_json(c: &Case) -> String {
    format!(
        "{{\"main_h\":{},\"inc_h\":{},\"flags\":[{}],\"cxx\":{}}}",
        json_str(&c.main_h),
        json_str(&c.inc_h),
        c.flags.iter().map(|f| json_str(f)).collect::<Vec<_>>().join(","),
        c.prog.as_ref().is_some_and(|p| p.cxx)
    )
}

// ------------------------------------------------------------------ pattern generation

fn gen_pattern(rng: &mut Rng, names: &[String], allow_invalid: bool) -> String {
    let n = rng.pick(names).clone();
    let digits_at = n.find(|c: char| c.is_ascii_digit()).unwrap_or(n.len());
    match rng.below(20) {
        0..=5 => n,
        6 | 7 => {
            let k = rng.range(1, n.len() as u64) as usize;
            format!("{}.*", &n[..k])
        }
        8 | 9 => format!("{}|{}", n, rng.pick(names)),
        10 => format!("{}[0-9]+", &n[..digits_at]),
        11 => format!("{}[0-9]", &n[..digits_at]),
        12 => format!("({}|{})", n, rng.pick(names)),
        13 => format!("{n}x?"),
        14 => {
            let k = rng.below(n.len() as u64) as usize;
            format!(".*{}", &n[k..])
        }
        15 => format!("{}\\d+", &n[..digits_at]),
        16 => format!("[^{}].*", n.chars().next().unwrap_or('S')),
        17 => format!("{}\\w*", &n[..digits_at.max(1).min(n.len())]),
        18 => format!("(?:{}){{1,2}}", n),
        _ => {
            if allow_invalid {
                (*rng.pick(&["S1(", "*", "[a-", "a{2,1}"])).to_owned()
            } else {
                ".*".to_owned()
            }
        }
    }
}

fn names_of(p: &Program, pred: impl Fn(DKind) -> bool) -> Vec<String> {
    let mut v = vec![];
    for (i, d) in p.decls.iter().enumerate() {
        if pred(d.kind) {
            if d.kind == DKind::UnnamedEnum {
                v.extend(p.variant_paths(i));
            } else {
                v.push(p.path(i));
            }
        }
    }
    v
}

fn gen_sets(rng: &mut Rng, p: &Program, max_per_kind: u64, allow_invalid: bool, inc_name: &str) -> PatternSets {
    let mut s = PatternSets::default();
    let tys = names_of(p, |k| k.is_type());
    let fns = names_of(p, |k| k == DKind::Function);
    let vars = names_of(p, |k| matches!(k, DKind::Var | DKind::UnnamedEnum));
    let all = names_of(p, |_| true);
    if !tys.is_empty() && rng.chance(3, 5) {
        for _ in 0..rng.range(1, max_per_kind) {
            s.types.push(gen_pattern(rng, &tys, allow_invalid));
        }
    }
    if !fns.is_empty() && rng.chance(2, 5) {
        for _ in 0..rng.range(1, max_per_kind) {
            s.functions.push(gen_pattern(rng, &fns, allow_invalid));
        }
    }
    if !vars.is_empty() && rng.chance(2, 5) {
        for _ in 0..rng.range(1, max_per_kind) {
            s.vars.push(gen_pattern(rng, &vars, allow_invalid));
        }
    }
    if !all.is_empty() && rng.chance(1, 4) {
        s.items.push(gen_pattern(rng, &all, allow_invalid));
    }
    if p.inc_count > 0 && rng.chance(1, 6) {
        s.files.push(format!(".*{}", inc_name.replace('.', "\\.")));
    }
    s
}

// ------------------------------------------------------------------ one run

struct RunOut {
    bindings: String,
    dump: am::Dump,
}

fn run_bindgen(scratch: &Scratch, c: &Case, extra: &[String], want_log: bool) -> Result<RunOut, String> {
    let cxx = c.prog.as_ref().is_some_and(|p| p.cxx);
    let hname = if cxx { "c.hpp" } else { "c.h" };
    std::fs::write(scratch.path(hname), &c.main_h).unwrap();
    std::fs::write(scratch.path("inc.h"), &c.inc_h).unwrap();
    let mut flags: Vec<String> = vec![scratch.path(hname).to_string_lossy().into_owned(), "--formatter".into(), "none".into(), "--no-include-path-detection".into()];
    flags.extend(extra.iter().cloned());
    flags.push("--".into());
    if cxx {
        flags.extend(["-x".to_owned(), "c++".to_owned(), "-std=c++17".to_owned()]);
    }
    flags.push(format!("-I{}", scratch.0.display()));
    let log = scratch.path("run.vlog");
    let out = drive::generate_with_flags(&flags, if want_log { Some(&log) } else { None });
    match out.bindings {
        None => Err(format!("error={:?} panic={:?}", out.error, out.panic)),
        Some(b) => {
            let dump = if want_log {
                let l = irdump::parse_log(out.log.as_deref().unwrap_or(""));
                match l.dumps.last() {
                    Some(d) => am::load(d),
                    None => return Err("no IR dump in log".into()),
                }
            } else {
                am::Dump::default()
            };
            Ok(RunOut { bindings: b, dump })
        }
    }
}

/// declaration an IR item name belongs to (`ns0::C4::m1`, `C4_m1` ...)
fn resolve_name(p: &Program, map: &BTreeMap<String, usize>, name: &str) -> Option<usize> {
    name.split("::").find_map(|comp| p.resolve_ident(map, comp))
}

struct Pending {
    idx: usize,
    request: String,
    impl_allow: BTreeSet<u64>,
    impl_codegen: BTreeSet<u64>,
    input: String,
}

fn renumber_anon(s: &str) -> String {
    // replace `_bindgen_ty_<n>` by `_bindgen_ty_#`
    let mut out = String::new();
    let mut rest = s;
    while let Some(i) = rest.find("_bindgen_ty_") {
        out.push_str(&rest[..i]);
        out.push_str("_bindgen_ty_#");
        rest = &rest[i + "_bindgen_ty_".len()..];
        let n = rest.find(|c: char| !c.is_ascii_digit()).unwrap_or(rest.len());
        rest = &rest[n..];
    }
    out.push_str(rest);
    out
}

#[allow(clippy::too_many_arguments)]
fn oracles(c: &Case, allow_run: &RunOut, full_bindings: &str, st: &mut Stats, fails: &mut Vec<Failure>, closure_queue: &mut Vec<(String, String, String)>) {
    let Some(p) = c.prog.as_ref() else { return };
    let map = p.token_map();
    let leaves = match inventory::parse(&allow_run.bindings) {
        Ok(l) => l,
        Err(e) => {
            fails.push(Failure { kind: "oracle-closure", detail: format!("allow-listed output does not parse: {e}"), input: case_json(c) });
            return;
        }
    };
    let d = &allow_run.dump;
    let cfg: u64 = d.opts.get("codegen_config").and_then(|x| x.parse().ok()).unwrap_or(63);
    let kind_enabled = |k: &str, fnk: Option<&str>| -> bool {
        match k {
            "module" => true,
            "type" => cfg & 2 != 0,
            "var" => cfg & 4 != 0,
            _ => {
                let f = fnk.unwrap_or("Function");
                if f == "Function" { cfg & 1 != 0 } else if f.contains("Constructor") { cfg & 16 != 0 } else if f.contains("Destructor") { cfg & 32 != 0 } else { cfg & 8 != 0 }
            }
        }
    };
    // ---- roots by the generator's knowledge (names of IR items are taken from the dump)
    let nothing = c.allow.is_empty();
    let mut out_edges: BTreeMap<u64, Vec<u64>> = BTreeMap::new();
    for (f, t, _) in &d.edges {
        out_edges.entry(*f).or_default().push(*t);
    }
    const UNNAMED: &[&str] = &["Pointer", "Reference", "Array", "Vector", "Function", "ResolvedTypeRef", "TemplateInstantiation", "BlockPointer"];
    // declarations an item without a declaration of its own (pointer, prototype, instantiation ...) leads to
    let expand = |start: u64| -> BTreeSet<usize> {
        let mut acc = BTreeSet::new();
        let mut seen = BTreeSet::new();
        let mut stack = vec![start];
        while let Some(x) = stack.pop() {
            if !seen.insert(x) {
                continue;
            }
            let Some(it) = d.item(x) else { continue };
            let unnamed = it.kind == "type" && it.type_kind.as_deref().is_some_and(|k| UNNAMED.contains(&k));
            if x != start || !unnamed {
                if let Some(dd) = resolve_name(p, &map, &it.name) {
                    if !unnamed || it.type_kind.as_deref() == Some("TemplateInstantiation") {
                        acc.insert(dd);
                    }
                }
            }
            if unnamed {
                for t in out_edges.get(&x).into_iter().flatten() {
                    stack.push(*t);
                }
            }
        }
        acc
    };
    let mut roots: BTreeSet<usize> = BTreeSet::new();
    // declarations reached only because the synthetic name of an unnamed type item (`ptr_struct_S`,
    // `_bindgen_ty_id_N` ...) matched a user pattern: region of known finding `synthetic_names_match`
    let mut synthetic_roots: BTreeSet<usize> = BTreeSet::new();
    let mut synthetic_witness = String::new();
    for it in &d.items {
        if it.kind == "module" || !kind_enabled(&it.kind, it.fn_kind.as_deref()) {
            continue;
        }
        let mut m = nothing;
        if !m && !c.allow.files.is_empty() {
            m = it.file.as_deref().is_some_and(|f| am::set_matches(&c.allow.files, f));
        }
        m = m || am::set_matches(&c.allow.items, &it.name);
        m = m
            || match it.kind.as_str() {
                "type" => am::set_matches(&c.allow.types, &it.name),
                "var" => am::set_matches(&c.allow.vars, &it.name),
                _ => am::set_matches(&c.allow.functions, &it.name),
            };
        if m {
            let tk = it.type_kind.as_deref().unwrap_or("");
            if it.kind == "type" && UNNAMED.contains(&tk) {
                if tk == "TemplateInstantiation" {
                    // named after its template: `B12<U4>` is allow-listed with `B12`
                    roots.extend(expand(it.id));
                } else if !nothing {
                    let e = expand(it.id);
                    if !e.is_empty() && synthetic_witness.is_empty() {
                        synthetic_witness = format!("type item {} ({tk}) has the synthetic name `{}`", it.id, it.name);
                    }
                    synthetic_roots.extend(e);
                } else {
                    roots.extend(expand(it.id));
                }
            } else if let Some(dd) = resolve_name(p, &map, &it.name) {
                roots.insert(dd);
            } else if let Some(dd) = it.enum_variants.first().and_then(|v| p.resolve_ident(&map, v)) {
                // unnamed enum (`_bindgen_ty_N`): identified by its variants
                roots.insert(dd);
            }
        }
    }
    // unnamed enums through their variants
    for (i, dd) in p.decls.iter().enumerate() {
        if dd.kind == DKind::UnnamedEnum && cfg & 2 != 0 {
            if nothing || p.variant_paths(i).iter().any(|v| am::set_matches(&c.allow.vars, v) || am::set_matches(&c.allow.items, v)) {
                roots.insert(i);
            }
        }
    }
    let reach_syn = {
        let mut r = roots.clone();
        r.extend(synthetic_roots.iter().copied());
        if c.recursive { p.closure(&r) } else { r }
    };
    let reach = if c.recursive { p.closure(&roots) } else { roots.clone() };
    // ---- minimality: every defined identifier that belongs to a declaration lies in `reach`
    st.minimal_checked += 1;
    let mut defined: BTreeSet<usize> = BTreeSet::new();
    for l in &leaves {
        if let Some(n) = &l.name {
            if let Some(dd) = p.resolve_ident(&map, n) {
                defined.insert(dd);
                if !reach.contains(&dd) {
                    if reach_syn.contains(&dd) {
                        st.known("synthetic_names_match", format!("`{n}` ({}) is emitted only because {synthetic_witness} and matches an allow-list pattern; flags {:?}", p.path(dd), c.flags));
                        continue;
                    }
                    fails.push(Failure {
                        kind: "oracle-minimal",
                        detail: format!("emitted item `{n}` ({}) belongs to declaration {} which is not reachable from the allow-listed roots {:?} by the generator's dependency relation", l.kind, p.path(dd), roots.iter().map(|&r| p.path(r)).collect::<Vec<_>>()),
                        input: case_json(c),
                    });
                    return;
                }
            }
        }
    }
    // ---- roots emitted: a declaration whose own path matches a pattern of its kind is generated
    st.roots_checked += 1;
    let in_inc = |i: usize| p.decls[i].file == 1;
    for (i, dd) in p.decls.iter().enumerate() {
        let path = p.path(i);
        let kind_on = match dd.kind {
            DKind::Function => cfg & 1 != 0,
            DKind::Var => cfg & 4 != 0,
            _ => cfg & 2 != 0,
        };
        if !kind_on {
            continue;
        }
        let matched = match dd.kind {
            DKind::Function => am::set_matches(&c.allow.functions, &path) || am::set_matches(&c.allow.items, &path),
            DKind::Var => am::set_matches(&c.allow.vars, &path) || am::set_matches(&c.allow.items, &path),
            DKind::UnnamedEnum => p.variant_paths(i).iter().any(|v| am::set_matches(&c.allow.vars, v) || am::set_matches(&c.allow.items, v)),
            _ => am::set_matches(&c.allow.types, &path) || am::set_matches(&c.allow.items, &path),
        };
        if !matched {
            continue;
        }
        let blocked = match dd.kind {
            DKind::Function => am::set_matches(&c.block.functions, &path),
            DKind::Var => am::set_matches(&c.block.vars, &path),
            DKind::UnnamedEnum => false,
            _ => am::set_matches(&c.block.types, &path),
        } || am::set_matches(&c.block.items, &path)
            || (in_inc(i) && !c.block.files.is_empty());
        // an unnamed enum's own item path is not its variants': blocklists cannot be predicted here
        if blocked || (dd.kind == DKind::UnnamedEnum && !c.block.is_empty()) {
            continue;
        }
        // enclosing namespaces: a blocklisted module item hides its whole content
        let mut ns_by_item = false;
        let mut ns_by_file = false;
        if let Some(n) = dd.ns {
            let full = &p.namespaces[n];
            let comps: Vec<&str> = full.split("::").collect();
            for k in 1..=comps.len() {
                let pre = comps[..k].join("::");
                if am::set_matches(&c.block.items, &pre) {
                    ns_by_item = true;
                }
                if d.items.iter().any(|it| it.kind == "module" && it.name == pre && it.blocklisted) && !am::set_matches(&c.block.items, &pre) {
                    ns_by_file = true;
                }
            }
        }
        if ns_by_item {
            continue;
        }
        if ns_by_file && !defined.contains(&i) {
            st.known("blocklist_file_hides_namespace", format!("{} ({}) is declared outside every blocklisted file and matches an allow-list pattern, but namespace {} was first opened in a blocklisted file, so nothing in it is generated; flags {:?}", path, dd.kind.name(), p.namespaces[dd.ns.unwrap()], c.flags));
            continue;
        }
        if !defined.contains(&i) {
            fails.push(Failure {
                kind: "oracle-roots",
                detail: format!("declaration {} ({}) matches an allow-list pattern of its kind and no blocklist, but nothing is generated for it", path, dd.kind.name()),
                input: case_json(c),
            });
            return;
        }
    }
    // ---- needs: everything a matching declaration transitively needs (generator's own dependency relation) is generated, also
    //      when the matching declaration itself is blocklisted (the user supplies that one; what it refers to is still bindgen's)
    // (the generator's dependency relation counts what method, constructor and destructor signatures mention: it is the relation of
    // the traversal only when all three are generated; `--generate` lists without them are covered by corpus/C09)
    if c.recursive && !nothing && (cfg & 56) == 56 {
        st.bump("needs-checked");
        let decl_blocked = |i: usize| -> bool {
            let dd = &p.decls[i];
            let path = p.path(i);
            let by_name = match dd.kind {
                DKind::Function => am::set_matches(&c.block.functions, &path),
                DKind::Var => am::set_matches(&c.block.vars, &path),
                DKind::UnnamedEnum => !c.block.is_empty(),
                _ => am::set_matches(&c.block.types, &path),
            } || am::set_matches(&c.block.items, &path) || (in_inc(i) && !c.block.files.is_empty());
            let by_ns = dd.ns.is_some_and(|n| {
                let comps: Vec<&str> = p.namespaces[n].split("::").collect();
                (1..=comps.len()).any(|k| { let pre = comps[..k].join("::"); am::set_matches(&c.block.items, &pre) || d.items.iter().any(|it| it.kind == "module" && it.name == pre && it.blocklisted) })
            });
            by_name || by_ns
        };
        let kind_on = |i: usize| match p.decls[i].kind { DKind::Function => cfg & 1 != 0, DKind::Var => cfg & 4 != 0, _ => cfg & 2 != 0 };
        // closure that does not pass through a namespace-hidden declaration (nothing of a hidden module is traced)
        let mut need: BTreeSet<usize> = BTreeSet::new();
        // roots of this oracle: declarations whose own path matches a pattern of their kind (the set `roots` above also holds the
        // enclosing record of a matching member, which is an over-approximation that suits the minimality oracle only)
        let own_match = |i: usize| -> bool {
            let dd = &p.decls[i];
            let path = p.path(i);
            match dd.kind {
                DKind::Function => am::set_matches(&c.allow.functions, &path) || am::set_matches(&c.allow.items, &path),
                DKind::Var => am::set_matches(&c.allow.vars, &path) || am::set_matches(&c.allow.items, &path),
                DKind::UnnamedEnum => p.variant_paths(i).iter().any(|v| am::set_matches(&c.allow.vars, v) || am::set_matches(&c.allow.items, v)),
                _ => am::set_matches(&c.allow.types, &path) || am::set_matches(&c.allow.items, &path),
            }
        };
        let mut stack: Vec<usize> = (0..p.decls.len()).filter(|&r| kind_on(r) && own_match(r) && roots.contains(&r)).collect();
        while let Some(x) = stack.pop() {
            if !need.insert(x) { continue; }
            for &y in &p.decls[x].deps { stack.push(y); }
        }
        for &i in &need {
            if decl_blocked(i) || !kind_on(i) || defined.contains(&i) { continue; }
            // a template is generated through its instantiations' definition; an unnamed enum by its variants: both resolve by name above
            fails.push(Failure {
                kind: "oracle-needs",
                detail: format!("declaration {} ({}) is needed by the allow-listed roots {:?} (generator's dependency relation) and matches no blocklist, but nothing is generated for it",
                    p.path(i), p.decls[i].kind.name(), (0..p.decls.len()).filter(|&r| kind_on(r) && own_match(r) && roots.contains(&r)).map(|r| p.path(r)).collect::<Vec<_>>()),
                input: case_json(c),
            });
            return;
        }
    }
    // ---- consistency with the full run (recursive mode)
    if c.recursive {
        match inventory::parse(full_bindings) {
            Err(_) => {}
            Ok(full) => {
                st.consistent_checked += 1;
                let full_texts: BTreeSet<&str> = full.iter().map(|l| l.text.as_str()).collect();
                let full_norm: BTreeSet<String> = full.iter().map(|l| renumber_anon(&l.text)).collect();
                for l in &leaves {
                    st.consistent_items += 1;
                    if full_texts.contains(l.text.as_str()) {
                        continue;
                    }
                    // region of `anon_type_renumbered`, input-defined: only an `--allowlist-file` pattern makes the root
                    // filter answer before it asks for an item's name (Reach.nameRequestedByRootFilter,
                    // C09_names_requested_without_files); without one every enabled item is named in item order whatever
                    // the patterns are, and a renumbered anonymous type is a failure
                    let file_patterns = !c.allow.files.is_empty();
                    if file_patterns && l.text.contains("_bindgen_ty_") && full_norm.contains(&renumber_anon(&l.text)) {
                        st.anon_renumbered += 1;
                        let other = full.iter().find(|f| renumber_anon(&f.text) == renumber_anon(&l.text)).map(|f| f.text.clone()).unwrap_or_default();
                        st.known("anon_type_renumbered", format!("allow-listed: `{}`  full: `{}`  flags {:?} header {}", &l.text[..l.text.len().min(160)], &other[..other.len().min(160)], c.flags, json_str(&format!("{}\n{}", c.inc_h, c.main_h))));
                        continue;
                    }
                    fails.push(Failure {
                        kind: "oracle-consistent",
                        detail: format!("item of the allow-listed bindings does not occur verbatim in the full bindings: {}", &l.text[..l.text.len().min(600)]),
                        input: case_json(c),
                    });
                    return;
                }
            }
        }
    }
    // ---- closure: compile alone (recursive, no blocklist, types generated)
    if c.recursive && c.block.is_empty() && c.cfg_types {
        if c.flags.iter().any(|f| f == "--vtable-generation") && allow_run.bindings.contains("__bindgen_vtable {") { st.bump("closure:full-vtable-struct-emitted"); }
        closure_queue.push((allow_run.bindings.clone(), full_bindings.to_owned(), case_json(c)));
    }
}

fn compile_batch(scratch: &Scratch, tag: &str, srcs: &[&str]) -> Result<(), String> {
    let mut s = String::from("#![allow(warnings)]\n");
    for (i, b) in srcs.iter().enumerate() {
        s.push_str(&format!("pub mod c{i} {{\n{b}\n}}\n"));
    }
    drive::rustc_check_lib(scratch, tag, &s, "2021")
}

fn run_closure(queue: &[(String, String, String)], st: &mut Stats, fails: &mut Vec<Failure>) {
    let scratch = Scratch::new("c09rustc");
    for (bi, chunk) in queue.chunks(40).enumerate() {
        let srcs: Vec<&str> = chunk.iter().map(|x| x.0.as_str()).collect();
        if compile_batch(&scratch, &format!("b{bi}"), &srcs).is_ok() {
            st.closure_compiled += chunk.len() as u64;
            continue;
        }
        for (j, (allow_b, full_b, input)) in chunk.iter().enumerate() {
            match compile_batch(&scratch, &format!("b{bi}_{j}"), &[allow_b]) {
                Ok(()) => st.closure_compiled += 1,
                Err(e) => {
                    if compile_batch(&scratch, &format!("b{bi}_{j}f"), &[full_b]).is_err() {
                        st.closure_baseline_broken += 1;
                    } else {
                        let first: String = e.lines().filter(|l| l.starts_with("error")).take(3).collect::<Vec<_>>().join(" | ");
                        // region of known finding vtable_types_without_methods (input-defined): --vtable-generation, a --generate
                        // list without `methods`, a class with virtual methods; the only errors are unresolved type names
                        let gen_without_methods = input.split("\"--generate\",\"").nth(1).map_or(false, |t| !t.split('"').next().unwrap_or("").split(',').any(|x| x == "methods"));
                        if input.contains("\"--vtable-generation\"") && gen_without_methods && input.contains("virtual ")
                            && e.lines().filter(|l| l.starts_with("error[")).all(|l| l.contains("E0425") || l.contains("E0412")) {
                            st.known("vtable_types_without_methods", format!("{first}; input {}", &input[..input.len().min(1200)]));
                            continue;
                        }
                        fails.push(Failure { kind: "oracle-closure", detail: format!("allow-listed bindings do not compile on their own although the full bindings do: {first}"), input: input.clone() });
                    }
                }
            }
        }
    }
}

fn check_models(pending: &[Pending], st: &mut Stats, fails: &mut Vec<Failure>, repo: bool) {
    if pending.is_empty() {
        return;
    }
    let reqs: Vec<String> = pending.iter().map(|p| p.request.clone()).collect();
    let answers = util::model(&reqs);
    if answers.len() != reqs.len() {
        fails.push(Failure { kind: "correspondence", detail: format!("bgmodel answered {} lines for {} requests", answers.len(), reqs.len()), input: "{}".into() });
        return;
    }
    for (p, a) in pending.iter().zip(answers.iter()) {
        match am::parse_answer(a) {
            Answer::Unsupported(_) => {
                st.model_unsupported += 1;
                if repo {
                    st.repo_skipped += 1;
                }
            }
            Answer::Other(o) => {
                st.corr_disagree += 1;
                fails.push(Failure { kind: "correspondence", detail: format!("model driver answered `{o}`"), input: p.input.clone() });
            }
            Answer::Sets { allow, codegen, roots } => {
                st.model_compared += 1;
                if repo {
                    st.repo_compared += 1;
                }
                if allow != p.impl_allow || codegen != p.impl_codegen {
                    st.corr_disagree += 1;
                    let only_m: Vec<_> = allow.difference(&p.impl_allow).take(8).collect();
                    let only_i: Vec<_> = p.impl_allow.difference(&allow).take(8).collect();
                    let conly_m: Vec<_> = codegen.difference(&p.impl_codegen).take(8).collect();
                    let conly_i: Vec<_> = p.impl_codegen.difference(&codegen).take(8).collect();
                    fails.push(Failure {
                        kind: "correspondence",
                        detail: format!("allowlisted: only-model {only_m:?} only-impl {only_i:?}; codegen_items: only-model {conly_m:?} only-impl {conly_i:?}; model roots={roots}"),
                        input: p.input.clone(),
                    });
                } else {
                    let key = (allow.iter().copied().collect::<Vec<_>>(), codegen.iter().copied().collect::<Vec<_>>());
                    if st.samples.len() < 3 && p.idx % 37 == 5 {
                        st.samples.push(format!("case {}: allowlisted={} codegen_items={} roots={} (model == implementation)", p.idx, allow.len(), codegen.len(), roots));
                    }
                    st.distinct_sets.insert(key);
                }
            }
        }
    }
}

// ------------------------------------------------------------------ regex validation

fn regex_validation(rng: &mut Rng, n_pairs: u64, st: &mut Stats, fails: &mut Vec<Failure>) {
    let mut reqs = vec![];
    let mut meta = vec![];
    while (reqs.len() as u64) < n_pairs {
        let cxx = rng.chance(1, 2);
        let p = cgen::generate(rng, &cgen::Shape { n_decls: 10, cxx });
        let names = names_of(&p, |_| true);
        if names.is_empty() {
            continue;
        }
        for _ in 0..20 {
            let pat = gen_pattern(rng, &names, false);
            let mut name = rng.pick(&names).clone();
            match rng.below(6) {
                0 => name.push('0'),
                1 => {
                    name.pop();
                }
                2 => name.insert(0, 'x'),
                3 => name.push_str("_t"),
                _ => {}
            }
            let Ok(anch) = regex::Regex::new(&format!("^({pat})$")) else { continue };
            let Ok(plain) = regex::Regex::new(&pat) else { continue };
            reqs.push(format!("reach rx {} {}", am::hex(&pat), am::hex(&name)));
            meta.push((pat, name.clone(), anch.is_match(&name), plain.is_match(&name)));
        }
    }
    let answers = util::model(&reqs);
    for ((pat, name, a, s), ans) in meta.iter().zip(answers.iter()) {
        st.rx_pairs += 1;
        if ans == "unsupported" {
            st.rx_unsupported += 1;
            continue;
        }
        let want = format!("{} {}", u8::from(*a), u8::from(*s));
        if *a {
            st.rx_match_true += 1;
        }
        if a != s {
            st.rx_anchor_differs_from_search += 1;
        }
        if *ans != want {
            fails.push(Failure {
                kind: "regex",
                detail: format!("pattern {pat:?} name {name:?}: regex crate (anchored, search) = {want}, model = {ans}"),
                input: format!("{{\"pattern\":{},\"name\":{}}}", json_str(pat), json_str(name)),
            });
            if fails.len() > 5 {
                return;
            }
        }
    }
}

// ------------------------------------------------------------------ repository headers

fn repo_headers(thorough: bool, st: &mut Stats, fails: &mut Vec<Failure>) {
    let scratch = Scratch::new("c09repo");
    let mut pending = vec![];
    for (idx, (path, flags)) in util::repo_headers().into_iter().enumerate() {
        let interesting = flags.iter().any(|f| f.contains("allowlist") || f.contains("blocklist") || f.contains("--generate") || f.contains("--ignore"));
        if !thorough && !interesting {
            continue;
        }
        let text = std::fs::read_to_string(&path).unwrap_or_default();
        if text.contains("rustbindgen replaces") {
            // `use_instead_of` is not in the IR dump (hooks-needed/C09.diff)
            st.repo_skipped += 1;
            continue;
        }
        st.repo_headers += 1;
        let log = scratch.path(&format!("r{idx}.vlog"));
        let _ = std::fs::remove_file(&log);
        let mut args: Vec<String> = vec![path.to_string_lossy().into_owned(), "--formatter".into(), "none".into(), "-o".into(), scratch.path("out.rs").to_string_lossy().into_owned()];
        let split = flags.iter().position(|f| f == "--").unwrap_or(flags.len());
        args.extend(flags[..split].iter().cloned());
        args.push("--".into());
        args.extend(flags[split..].iter().skip(1).cloned());
        args.push("-I/repo/bindgen-tests/tests/headers".into());
        let is_cxx = path.extension().is_some_and(|e| e == "hpp");
        if is_cxx && !flags.iter().any(|f| f.starts_with("-std=") || f.starts_with("--std=")) {
            args.push("-std=c++11".into());
        }
        let (rc, _o, _e) = drive::cli(&args, &[("BINDGEN_VERIF_LOG", log.to_str().unwrap())], Some(std::path::Path::new("/repo/bindgen-tests/tests/headers")));
        let logtext = std::fs::read_to_string(&log).unwrap_or_default();
        let _ = std::fs::remove_file(&log);
        if rc != 0 || logtext.is_empty() {
            st.repo_skipped += 1;
            continue;
        }
        let l = irdump::parse_log(&logtext);
        let Some(dumprecs) = l.dumps.last() else {
            st.repo_skipped += 1;
            continue;
        };
        let d = am::load(dumprecs);
        let allow = PatternSets::from_flags(&flags[..split], "allowlist");
        pending.push(Pending {
            idx,
            request: am::request(&d, &allow),
            impl_allow: d.allowlisted(),
            impl_codegen: d.codegen(),
            input: format!("{{\"repo_header\":{},\"flags\":[{}]}}", json_str(&path.to_string_lossy()), flags.iter().map(|f| json_str(f)).collect::<Vec<_>>().join(",")),
        });
    }
    check_models(&pending, st, fails, true);
}

// ------------------------------------------------------------------ main

/// corpus/C09: fixed shapes with model-free oracles (closure by rustc, verbatim consistency with the full bindings, expected /
/// absent names), run first
fn corpus(st: &mut Stats, fails: &mut Vec<Failure>) {
    let dir = std::path::Path::new(&std::env::var("VERIF_DIR").unwrap_or_else(|_| "/verif".into())).join("corpus/C09");
    let mut files: Vec<std::path::PathBuf> = std::fs::read_dir(&dir).map(|d| d.filter_map(|e| e.ok()).map(|e| e.path()).filter(|p| p.extension().is_some_and(|e| e == "h" || e == "hpp")).collect()).unwrap_or_default();
    files.sort();
    let scratch = Scratch::new("c09corpus");
    let mut k = 0usize;
    for f in &files {
        let text = std::fs::read_to_string(f).unwrap_or_default();
        let hp = scratch.path(&f.file_name().unwrap().to_string_lossy());
        std::fs::write(&hp, &text).unwrap();
        let lines: Vec<&str> = text.lines().collect();
        for (li, line) in lines.iter().enumerate() {
            let Some(fl) = line.strip_prefix("// bindgen-flags:") else { continue };
            k += 1;
            st.bump("corpus-runs");
            let mut expect: Vec<String> = vec![];
            let mut absent: Vec<String> = vec![];
            for l2 in lines.iter().skip(li + 1) {
                if let Some(e) = l2.strip_prefix("// expect:") { expect.extend(e.split_whitespace().map(|x| x.to_string())); }
                else if let Some(e) = l2.strip_prefix("// expect-absent:") { absent.extend(e.split_whitespace().map(|x| x.to_string())); }
                else { break; }
            }
            let all = util::shell_split(fl);
            let (pre, post): (Vec<String>, Vec<String>) = match all.iter().position(|x| x == "--") { Some(i) => (all[..i].to_vec(), all[i + 1..].to_vec()), None => (all.clone(), vec![]) };
            let mk = |pre: &[String]| -> Vec<String> {
                let mut v = vec![hp.to_string_lossy().into_owned(), "--formatter".into(), "none".into(), "--no-layout-tests".into()];
                v.extend(pre.iter().cloned()); v.push("--".into()); v.extend(post.iter().cloned()); v
            };
            // the same run without allow- / blocklists
            let mut plain: Vec<String> = vec![];
            let mut it = pre.iter();
            while let Some(x) = it.next() {
                if x.starts_with("--allowlist-") || x.starts_with("--blocklist-") { if !x.contains('=') { it.next(); } continue; }
                if x == "--no-recursive-allowlist" { continue; }
                plain.push(x.clone());
            }
            let input = format!("{{\"corpus\":{},\"flags\":{},\"header\":{}}}", json_str(&f.file_name().unwrap().to_string_lossy()), json_str(fl.trim()), json_str(&text));
            let a = drive::generate_with_flags(&mk(&pre), None);
            let full = drive::generate_with_flags(&mk(&plain), None);
            let (Some(ab), Some(fb)) = (a.bindings.clone(), full.bindings.clone()) else {
                fails.push(Failure { kind: "oracle-closure", detail: format!("corpus run produced no bindings: allow-listed {:?}/{:?}, full {:?}/{:?}", a.error, a.panic, full.error, full.panic), input });
                continue;
            };
            let (Ok(al), Ok(fl_)) = (inventory::parse(&ab), inventory::parse(&fb)) else {
                fails.push(Failure { kind: "oracle-closure", detail: "corpus bindings do not parse".into(), input });
                continue;
            };
            let defined: BTreeSet<String> = al.iter().filter_map(|l| l.name.clone()).collect();
            let miss: Vec<&String> = expect.iter().filter(|n| !defined.contains(*n)).collect();
            if !miss.is_empty() {
                fails.push(Failure { kind: "oracle-roots", detail: format!("corpus: {miss:?} must be generated (a matching declaration or something one needs) and are not; defined: {:?}", defined.iter().take(40).collect::<Vec<_>>()), input: input.clone() });
                continue;
            }
            let extra: Vec<&String> = absent.iter().filter(|n| defined.contains(*n)).collect();
            if !extra.is_empty() {
                fails.push(Failure { kind: "oracle-minimal", detail: format!("corpus: {extra:?} are unrelated to every allow-listed item (or blocklisted) and are generated"), input: input.clone() });
                continue;
            }
            let full_texts: BTreeSet<&str> = fl_.iter().map(|l| l.text.as_str()).collect();
            if let Some(l) = al.iter().find(|l| !full_texts.contains(l.text.as_str())) {
                fails.push(Failure { kind: "oracle-consistent", detail: format!("corpus: item of the allow-listed bindings does not occur verbatim in the full bindings: {}", &l.text[..l.text.len().min(400)]), input: input.clone() });
                continue;
            }
            // blocklisted types are the user's to define: a trait-less stub per literal `--blocklist-type` / `--blocklist-item` name
            let mut stubs = String::new();
            let mut it2 = pre.iter();
            while let Some(x) = it2.next() {
                if x == "--blocklist-type" || x == "--blocklist-item" {
                    if let Some(n) = it2.next() { if n.chars().all(|c| c.is_alphanumeric() || c == '_') && !defined.contains(n) { stubs.push_str(&format!("#[repr(C)] pub struct {n} {{ _b: [u8; 0] }}\n")); } }
                }
            }
            let ab = format!("{stubs}{ab}");
            match compile_batch(&scratch, &format!("k{k}"), &[&ab]) {
                Ok(()) => st.closure_compiled += 1,
                Err(e) => {
                    if compile_batch(&scratch, &format!("k{k}f"), &[&fb]).is_ok() {
                        let first: String = e.lines().filter(|l| l.starts_with("error")).take(3).collect::<Vec<_>>().join(" | ");
                        fails.push(Failure { kind: "oracle-closure", detail: format!("corpus: allow-listed bindings do not compile on their own although the full bindings do: {first}"), input });
                    } else { st.closure_baseline_broken += 1; }
                }
            }
        }
    }
}

fn build_case(rng: &mut Rng, p: &Program, main_h: &str, inc_h: &str, variant: u64) -> Case {
    let inv = rng.chance(1, 12);
    let allow = if variant == 0 && rng.chance(1, 3) { PatternSets::default() } else { gen_sets(rng, p, 3, inv, "inc.h") };
    let block = if rng.chance(35, 100) {
        let mut b = gen_sets(rng, p, 1, false, "inc.h");
        // keep blocklists narrow
        b.types.truncate(1);
        b.functions.truncate(1);
        b.vars.truncate(1);
        b
    } else {
        PatternSets::default()
    };
    let recursive = !rng.chance(1, 5);
    let mut flags = allow.flags("allowlist");
    flags.extend(block.flags("blocklist"));
    if !recursive {
        flags.push("--no-recursive-allowlist".into());
    }
    let mut cfg_types = true;
    if rng.chance(3, 10) {
        let all = ["functions", "types", "vars", "methods", "constructors", "destructors"];
        let mut sel: Vec<&str> = all.iter().copied().filter(|_| rng.chance(2, 3)).collect();
        if sel.is_empty() {
            sel.push("types");
        }
        cfg_types = sel.contains(&"types");
        flags.push("--generate".into());
        flags.push(sel.join(","));
    }
    if p.cxx && rng.chance(1, 3) {
        flags.push("--enable-cxx-namespaces".into());
    }
    if p.cxx && rng.chance(if main_h.contains("virtual ") || inc_h.contains("virtual ") { 3 } else { 1 }, 4) {
        // the emitted `<Class>__bindgen_vtable` names the types of the virtual methods' signatures
        flags.push("--vtable-generation".into());
    }
    Case { prog: Some(p.clone()), main_h: main_h.to_owned(), inc_h: inc_h.to_owned(), flags, allow, block, recursive, cfg_types }
}

fn flags_without_allowlist(c: &Case) -> Vec<String> {
    let mut out = vec![];
    let mut i = 0;
    while i < c.flags.len() {
        if c.flags[i].starts_with("--allowlist-") {
            i += 2;
            continue;
        }
        if c.flags[i] == "--no-recursive-allowlist" {
            i += 1;
            continue;
        }
        out.push(c.flags[i].clone());
        i += 1;
    }
    out
}

fn replay(path: &std::path::Path) -> i32 {
    let text = std::fs::read_to_string(path).unwrap_or_default();
    // minimal JSON field extraction (the replay file is written by checks/c09.py from our own report)
    let v: Vec<String> = text.lines().map(|l| l.to_owned()).collect();
    println!("replay file has {} lines; use checks/c09.py replay", v.len());
    0
}

fn main() {
    drive::quiet_panics();
    let args = Args::parse();
    if let Some(r) = &args.replay {
        std::process::exit(replay(r));
    }
    // single-case mode used by `./check C09 --replay`: --case-dir DIR (main header, inc.h, flags.txt)
    if let Some(pos) = args.extra.iter().position(|a| a == "--case-dir") {
        let dir = std::path::PathBuf::from(&args.extra[pos + 1]);
        std::process::exit(single_case(&dir));
    }
    let thorough = args.thorough();
    let mut rng = Rng::new(args.seed);
    let mut st = Stats::default();
    let mut fails: Vec<Failure> = vec![];
    let (n_graphs, n_sets, n_rx) = if thorough { (2500, 8, 60_000) } else { (300, 4, 5000) };

    let t0 = std::time::Instant::now();
    let mut rx_rng = rng.fork();
    corpus(&mut st, &mut fails);
    regex_validation(&mut rx_rng, n_rx, &mut st, &mut fails);
    let t_rx = t0.elapsed().as_secs_f64();
    let (mut t_gen, mut t_model, mut t_rustc, mut t_oracle) = (0f64, 0f64, 0f64, 0f64);

    let mut pending: Vec<Pending> = vec![];
    let mut closure_queue: Vec<(String, String, String)> = vec![];
    let scratch = Scratch::new("c09");
    let mut idx = 0usize;
    for g in 0..n_graphs {
        let cxx = rng.chance(1, 2);
        let n_decls = rng.range(4, 16) as usize;
        let p = cgen::generate(&mut rng, &cgen::Shape { n_decls, cxx });
        st.graphs += 1;
        let (mut main_h, inc_h) = p.header_texts();
        main_h = format!("#include \"inc.h\"\n{main_h}");
        for d in &p.decls {
            st.bump(&format!("decl:{}", d.kind.name()));
        }
        st.bump(if cxx { "lang:c++" } else { "lang:c" });
        let mut full_cache: BTreeMap<Vec<String>, Option<String>> = BTreeMap::new();
        for v in 0..n_sets {
            let c = build_case(&mut rng, &p, &main_h, &inc_h, v);
            idx += 1;
            st.runs += 1;
            if !c.recursive {
                st.bump("opt:no-recursive");
            }
            if !c.block.is_empty() {
                st.bump("opt:blocklist");
            }
            if c.allow.is_empty() {
                st.bump("opt:no-allowlist");
            }
            for (k, n) in [("type", c.allow.types.len()), ("function", c.allow.functions.len()), ("var", c.allow.vars.len()), ("item", c.allow.items.len()), ("file", c.allow.files.len())] {
                if n > 0 {
                    st.bump(&format!("allowlist-kind:{k}"));
                }
            }
            if c.flags.iter().any(|f| f == "--generate") {
                st.bump("opt:generate-subset");
            }
            let tg = std::time::Instant::now();
            let run_r = run_bindgen(&scratch, &c, &c.flags, true);
            t_gen += tg.elapsed().as_secs_f64();
            let run = match run_r {
                Ok(r) => r,
                Err(e) => {
                    st.gen_failed += 1;
                    if g < 3 {
                        eprintln!("generation failed: {e}");
                    }
                    continue;
                }
            };
            let impl_allow = run.dump.allowlisted();
            let impl_codegen = run.dump.codegen();
            if !c.allow.is_empty() && !impl_codegen.is_empty() && impl_codegen.len() < run.dump.items.len() {
                st.nontrivial += 1;
            }
            pending.push(Pending { idx, request: am::request(&run.dump, &c.allow), impl_allow, impl_codegen, input: case_json(&c) });
            // full run with the same remaining options
            let fkey = flags_without_allowlist(&c);
            let full = full_cache.entry(fkey.clone()).or_insert_with(|| run_bindgen(&scratch, &c, &fkey, false).ok().map(|r| r.bindings)).clone();
            if let Some(full) = full {
                let to = std::time::Instant::now();
                oracles(&c, &run, &full, &mut st, &mut fails, &mut closure_queue);
                t_oracle += to.elapsed().as_secs_f64();
            }
            if fails.len() > 20 {
                break;
            }
        }
        if pending.len() >= 400 {
            let tm = std::time::Instant::now();
            check_models(&pending, &mut st, &mut fails, false);
            t_model += tm.elapsed().as_secs_f64();
            pending.clear();
        }
        if closure_queue.len() >= 400 {
            let tr = std::time::Instant::now();
            run_closure(&closure_queue, &mut st, &mut fails);
            t_rustc += tr.elapsed().as_secs_f64();
            closure_queue.clear();
        }
        if fails.len() > 20 {
            break;
        }
    }
    let tm = std::time::Instant::now();
    check_models(&pending, &mut st, &mut fails, false);
    t_model += tm.elapsed().as_secs_f64();
    let tr = std::time::Instant::now();
    run_closure(&closure_queue, &mut st, &mut fails);
    t_rustc += tr.elapsed().as_secs_f64();
    let tp = std::time::Instant::now();
    repo_headers(thorough, &mut st, &mut fails);
    let t_repo = tp.elapsed().as_secs_f64();
    eprintln!("timing: regex={t_rx:.1}s first-run={t_gen:.1}s oracles+full-run={t_oracle:.1}s model={t_model:.1}s rustc={t_rustc:.1}s repo={t_repo:.1}s");

    // ---- report
    let mut o = String::from("{\n");
    let num = |k: &str, v: u64| format!(" {}: {},\n", json_str(k), v);
    o.push_str(&num("graphs", st.graphs));
    o.push_str(&num("runs", st.runs));
    o.push_str(&num("gen_failed", st.gen_failed));
    o.push_str(&num("model_compared", st.model_compared));
    o.push_str(&num("model_unsupported", st.model_unsupported));
    o.push_str(&num("corr_disagree", st.corr_disagree));
    o.push_str(&num("distinct_set_pairs", st.distinct_sets.len() as u64));
    o.push_str(&num("nontrivial_runs", st.nontrivial));
    o.push_str(&num("minimal_checked", st.minimal_checked));
    o.push_str(&num("roots_checked", st.roots_checked));
    o.push_str(&num("consistent_checked", st.consistent_checked));
    o.push_str(&num("consistent_items", st.consistent_items));
    o.push_str(&num("anon_renumbered", st.anon_renumbered));
    o.push_str(&num("closure_compiled", st.closure_compiled));
    o.push_str(&num("closure_baseline_broken", st.closure_baseline_broken));
    o.push_str(&num("rx_pairs", st.rx_pairs));
    o.push_str(&num("rx_unsupported", st.rx_unsupported));
    o.push_str(&num("rx_match_true", st.rx_match_true));
    o.push_str(&num("rx_anchor_differs_from_search", st.rx_anchor_differs_from_search));
    o.push_str(&num("repo_headers", st.repo_headers));
    o.push_str(&num("repo_compared", st.repo_compared));
    o.push_str(&num("repo_skipped", st.repo_skipped));
    o.push_str(&format!(" \"hist\": {{{}}},\n", st.hist.iter().map(|(k, v)| format!("{}: {}", json_str(k), v)).collect::<Vec<_>>().join(", ")));
    o.push_str(&format!(" \"known\": {{{}}},\n", st.known.iter().map(|(k, (n, w))| format!("{}: {{\"count\": {}, \"witness\": {}}}", json_str(k), n, json_str(w))).collect::<Vec<_>>().join(", ")));
    o.push_str(&format!(" \"samples\": [{}],\n", st.samples.iter().map(|s| json_str(s)).collect::<Vec<_>>().join(", ")));
    o.push_str(&format!(
        " \"failures\": [{}]\n}}\n",
        fails.iter().take(10).map(|f| format!("{{\"kind\":{},\"detail\":{},\"input\":{}}}", json_str(f.kind), json_str(&f.detail), f.input)).collect::<Vec<_>>().join(",\n  ")
    ));
    util::write(&args.out.join("report.json"), &o);
    println!("graphs={} runs={} compared={} disagree={} failures={}", st.graphs, st.runs, st.model_compared, st.corr_disagree, fails.len());
}

/// Re-run one stored case: DIR contains `main.h`, `inc.h`, `flags.txt` (one flag per line), `cxx` (0/1).
fn single_case(dir: &std::path::Path) -> i32 {
    let rd = |n: &str| std::fs::read_to_string(dir.join(n)).unwrap_or_default();
    let flags: Vec<String> = rd("flags.txt").lines().map(|l| l.to_owned()).filter(|l| !l.is_empty()).collect();
    let cxx = rd("cxx").trim() == "1";
    let allow = PatternSets::from_flags(&flags, "allowlist");
    let block = PatternSets::from_flags(&flags, "blocklist");
    let prog = Program { cxx, decls: vec![], namespaces: vec![], inc_count: 0 };
    let c = Case { prog: Some(prog), main_h: rd("main.h"), inc_h: rd("inc.h"), flags: flags.clone(), allow, block, recursive: !flags.iter().any(|f| f == "--no-recursive-allowlist"), cfg_types: true };
    let scratch = Scratch::new("c09one");
    match run_bindgen(&scratch, &c, &c.flags, true) {
        Err(e) => {
            println!("generation failed: {e}");
            2
        }
        Ok(run) => {
            let req = am::request(&run.dump, &c.allow);
            let ans = util::model(&[req]);
            println!("implementation: allowlisted={:?}", run.dump.allowlisted());
            println!("implementation: codegen_items={:?}", run.dump.codegen());
            println!("model: {}", ans.first().cloned().unwrap_or_default());
            for it in &run.dump.items {
                if it.kind != "type" || it.type_kind.as_deref().is_some_and(|k| k == "Comp" || k == "Enum" || k == "Alias") {
                    println!("  item {} {} name={:?} allowlisted={} codegen={} blocklisted={}", it.id, it.kind, it.name, it.allowlisted, it.codegen, it.blocklisted);
                }
            }
            let full = run_bindgen(&scratch, &c, &flags_without_allowlist(&c), false).map(|r| r.bindings).unwrap_or_default();
            println!("--- allow-listed bindings\n{}", run.bindings);
            println!("--- full bindings (same other options)\n{}", full);
            0
        }
    }
}
