//! C03, struct level: generated structs/unions with bit-field runs -> real bindgen ->
//! one executable linking clang-compiled C setters/getters with the Rust accessors.
//! Every store is compared byte-for-byte (memcmp of the whole object) and every load by value.
use bgverif::drive::*;
use bgverif::irdump::parse_log;
use bgverif::rng::Rng;
use bgverif::util::{json_str, write, Args};
use std::collections::BTreeMap;

#[derive(Clone, Debug)]
struct BfField {
    name: String,
    cty: &'static str,
    signed: bool,
    is_bool: bool,
    tbits: u32,
    width: u32,
}

#[derive(Clone, Debug)]
struct GenStruct {
    name: String,
    text: String,
    fields: Vec<BfField>,
    is_union: bool,
    /// `#pragma pack(N)` together with `aligned(M)`: bindgen's pack detection (a member's type
    /// alignment exceeds the struct's) cannot see the pragma (known struct-layout finding of C02)
    pragma_and_aligned: bool,
    /// `__attribute__((packed))` or `#pragma pack`: bindgen emits no padding fields inside such a record (C02 `packed_member_gap`)
    packedish: bool,
    /// name of the type in the header / IR dump (`S5T` for the class template behind the alias `S5`)
    dump_name: String,
    is_template: bool,
}

const BASES: &[(&str, bool, bool, u32)] = &[
    ("unsigned char", false, false, 8), ("signed char", true, false, 8), ("unsigned short", false, false, 16),
    ("short", true, false, 16), ("unsigned int", false, false, 32), ("int", true, false, 32),
    ("unsigned long long", false, false, 64), ("long long", true, false, 64), ("_Bool", false, true, 8),
    ("enum E", false, false, 32), ("unsigned long", false, false, 64),
    // typedefs with their own (smaller) alignment: clang uses the typedef's alignment for the bit-field's storage unit
    ("c03_u32a1", false, false, 32), ("c03_u32a2", false, false, 32), ("c03_i32a2", true, false, 32), ("c03_u64a4", false, false, 64), ("c03_u16a1", false, false, 16),
];
const PRELUDE: &str = "enum E { E0, E1 = 5, E2 = 1000 };\ntypedef unsigned int c03_u32a1 __attribute__((aligned(1)));\ntypedef unsigned int c03_u32a2 __attribute__((aligned(2)));\ntypedef int c03_i32a2 __attribute__((aligned(2)));\ntypedef unsigned long long c03_u64a4 __attribute__((aligned(4)));\ntypedef unsigned short c03_u16a1 __attribute__((aligned(1)));\n";

fn gen_struct(rng: &mut Rng, k: usize) -> GenStruct {
    let name = format!("S{k}");
    let is_union = rng.chance(1, 12);
    let packed = rng.chance(1, 4);
    let pragma = if !packed && rng.chance(1, 6) { Some(*rng.pick(&[1u32, 2, 4, 8])) } else { None };
    let aligned = if !packed && rng.chance(1, 10) { Some(*rng.pick(&[2u32, 4, 8, 16])) } else { None };
    let mut body = String::new();
    let mut fields = vec![];
    let nrun = 1 + rng.below(12) as usize;
    let mut fi = 0;
    let mut cursor: u32 = 0; // approximate bit position (natural layout), only used to bias widths
    for _ in 0..nrun {
        let c = rng.below(100);
        if c < 12 && !is_union {
            let (mt, mb) = *rng.pick(&[("char", 8u32), ("short", 16), ("int", 32), ("long long", 64), ("void*", 64), ("unsigned char", 8)]);
            // a member-level alignment attribute between bit-field groups: the padding in front of the member is
            // what keeps the later groups where C has them
            // (alignments above 8 are left to C02: padding in front of such a member is its finding pad_blob_inexact;
            // not inside packed / pragma-packed records: packed + aligned members is C02's family of findings —
            // packed_align_conflict, packedN_misplaces, packed_member_gap — and would drown this property's signal)
            let al = if !packed && pragma.is_none() && rng.chance(1, 3) { format!(" __attribute__((aligned({})))", rng.pick(&[2u32, 4, 8])) } else { String::new() };
            body.push_str(&format!("  {mt} m{fi}{al};\n"));
            cursor = (cursor + mb - 1) / mb * mb + mb;
            fi += 1;
            continue;
        }
        let (cty, signed, is_bool, tbits) = *rng.pick(BASES);
        if c < 18 {
            body.push_str(&format!("  {cty} : 0;\n"));
            continue;
        }
        let maxw = if is_bool { 1 } else { tbits };
        // bits left in the field type's storage unit at the cursor: ending exactly on the boundary is a
        // classic off-by-one spot
        let left = tbits - cursor % tbits;
        let width = match rng.below(10) { 0 => maxw, 1 => 1, 2 => maxw.saturating_sub(1).max(1), 3 | 4 if !is_bool && left >= 1 => left.min(maxw), _ => 1 + rng.below(maxw as u64) as u32 };
        cursor += width;
        if c < 26 {
            body.push_str(&format!("  {cty} : {width};\n"));
            continue;
        }
        let fname = format!("b{fi}");
        fi += 1;
        body.push_str(&format!("  {cty} {fname} : {width};\n"));
        fields.push(BfField { name: fname, cty, signed, is_bool, tbits, width });
    }
    let kw = if is_union { "union" } else { "struct" };
    let attr = match (packed, aligned) {
        (true, _) => " __attribute__((packed))",
        (false, Some(_)) => "",
        _ => "",
    };
    let al = aligned.map(|a| format!(" __attribute__((aligned({a})))")).unwrap_or_default();
    let mut text = String::new();
    if let Some(p) = pragma { text.push_str(&format!("#pragma pack(push, {p})\n")); }
    text.push_str(&format!("{kw}{attr} {name} {{\n{body}}}{al};\n"));
    if pragma.is_some() { text.push_str("#pragma pack(pop)\n"); }
    let dump_name = name.clone();
    GenStruct { name, text, fields, is_union, pragma_and_aligned: pragma.is_some() && aligned.is_some(), packedish: packed || pragma.is_some(), dump_name, is_template: false }
}

/// A C++ class template with bit-fields: libclang reports no offsets for the pattern, so
/// `bitfields_to_allocation_units` lays the run out itself.  Unsigned 32-bit base types only, the
/// run comes first (unit at offset 0), followed by a `T*` member that makes `T` used.
fn gen_template_struct(rng: &mut Rng, k: usize) -> GenStruct {
    let name = format!("S{k}");
    let dump_name = format!("S{k}T");
    let mut body = String::new();
    let mut fields = vec![];
    let n = 2 + rng.below(5) as usize;
    let mut cursor = 0u32;
    for fi in 0..n {
        let left = 32 - cursor % 32;
        let width = match rng.below(6) { 0 => 32, 1 => 1, 2 | 3 => left, _ => 1 + rng.below(31) as u32 };
        cursor += width;
        let fname = format!("b{fi}");
        body.push_str(&format!("  unsigned int {fname} : {width};\n"));
        fields.push(BfField { name: fname, cty: "unsigned int", signed: false, is_bool: false, tbits: 32, width });
    }
    body.push_str("  T* owner;\n");
    let text = format!("template<class T> struct {dump_name} {{\n{body}}};\nstruct Use{k} {{ {dump_name}<int> r; }};\n");
    GenStruct { name, text, fields, is_union: false, pragma_and_aligned: false, packedish: false, dump_name, is_template: true }
}

fn test_values(rng: &mut Rng, w: u32) -> Vec<u64> {
    let ones = if w >= 64 { u64::MAX } else { (1u64 << w) - 1 };
    let mut v = vec![0, 1, ones, 1u64 << (w - 1), 0xAAAA_AAAA_AAAA_AAAA & ones, u64::MAX];
    for _ in 0..3 { v.push(rng.next()); }
    v
}

fn main() {
    let args = Args::parse();
    quiet_panics();
    let mut rng = Rng::new(args.seed ^ 0xC035);
    let scratch = Scratch::new("c03s");
    let thorough = args.thorough();
    let n_batches = if thorough { 150 } else { 8 };
    let per_batch = 20;
    let mut evaluations = 0u64; // accessor operations compared
    let mut structs = 0u64;
    let mut fields_total = 0u64;
    let mut distinct: std::collections::BTreeSet<(u64, u64, u64, bool)> = Default::default(); // (unit size, off, width, signed)
    let mut oracle: Vec<String> = vec![];
    let mut corr: Vec<String> = vec![];
    let mut alloc_units = 0u64;
    let mut ctor_tests = 0u64;
    let mut template_batches = 0u64;
    let mut template_fields = 0u64;
    let mut machinery: Vec<String> = vec![];
    let mut known: BTreeMap<String, u64> = BTreeMap::new();
    let mut samples: Vec<String> = vec![];
    let mut width_hist: BTreeMap<String, u64> = BTreeMap::new();
    for b in 0..n_batches {
        let cpp = b % 4 == 3;
        let gs: Vec<GenStruct> = (0..per_batch).map(|k| if cpp { gen_template_struct(&mut rng, b * per_batch + k) } else { gen_struct(&mut rng, b * per_batch + k) }).collect();
        let mut header = String::from(PRELUDE);
        for g in &gs { header.push_str(&g.text); }
        let out = if cpp {
            generate_text(&scratch, &format!("b{b}.hpp"), &header, &["--no-layout-tests"], &["-x", "c++", "-std=c++14"], true)
        } else {
            generate_text(&scratch, &format!("b{b}.h"), &header, &["--no-layout-tests"], &[], true)
        };
        if cpp { template_batches += 1; }
        let Some(bindings) = out.bindings.clone() else {
            machinery.push(format!("bindgen failed on batch {b}: {:?} {:?}", out.error, out.panic));
            continue;
        };
        // (struct, field) -> (unit size, offset into unit, width) from the IR dump
        let log = parse_log(out.log.as_deref().unwrap_or(""));
        let mut comp_name: BTreeMap<u64, String> = BTreeMap::new();
        let mut place: BTreeMap<(String, String), (u64, u64, u64)> = BTreeMap::new();
        let mut unit_of: BTreeMap<(String, String), (u64, Option<u64>)> = BTreeMap::new(); // (nth, absolute bit offset)
        if let Some(d) = log.dumps.first() {
            for r in d {
                if r.tag == "type" && r.get("k") == "Comp" {
                    if let Some(n) = r.opt_str("name") {
                        let n = gs.iter().find(|g| g.dump_name == n).map(|g| g.name.clone()).unwrap_or(n);
                        comp_name.insert(r.num("id").unwrap_or(0), n);
                    }
                }
            }
            for r in d {
                if r.tag == "field" && r.words.iter().any(|w| w == "unit") {
                    let comp = r.num("comp").unwrap_or(0);
                    let usize_ = r.get("layout").split(',').next().and_then(|x| x.parse().ok()).unwrap_or(0u64);
                    let Some(cn) = comp_name.get(&comp) else { continue };
                    for bf in r.get("bfs").split(',') {
                        let p: Vec<&str> = bf.split(':').collect();
                        if p.len() >= 4 && p[0] != "-" {
                            place.insert((cn.clone(), bgverif::irdump::unesc(p[0])), (usize_, p[2].parse().unwrap_or(0), p[3].parse().unwrap_or(0)));
                            unit_of.insert((cn.clone(), bgverif::irdump::unesc(p[0])), (r.num("nth").unwrap_or(0), p.get(4).and_then(|x| x.parse().ok())));
                        }
                    }
                }
            }
        }
        // allocation correspondence: real units vs Model/BitfieldAlloc.lean
        let mut overridden: std::collections::BTreeSet<(String, u64)> = Default::default(); // (struct, nth)
        let mut model_offs: BTreeMap<(String, u64), Vec<u64>> = BTreeMap::new();
        if let Some(d) = log.dumps.first() {
            let mut tylayout: BTreeMap<u64, (u64, u64)> = BTreeMap::new();
            let mut packed_comp: BTreeMap<u64, bool> = BTreeMap::new();
            for r in d {
                if r.tag == "type" {
                    let id = r.num("id").unwrap_or(0);
                    let l: Vec<u64> = r.get("layout").split(',').filter_map(|x| x.parse().ok()).collect();
                    if l.len() >= 2 { tylayout.insert(id, (l[0], l[1])); }
                    if r.get("k") == "Comp" { packed_comp.insert(id, r.flag("is_packed")); }
                }
            }
            // `packed` as seen by compute_bitfield_units (fields still raw): is_packed() now, or some
            // member's *type* alignment exceeds the struct's (the #pragma pack detection)
            let mut comp_align: BTreeMap<u64, u64> = BTreeMap::new();
            for r in d { if r.tag == "type" && r.get("k") == "Comp" { if let Some((_, a)) = tylayout.get(&r.num("id").unwrap_or(0)) { comp_align.insert(r.num("id").unwrap_or(0), *a); } } }
            for r in d {
                if r.tag != "field" { continue; }
                let comp = r.num("comp").unwrap_or(0);
                let Some(pa) = comp_align.get(&comp).copied() else { continue };
                let mut aligns: Vec<u64> = vec![];
                if r.words.iter().any(|w| w == "data") {
                    if let Some(a) = r.get("layout").split(',').nth(1).and_then(|x| x.parse().ok()) { aligns.push(a); }
                } else {
                    for bf in r.get("bfs").split(',') {
                        let p: Vec<&str> = bf.split(':').collect();
                        if p.len() >= 2 { if let Some((_, a)) = p[1].parse::<u64>().ok().and_then(|t| tylayout.get(&t)) { aligns.push(*a); } }
                    }
                }
                if aligns.iter().any(|a| *a > pa) { packed_comp.insert(comp, true); }
            }
            let mut reqs: Vec<String> = vec![];
            let mut metas: Vec<(String, u64, u64, Vec<u64>)> = vec![]; // struct, nth, unit size, real offs
            for r in d {
                if r.tag == "field" && r.words.iter().any(|w| w == "unit") {
                    let comp = r.num("comp").unwrap_or(0);
                    let Some(cn) = comp_name.get(&comp) else { continue };
                    let usize_ = r.get("layout").split(',').next().and_then(|x| x.parse().ok()).unwrap_or(0u64);
                    let mut parts = vec![];
                    let mut real = vec![];
                    let mut ok = true;
                    for bf in r.get("bfs").split(',') {
                        let p: Vec<&str> = bf.split(':').collect();
                        if p.len() < 5 { ok = false; break; }
                        let (Ok(ty), Ok(off), Ok(w)) = (p[1].parse::<u64>(), p[2].parse::<u64>(), p[3].parse::<u64>()) else { ok = false; break };
                        let abs = if p[4] == "-" { "-".to_owned() } else { match p[4].parse::<u64>() { Ok(a) => a.to_string(), Err(_) => { ok = false; break } } };
                        let Some((ts, ta)) = tylayout.get(&ty) else { ok = false; break };
                        parts.push(format!("{w}:{abs}:{ts}:{ta}"));
                        real.push(off);
                    }
                    if !ok || parts.is_empty() { continue; }
                    reqs.push(format!("bfalloc {} {}", if *packed_comp.get(&comp).unwrap_or(&false) { 1 } else { 0 }, parts.join(",")));
                    metas.push((cn.clone(), r.num("nth").unwrap_or(0), usize_, real));
                }
            }
            if !reqs.is_empty() {
                let ans = bgverif::util::model(&reqs);
                for ((cn, nth, usz, real), (a, rq)) in metas.iter().zip(ans.iter().zip(reqs.iter())) {
                    alloc_units += 1;
                    let want = format!("unit={usz} offs={}", real.iter().map(|x| x.to_string()).collect::<Vec<_>>().join(","));
                    if !a.starts_with(&want) {
                        corr.push(format!("{{\"class\":\"bitfield-allocation\",\"request\":{},\"model\":{},\"implementation\":{},\"struct\":{}}}", json_str(rq), json_str(a), json_str(&want), json_str(cn)));
                    }
                    if a.ends_with("overridden=1") { overridden.insert((cn.clone(), *nth)); }
                    // the offsets the unchanged algorithm (the model) assigns: the regions below are defined on them,
                    // not on what the implementation under test produced
                    if let Some(o) = a.split(' ').find_map(|t| t.strip_prefix("offs=")) {
                        model_offs.insert((cn.clone(), *nth), o.split(',').filter_map(|x| x.parse::<u64>().ok()).collect());
                    }
                }
            }
        }
        // input-defined struct-level regions (clang's numbers in the dump, not bindgen's output):
        //  * padded_before_unit: the C layout has padding (or overlap) between the end of the previous
        //    member and the first byte of an allocation unit -- the unchanged code never pads there;
        //  * union_unit_short: a union whose unit is shorter than some member needs
        let mut padded_before_unit: std::collections::BTreeSet<String> = Default::default();
        let mut union_unit_short: std::collections::BTreeSet<String> = Default::default();
        //  * gap_before_member: clang leaves padding in front of a plain member (member-level `aligned(N)`); inside a
        //    packed / pragma-packed record the unchanged code never emits a padding field, so that member and every
        //    later unit slide (C02's `packed_member_gap`); outside packed records the padding field IS emitted
        let mut gap_before_member: std::collections::BTreeSet<String> = Default::default();
        if let Some(d) = log.dumps.first() {
            let mut union_comp: BTreeMap<u64, bool> = BTreeMap::new();
            for r in d { if r.tag == "type" && r.get("k") == "Comp" { union_comp.insert(r.num("id").unwrap_or(0), r.get("ck") == "union"); } }
            let mut prev_end: BTreeMap<u64, Option<u64>> = BTreeMap::new();
            for r in d {
                if r.tag != "field" { continue; }
                let comp = r.num("comp").unwrap_or(0);
                let Some(cn) = comp_name.get(&comp).cloned() else { continue };
                let is_union = *union_comp.get(&comp).unwrap_or(&false);
                let pe = prev_end.get(&comp).cloned().unwrap_or(Some(0));
                if r.words.iter().any(|w| w == "data") {
                    let off = r.num("off");
                    if let (Some(o), Some(pe)) = (off, pe) { if !is_union && o / 8 > pe { gap_before_member.insert(cn.clone()); } }
                    let size: Option<u64> = r.get("layout").split(',').next().and_then(|x| x.parse().ok());
                    prev_end.insert(comp, match (off, size) { (Some(o), Some(sz)) => Some(o / 8 + sz), _ => None });
                } else {
                    let usz: u64 = r.get("layout").split(',').next().and_then(|x| x.parse().ok()).unwrap_or(0);
                    let mut start_bit: Option<u64> = None;
                    // clang's absolute bit offset minus the offset inside the unit must be the same for every
                    // bit-field of the unit (zero-width bit-fields can move a later one: `char : 0; enum E : 0; unsigned b : 22`
                    // under `#pragma pack(1)`)
                    let mut inconsistent = false;
                    let mut need_bits = 0u64;
                    let moffs = model_offs.get(&(cn.clone(), r.num("nth").unwrap_or(0)));
                    for (bi, bf) in r.get("bfs").split(',').enumerate() {
                        let p: Vec<&str> = bf.split(':').collect();
                        if p.len() >= 5 {
                            if let (Ok(off), Ok(w)) = (p[2].parse::<u64>(), p[3].parse::<u64>()) {
                                let off = moffs.and_then(|m| m.get(bi).copied()).unwrap_or(off);
                                need_bits = need_bits.max(off + w);
                                if let Ok(abs) = p[4].parse::<u64>() {
                                    if abs >= off {
                                        match start_bit { None => start_bit = Some(abs - off), Some(sb) => if w > 0 && sb != abs - off { inconsistent = true; } }
                                    } else if w > 0 { inconsistent = true; }
                                }
                            }
                        }
                    }
                    if is_union {
                        if need_bits > usz * 8 { union_unit_short.insert(cn.clone()); }
                    } else if let (Some(sb), Some(pe)) = (start_bit, pe) {
                        if sb / 8 != pe || inconsistent { padded_before_unit.insert(cn.clone()); }
                    }
                    prev_end.insert(comp, start_bit.map(|sb| sb / 8 + usz));
                }
            }
        }
        // C helpers
        let mut c_src = format!("#include <string.h>\n{header}\n");
        let mut rs_alias = String::new();
        if cpp {
            for g in &gs { c_src.push_str(&format!("typedef {}<int> {};\n", g.dump_name, g.name)); rs_alias.push_str(&format!("type {} = {}<::std::os::raw::c_int>;\n", g.name, g.dump_name)); }
            c_src.push_str("extern \"C\" {\n");
        }
        let mut rs_ext = String::from("extern \"C\" {\n");
        let mut rs_body = String::new();
        for g in &gs {
            let kw = if g.is_template { "" } else if g.is_union { "union" } else { "struct" };
            // the binding may be missing (opaque fallback): only test structs whose accessors exist
            if !bindings.contains(&format!("pub struct {} ", g.dump_name)) && !bindings.contains(&format!("pub union {} ", g.dump_name)) && !bindings.contains(&format!("pub struct {}{{", g.dump_name)) { continue; }
            structs += 1;
            // unit placement as rustc sees it
            let nths: std::collections::BTreeSet<u64> = g.fields.iter().filter_map(|f| unit_of.get(&(g.name.clone(), f.name.clone())).map(|x| x.0)).collect();
            for nth in &nths {
                if bindings.contains(&format!("_bitfield_{nth} :")) {
                    let sn = &g.name;
                    if g.is_union {
                        rs_body.push_str(&format!("{{ let z: {sn} = unsafe {{ std::mem::zeroed() }}; println!(\"UNIT {sn} {nth} 0 {{}}\", unsafe {{ std::mem::size_of_val(&z._bitfield_{nth}) }}); }}\n"));
                    } else {
                        rs_body.push_str(&format!("{{ let z: {sn} = unsafe {{ std::mem::zeroed() }}; println!(\"UNIT {sn} {nth} {{}} {{}}\", std::mem::offset_of!({sn}, _bitfield_{nth}), std::mem::size_of_val(&z._bitfield_{nth})); }}\n"));
                    }
                }
            }
            c_src.push_str(&format!("unsigned long long {0}_size(void) {{ return sizeof({1} {0}); }}\n", g.name, kw));
            rs_ext.push_str(&format!("fn {}_size() -> u64;\n", g.name));
            rs_body.push_str(&format!("println!(\"SIZE {0} {{}} {{}}\", std::mem::size_of::<{0}>(), unsafe {{ {0}_size() }});\n", g.name));
            let impl_pat = if g.is_template { format!("impl < T , > {} < T , > {{", g.dump_name) } else { format!("impl {} {{", g.name) };
            let impl_text: &str = bindings.find(&impl_pat).map(|i| &bindings[i..]).unwrap_or("");
            let impl_text = impl_text.find("\nimpl ").map(|j| &impl_text[..j]).unwrap_or(impl_text);
            // with --formatter none an impl block ends where the next top-level item starts
            let impl_end = impl_text.find(" # [repr").unwrap_or(impl_text.len());
            let impl_text = &impl_text[..impl_end];
            for f in &g.fields {
                if !impl_text.contains(&format!("pub fn set_{} ", f.name)) && !impl_text.contains(&format!("pub fn set_{}(", f.name)) { continue; }
                fields_total += 1;
                if g.is_template { template_fields += 1; }
                *width_hist.entry(format!("{}", (f.width + 7) / 8 * 8)).or_default() += 1;
                let sn = &g.name;
                let fnm = &f.name;
                let setv = if f.is_bool { "(v & 1)" } else { "v" };
                c_src.push_str(&format!("void {sn}_set_{fnm}({kw} {sn}* p, unsigned long long v) {{ p->{fnm} = ({})({setv}); }}\n", f.cty));
                c_src.push_str(&format!("unsigned long long {sn}_get_{fnm}(const {kw} {sn}* p) {{ return (unsigned long long)p->{fnm}; }}\n"));
                rs_ext.push_str(&format!("fn {sn}_set_{fnm}(p: *mut {sn}, v: u64); fn {sn}_get_{fnm}(p: *const {sn}) -> u64;\n"));
                let plc = place.get(&(g.name.clone(), f.name.clone())).copied().unwrap_or((0, 0, f.width as u64));
                distinct.insert((plc.0, plc.1, plc.2, f.signed));
                let vals = test_values(&mut rng, f.width);
                let vals_s = vals.iter().map(|v| format!("{v}u64")).collect::<Vec<_>>().join(", ");
                let to_field = if f.is_bool { "(v & 1) != 0".to_string() } else { "v as _".to_string() };
                let from_field = if f.is_bool { "as u64" } else { "as i128 as u64" };
                rs_body.push_str(&format!(
                    "for &v in &[{vals_s}] {{ let r_ = std::panic::catch_unwind(|| unsafe {{\n  let n = std::cmp::max(std::mem::size_of::<{sn}>(), {sn}_size() as usize);\n  let mut ba = Buf([0x5a; 1024]); let mut bc = Buf([0x5a; 1024]);\n  let a = &mut *(ba.0.as_mut_ptr() as *mut {sn}); let c = &mut *(bc.0.as_mut_ptr() as *mut {sn});\n  {sn}_set_{fnm}(c, v); a.set_{fnm}({to_field});\n  if ba.0[..n] != bc.0[..n] {{ println!(\"MISMATCH store {sn} {fnm} v={{v:x}} rust={{}} c={{}}\", hex(&ba.0[..n]), hex(&bc.0[..n])); }}\n  let r = (c.{fnm}() {from_field}); let cc = {sn}_get_{fnm}(c);\n  if r != cc {{ println!(\"MISMATCH load {sn} {fnm} v={{v:x}} rust={{r:x}} c={{cc:x}}\"); }}\n  println!(\"OPS 2\");\n}}); if r_.is_err() {{ println!(\"MISMATCH panic {sn} {fnm} v={{v:x}} rust=0 c=0\"); }} }}\n"));
            }
            // allocation-unit constructors: new_bitfield_N(args) must equal the C assignments on a zeroed object
            for nth in &nths {
                let Some(i) = impl_text.find(&format!("pub fn new_bitfield_{nth} (")) else { continue };
                let sig = &impl_text[i..];
                let Some(j) = sig.find(") ->") else { continue };
                let params_txt = &sig[sig.find('(').unwrap() + 1..j];
                let mut depth = 0i32;
                let mut cur = String::new();
                let mut params: Vec<String> = vec![];
                for ch in params_txt.chars() {
                    match ch { '<' | '(' | '[' => { depth += 1; cur.push(ch) } '>' | ')' | ']' => { depth -= 1; cur.push(ch) } ',' if depth == 0 => { params.push(cur.trim().to_owned()); cur.clear(); } _ => cur.push(ch) }
                }
                if !cur.trim().is_empty() { params.push(cur.trim().to_owned()); }
                let names: Vec<String> = params.iter().map(|p| p.split(':').next().unwrap_or("").trim().to_owned()).collect();
                let fields: Vec<&BfField> = names.iter().filter_map(|n| g.fields.iter().find(|f| &f.name == n)).collect();
                if fields.len() != names.len() || fields.is_empty() { continue; }
                if fields.iter().any(|f| !c_src.contains(&format!("{}_set_{}(", g.name, f.name))) { continue; }
                let sn = &g.name;
                for _round in 0..4 {
                    let vals: Vec<u64> = fields.iter().map(|f| { let ones = if f.width >= 64 { u64::MAX } else { (1u64 << f.width) - 1 }; match rng.below(4) { 0 => ones, 1 => 0, _ => rng.next() } }).collect();
                    let c_sets: String = fields.iter().zip(&vals).map(|(f, v)| format!("{sn}_set_{}(c, {v}u64); ", f.name)).collect();
                    let args: String = fields.iter().zip(&vals).map(|(f, v)| if f.is_bool { format!("({v}u64 & 1) != 0") } else { format!("{v}u64 as _") }).collect::<Vec<_>>().join(", ");
                    rs_body.push_str(&format!(
                        "{{ let r_ = std::panic::catch_unwind(|| unsafe {{\n  let n = std::cmp::max(std::mem::size_of::<{sn}>(), {sn}_size() as usize);\n  let mut ba = Buf([0; 1024]); let mut bc = Buf([0; 1024]);\n  let a = &mut *(ba.0.as_mut_ptr() as *mut {sn}); let c = &mut *(bc.0.as_mut_ptr() as *mut {sn});\n  {c_sets}\n  a._bitfield_{nth} = {sn}::new_bitfield_{nth}({args});\n  if ba.0[..n] != bc.0[..n] {{ println!(\"MISMATCH ctor {sn} unit{nth} v=0 rust={{}} c={{}}\", hex(&ba.0[..n]), hex(&bc.0[..n])); }}\n  println!(\"OPS 1\");\n}}); if r_.is_err() {{ println!(\"MISMATCH ctor {sn} unit{nth} v=0 rust=0 c=0\"); }} }}\n"));
                    ctor_tests += 1;
                }
            }
        }
        rs_ext.push_str("}\n");
        if cpp { c_src.push_str("}\n"); }
        let cargs: Vec<&str> = if cpp { vec!["-x", "c++", "-std=c++14", "-O1", "-w"] } else { vec!["-O1", "-w"] };
        let obj = match clang_obj(&scratch, &format!("c{b}"), &c_src, &cargs) {
            Ok(o) => o,
            Err(e) => { machinery.push(format!("clang failed on batch {b}: {}", e.chars().take(400).collect::<String>())); continue; }
        };
        let prog = format!("#![allow(warnings)]\n{bindings}\n{rs_alias}\n{rs_ext}\n#[repr(C, align(64))] struct Buf([u8; 1024]);\nfn hex(b: &[u8]) -> String {{ b.iter().map(|x| format!(\"{{x:02x}}\")).collect() }}\nfn main() {{\nstd::panic::set_hook(Box::new(|_| {{}}));\n{rs_body}\nprintln!(\"DONE\");\n}}\n");
        // overflow checks off: the debug-build panic in region R1 is exercised by the sweep
        let exe = match rustc_bin(&scratch, &format!("t{b}"), &prog, &[obj], &["-C", "overflow-checks=off", "-C", "debug-assertions=off", "-C", "opt-level=1"]) {
            Ok(e) => e,
            Err(e) => { machinery.push(format!("rustc failed on batch {b}: {}", e.lines().filter(|l| l.starts_with("error")).take(3).collect::<Vec<_>>().join(" | "))); continue; }
        };
        let (rc, o, e) = run_exe(&exe);
        if rc != 0 || !o.contains("DONE") { machinery.push(format!("test executable failed rc={rc} {}", e.chars().take(300).collect::<String>())); continue; }
        let mut unit_rust: BTreeMap<(String, u64), (u64, u64)> = BTreeMap::new();
        let mut size_mismatch: std::collections::BTreeSet<String> = Default::default();
        for line in o.lines() {
            if let Some(rest) = line.strip_prefix("SIZE ") {
                let t: Vec<&str> = rest.split(' ').collect();
                if t.len() == 3 && t[1] != t[2] { size_mismatch.insert(t[0].to_owned()); }
            }
        }
        for line in o.lines() {
            if let Some(rest) = line.strip_prefix("UNIT ") {
                let t: Vec<&str> = rest.split(' ').collect();
                if t.len() == 4 { unit_rust.insert((t[0].to_owned(), t[1].parse().unwrap_or(0)), (t[2].parse().unwrap_or(0), t[3].parse().unwrap_or(0))); }
            }
        }
        for line in o.lines() {
            if line.starts_with("OPS 1") { evaluations += 1; continue; }
            if line.starts_with("OPS") { evaluations += 2; continue; }
            if !line.starts_with("MISMATCH") { continue; }
            let t: Vec<&str> = line.split(' ').collect();
            let (kind, sn, fnm) = (t[1], t[2], t[3]);
            let g = gs.iter().find(|g| g.name == sn).unwrap();
            let plc = place.get(&(sn.to_owned(), fnm.to_owned())).copied();
            let r1 = plc.map_or(false, |(_, off, w)| w > 0 && w + off % 8 > 64);
            let nth_of = unit_of.get(&(sn.to_owned(), fnm.to_owned())).map(|x| x.0).unwrap_or(0);
            let any_overridden = overridden.iter().any(|(s_, _)| s_ == sn);
            if overridden.contains(&(sn.to_owned(), nth_of)) || (any_overridden && kind == "ctor") { *known.entry("bf_offset_overridden".into()).or_default() += 1; continue; }
            if g.pragma_and_aligned { *known.entry("pragma_pack_undetected".into()).or_default() += 1; continue; }
            if g.packedish && gap_before_member.contains(sn) { *known.entry("unit_after_unpadded_packed_member".into()).or_default() += 1; continue; }
            if padded_before_unit.contains(sn) || union_unit_short.contains(sn) || any_overridden { *known.entry("bitfield_unit_misplaced".into()).or_default() += 1; continue; }
            if kind == "ctor" {
                // a constructor is the composition of the setters: known iff some field of the unit is in region R1
                let want = fnm.trim_start_matches("unit").to_owned();
                let any_r1 = g.fields.iter().any(|f| unit_of.get(&(sn.to_owned(), f.name.clone())).map(|x| x.0.to_string()) == Some(want.clone())
                    && place.get(&(sn.to_owned(), f.name.clone())).map_or(false, |(_, off, w)| *w > 0 && w + off % 8 > 64));
                if any_r1 { *known.entry("bf_shift_gt_64".into()).or_default() += 1; }
                else { oracle.push(format!("{{\"class\":\"bitfield-constructor-vs-C\",\"line\":{},\"struct\":{}}}", json_str(line), json_str(&g.text))); }
                continue;
            }
            let f = g.fields.iter().find(|f| f.name == fnm).unwrap();
            let r2 = kind == "load" && f.signed && f.width < f.tbits;
            if r1 { *known.entry("bf_shift_gt_64".into()).or_default() += 1; }
            else if r2 {
                // the model predicts zero-extension: rust value must be the C value truncated to `width` bits
                let rv = u64::from_str_radix(t[5].trim_start_matches("rust="), 16).unwrap_or(1);
                let cv = u64::from_str_radix(t[6].trim_start_matches("c="), 16).unwrap_or(0);
                let mask = if f.width >= 64 { u64::MAX } else { (1u64 << f.width) - 1 };
                let tmask = if f.tbits >= 64 { u64::MAX } else { (1u64 << f.tbits) - 1 };
                if rv == (cv & mask) && (cv & tmask) != (cv & mask) { *known.entry("bf_signed_narrow".into()).or_default() += 1; }
                else { oracle.push(format!("{{\"class\":\"bitfield-accessor-vs-C\",\"line\":{},\"struct\":{},\"placement\":{}}}", json_str(line), json_str(&g.text), json_str(&format!("{plc:?}")))); }
            } else {
                oracle.push(format!("{{\"class\":\"bitfield-accessor-vs-C\",\"line\":{},\"struct\":{},\"placement\":{}}}", json_str(line), json_str(&g.text), json_str(&format!("{plc:?}"))));
            }
        }
        if samples.len() < 3 { samples.push(format!("{{\"struct\":{},\"fields\":{}}}", json_str(&gs[0].text), gs[0].fields.len())); }
    }
    let map_json = |m: &BTreeMap<String, u64>| format!("{{{}}}", m.iter().map(|(k, v)| format!("{}:{}", json_str(k), v)).collect::<Vec<_>>().join(","));
    let report = format!(
        "{{\"evaluations\":{},\"structs\":{},\"bitfields\":{},\"distinct_nontrivial\":{},\"known_region_hits\":{},\"storage_bits_histogram\":{},\"samples\":[{}],\"template_fields_tested\":{},\"template_batches\":{},\"constructor_tests\":{},\"allocation_units_compared\":{},\"correspondence_failures\":[{}],\"oracle_failures\":[{}],\"machinery\":[{}]}}",
        evaluations, structs, fields_total, distinct.len(), map_json(&known), map_json(&width_hist), samples.join(","), template_fields, template_batches, ctor_tests, alloc_units, corr.iter().take(20).cloned().collect::<Vec<_>>().join(","),
        oracle.iter().take(20).cloned().collect::<Vec<_>>().join(","), machinery.iter().take(10).map(|m| json_str(m)).collect::<Vec<_>>().join(","));
    write(&args.out.join("report.json"), &report);
    println!("ops={evaluations} structs={structs} fields={fields_total} oracle={} known={:?} machinery={}", oracle.len(), known, machinery.len());
}
