//! C15 — formatter choice changes only whitespace; formatter failure is not fatal.
//!
//! Library driver: `bindgen::Builder` with `.formatter(Rustfmt).with_rustfmt(<scripted fake formatter>)`
//! over the fault list of the property x small / multi-megabyte bindings x rustfmt configuration
//! file present / absent x header-comment / raw-line variants; every `Bindings::write` runs in its
//! own thread with a timeout (hang = violation).  Observed class (formatted / fallback / error /
//! panic / hang) and bytes are compared with the Lean model's prediction (`bgmodel`, `fmt …`).
//! Then the three formatter settings (none, real rustfmt, prettyplease) are compared token by token.
use std::collections::BTreeMap;
use std::os::unix::fs::PermissionsExt;
use std::path::{Path, PathBuf};
use std::str::FromStr;
use std::sync::mpsc;
use std::time::{Duration, Instant};

use bgverif::drive::{self, Scratch};
use bgverif::rng::Rng;
use bgverif::util::{self, json_str, Args};

const MARK: &str = "// formatted by the fake formatter\n";

#[derive(Clone, Debug)]
struct Fault {
    name: &'static str,
    /// how the formatter path is prepared
    kind: PathKind,
    /// shell script body (after `#!/bin/sh` and the argument logger)
    script: String,
    /// model outcome: o=…, utf8=…, st=…
    outcome: &'static str,
    /// expected stdout of the child when the model says `formatted`: MARK + source, or fixed text
    stdout: Stdout,
    /// only meaningful with multi-megabyte input
    large_only: bool,
}

#[derive(Clone, Debug, PartialEq)]
enum PathKind {
    Script,
    Absent,
    Directory,
    NotExecutable,
}

#[derive(Clone, Debug)]
enum Stdout {
    MarkThenSource,
    Fixed(&'static str),
    Irrelevant,
}

fn faults() -> Vec<Fault> {
    let f = |name, kind, script: &str, outcome, stdout, large_only| Fault { name, kind, script: script.to_owned(), outcome, stdout, large_only };
    use PathKind::*;
    use Stdout::*;
    vec![
        f("ok-exit0", Script, "printf '%s' \"$MARK\"; cat; exit 0", "o=exit utf8=1 st=code:0", MarkThenSource, false),
        f("exit3-complete-output", Script, "printf '%s' \"$MARK\"; cat; exit 3", "o=exit utf8=1 st=code:3", MarkThenSource, false),
        f("absent-path", Absent, "", "o=spawn utf8=1 st=code:0", Irrelevant, false),
        f("directory", Directory, "", "o=spawn utf8=1 st=code:0", Irrelevant, false),
        f("non-executable-file", NotExecutable, "cat; exit 0", "o=spawn utf8=1 st=code:0", Irrelevant, false),
        f("exit1", Script, "printf '%s' \"$MARK\"; cat; exit 1", "o=exit utf8=1 st=code:1", Irrelevant, false),
        f("exit2", Script, "printf '%s' \"$MARK\"; cat; exit 2", "o=exit utf8=1 st=code:2", Irrelevant, false),
        f("exit101", Script, "printf '%s' \"$MARK\"; cat; exit 101", "o=exit utf8=1 st=code:101", Irrelevant, false),
        f("exit255", Script, "printf '%s' \"$MARK\"; cat; exit 255", "o=exit utf8=1 st=code:255", Irrelevant, false),
        f("sigkill", Script, "printf '%s' \"$MARK\"; cat; kill -KILL $$; sleep 5", "o=exit utf8=1 st=sig:9", Irrelevant, false),
        f("sigsegv", Script, "printf '%s' \"$MARK\"; cat; kill -SEGV $$; sleep 5", "o=exit utf8=1 st=sig:11", Irrelevant, false),
        f("sigkill-before-reading", Script, "kill -KILL $$; sleep 5", "o=exit utf8=1 st=sig:9", Irrelevant, false),
        f("nonzero-after-writing-nothing", Script, "cat > /dev/null; exit 1", "o=exit utf8=1 st=code:1", Irrelevant, false),
        f("nonzero-after-writing-half", Script, "printf '%s' \"$MARK\"; head -c 40; cat > /dev/null; exit 1", "o=exit utf8=1 st=code:1", Irrelevant, false),
        f("nonzero-after-writing-everything", Script, "printf '%s' \"$MARK\"; cat; exit 1", "o=exit utf8=1 st=code:1", Irrelevant, false),
        f("invalid-utf8-exit0", Script, "cat > /dev/null; printf '\\377\\376 fn x() {}\\n'; exit 0", "o=exit utf8=0 st=code:0", Irrelevant, false),
        f("invalid-utf8-exit1", Script, "cat > /dev/null; printf 'fn x() {} \\300\\n'; exit 1", "o=exit utf8=0 st=code:1", Irrelevant, false),
        f("closes-stdin-immediately-exit1", Script, "exec 0<&-; printf 'partial'; exit 1", "o=exit utf8=1 st=code:1", Irrelevant, false),
        f("closes-stdin-immediately-exit0", Script, "exec 0<&-; printf 'pub const TRUSTED: u8 = 1;\\n'; exit 0", "o=exit utf8=1 st=code:0", Fixed("pub const TRUSTED: u8 = 1;\n"), false),
        f("never-reads-stdin-exit1", Script, "sleep 0.3; exit 1", "o=exit utf8=1 st=code:1", Irrelevant, true),
        f("never-reads-stdin-exit0", Script, "sleep 0.3; printf 'pub const TRUSTED: u8 = 2;\\n'; exit 0", "o=exit utf8=1 st=code:0", Fixed("pub const TRUSTED: u8 = 2;\n"), true),
        f("never-reads-stdin-sigkill", Script, "sleep 0.2; kill -KILL $$; sleep 5", "o=exit utf8=1 st=sig:9", Irrelevant, true),
        f("slow-reader-exit0", Script, "sleep 1; printf '%s' \"$MARK\"; cat; exit 0", "o=exit utf8=1 st=code:0", MarkThenSource, false),
        f("slow-reader-exit1", Script, "sleep 1; cat > /dev/null; exit 1", "o=exit utf8=1 st=code:1", Irrelevant, false),
        f("writes-megabytes-before-reading-exit1", Script, "head -c 3000000 /dev/zero | tr '\\0' 'a'; cat > /dev/null; exit 1", "o=exit utf8=1 st=code:1", Irrelevant, false),
        f("writes-megabytes-before-reading-exit3", Script, "printf '%s' \"$MARK\"; cat; exit 3", "o=exit utf8=1 st=code:3", MarkThenSource, true),
        f("closes-stdout-then-reads-exit1", Script, "exec 1>&-; cat > /dev/null; exit 1", "o=exit utf8=1 st=code:1", Irrelevant, false),
        // diagnostics on stderr, more than a pipe holds (64 KiB): a failing formatter is usually a talkative one
        f("chatty-stderr-exit2", Script, "cat > /dev/null; head -c 70000 /dev/zero | tr '\\0' 'e' >&2; exit 2", "o=exit utf8=1 st=code:2", Irrelevant, false),
        f("chatty-stderr-before-reading-exit101", Script, "head -c 70000 /dev/zero | tr '\\0' 'e' >&2; cat > /dev/null; exit 101", "o=exit utf8=1 st=code:101", Irrelevant, false),
        f("chatty-stderr-exit0", Script, "printf '%s' \"$MARK\"; cat; head -c 70000 /dev/zero | tr '\\0' 'e' >&2; exit 0", "o=exit utf8=1 st=code:0", MarkThenSource, false),
    ]
}

fn install(dir: &Path, f: &Fault, idx: usize) -> PathBuf {
    let p = dir.join(format!("fmt_{idx}_{}", f.name));
    match f.kind {
        PathKind::Absent => {}
        PathKind::Directory => {
            std::fs::create_dir_all(&p).unwrap();
        }
        PathKind::Script | PathKind::NotExecutable => {
            let text = format!("#!/bin/sh\nprintf '%s\\n' \"$@\" > \"$0.args\"\nMARK='{}'\n{}\n", MARK.trim_end(), f.script.replace("\"$MARK\"", "\"$MARK\n\""));
            std::fs::write(&p, text).unwrap();
            let mode = if f.kind == PathKind::Script { 0o755 } else { 0o644 };
            std::fs::set_permissions(&p, std::fs::Permissions::from_mode(mode)).unwrap();
        }
    }
    p
}

#[derive(Clone, Debug)]
struct Variant {
    header_comment: bool,
    raw_lines: Vec<String>,
    config_file: bool,
}

#[derive(Clone, Copy, Debug, PartialEq)]
enum Fm {
    None,
    Rustfmt,
    Pretty,
}

fn build(header: &Path, v: &Variant, fm: Fm, rustfmt: Option<&Path>, cfg: &Path) -> Result<bindgen::Bindings, String> {
    let mut b = bindgen::Builder::default().header(header.to_string_lossy()).layout_tests(false);
    if v.config_file {
        b = b.rustfmt_configuration_file(Some(cfg.to_path_buf()));
    }
    b = b.formatter(match fm {
        Fm::None => bindgen::Formatter::None,
        Fm::Rustfmt => bindgen::Formatter::Rustfmt,
        Fm::Pretty => bindgen::Formatter::Prettyplease,
    });
    if let Some(p) = rustfmt {
        b = b.with_rustfmt(p);
    }
    if !v.header_comment {
        b = b.disable_header_comment();
    }
    for l in &v.raw_lines {
        b = b.raw_line(l.clone());
    }
    b.generate().map_err(|e| format!("{e:?}"))
}

#[derive(Debug, Clone, PartialEq)]
enum Observed {
    Ok(Vec<u8>),
    Error(String),
    Panic(String),
    Hang,
    Setup(String),
}

/// generate + write in a fresh thread (`Bindings` is not `Send`); the time is that of `write` alone
fn run_case(header: &Path, v: &Variant, fm: Fm, rustfmt: Option<&Path>, cfg: &Path, timeout: Duration) -> (Observed, f64) {
    let (tx, rx) = mpsc::channel();
    let (header, v, rustfmt, cfg) = (header.to_path_buf(), v.clone(), rustfmt.map(|p| p.to_path_buf()), cfg.to_path_buf());
    std::thread::spawn(move || {
        let r = std::panic::catch_unwind(std::panic::AssertUnwindSafe(|| {
            let b = match build(&header, &v, fm, rustfmt.as_deref(), &cfg) {
                Ok(b) => b,
                Err(e) => return (Observed::Setup(e), 0.0),
            };
            let t0 = Instant::now();
            let mut out: Vec<u8> = vec![];
            let r = b.write(&mut out);
            let secs = t0.elapsed().as_secs_f64();
            match r {
                Ok(()) => (Observed::Ok(out), secs),
                Err(e) => (Observed::Error(e.to_string()), secs),
            }
        }));
        let _ = tx.send(match r {
            Ok(o) => o,
            Err(p) => (Observed::Panic(p.downcast_ref::<String>().cloned().or_else(|| p.downcast_ref::<&str>().map(|s| s.to_string())).unwrap_or_default()), 0.0),
        });
    });
    rx.recv_timeout(timeout).unwrap_or((Observed::Hang, timeout.as_secs_f64()))
}

fn enc(s: &str) -> String {
    if s.is_empty() {
        "-".into()
    } else {
        s.chars().map(|c| (c as u32).to_string()).collect::<Vec<_>>().join(".")
    }
}

fn dec(s: &str) -> String {
    if s == "-" {
        String::new()
    } else {
        s.split('.').filter_map(|t| t.parse::<u32>().ok().and_then(char::from_u32)).collect()
    }
}

fn request(fm: Fm, outcome: &str, v: &Variant, version: &str) -> String {
    let raw = if v.raw_lines.is_empty() { "~".to_owned() } else { v.raw_lines.iter().map(|l| enc(l)).collect::<Vec<_>>().join(";") };
    format!(
        "fmt f={} {} hdr={} ver={} raw={}",
        match fm {
            Fm::None => "none",
            Fm::Rustfmt => "rustfmt",
            Fm::Pretty => "prettyplease",
        },
        outcome,
        v.header_comment as u8,
        enc(version),
        raw
    )
}

/// model answer -> (class, template text)
fn parse_answer(a: &str) -> Option<(String, String)> {
    let (c, t) = a.split_once(' ')?;
    Some((c.to_owned(), dec(t)))
}

fn subst(template: &str, src: &[u8], out: &[u8]) -> Vec<u8> {
    let mut r: Vec<u8> = vec![];
    let mut rest = template;
    loop {
        let a = rest.find("@SRC@");
        let b = rest.find("@OUT@");
        let (pos, which) = match (a, b) {
            (Some(x), Some(y)) => {
                if x < y { (x, 0) } else { (y, 1) }
            }
            (Some(x), None) => (x, 0),
            (None, Some(y)) => (y, 1),
            (None, None) => {
                r.extend_from_slice(rest.as_bytes());
                return r;
            }
        };
        r.extend_from_slice(rest[..pos].as_bytes());
        r.extend_from_slice(if which == 0 { src } else { out });
        rest = &rest[pos + 5..];
    }
}

fn tokens(s: &str) -> Result<String, String> {
    proc_macro2::TokenStream::from_str(s).map(|t| t.to_string()).map_err(|e| format!("{e}"))
}

/// flattened token tree: "(" / ")" for every delimiter pair, "," , everything else by its text
fn flat_tokens(s: &str) -> Result<Vec<String>, String> {
    fn go(ts: proc_macro2::TokenStream, out: &mut Vec<String>) {
        for t in ts {
            match t {
                proc_macro2::TokenTree::Group(g) => {
                    out.push(format!("({:?}", g.delimiter()));
                    go(g.stream(), out);
                    out.push(")".into());
                }
                proc_macro2::TokenTree::Punct(p) if p.as_char() == ',' => out.push(",".into()),
                other => out.push(other.to_string()),
            }
        }
    }
    let ts = proc_macro2::TokenStream::from_str(s).map_err(|e| format!("{e}"))?;
    let mut v = vec![];
    go(ts, &mut v);
    Ok(v)
}

/// same as `Format.stripTC` in Lean: delete a comma that directly precedes a closing delimiter
fn strip_tc(v: &[String]) -> Vec<&String> {
    let mut out = vec![];
    let mut i = 0;
    while i < v.len() {
        if v[i] == "," && i + 1 < v.len() && v[i + 1] == ")" {
            i += 1;
            continue;
        }
        out.push(&v[i]);
        i += 1;
    }
    out
}

/// same as `Format.regionTrailingComma`
fn region_trailing_comma(a: &[String], b: &[String]) -> bool {
    a != b && strip_tc(a) == strip_tc(b)
}

/// ask the Lean driver for the same two predicates
fn model_tc(a: &[String], b: &[String]) -> String {
    let mut ids: BTreeMap<String, usize> = BTreeMap::new();
    let mut enc = |v: &[String]| -> String {
        v.iter()
            .map(|t| {
                if t == "," || t == ")" {
                    t.clone()
                } else if t.starts_with('(') && t.len() > 1 && t[1..].chars().all(|c| c.is_alphabetic()) {
                    // opening delimiter: "(" plus the delimiter kind as a separate token
                    let n = ids.len();
                    format!("( {}", *ids.entry(t.clone()).or_insert(n))
                } else {
                    let n = ids.len();
                    ids.entry(t.clone()).or_insert(n).to_string()
                }
            })
            .collect::<Vec<_>>()
            .join(" ")
    };
    let req = format!("fmt tc {} | {}", enc(a), enc(b));
    util::model(&[req]).into_iter().next().unwrap_or_default()
}

fn count_occ(hay: &str, needle: &str) -> usize {
    hay.matches(needle).count()
}

struct Fail {
    kind: &'static str, // class | bytes | tokens | tokens-trailing-comma (known region) | prefix | args | model | setup
    case: String,
    detail: String,
    script: String,
}

fn main() {
    let args = Args::parse();
    drive::quiet_panics();
    let scratch = Scratch::new("c15");
    let mut rng = Rng::new(args.seed ^ 0xC15);
    let version = std::fs::read_to_string("/repo/bindgen/Cargo.toml")
        .ok()
        .and_then(|t| t.lines().find(|l| l.starts_with("version")).and_then(|l| l.split('"').nth(1).map(|s| s.to_owned())))
        .unwrap_or_else(|| "(unknown version)".into());
    // inputs
    let small = scratch.path("small.h");
    std::fs::write(&small, "/** a documented struct */\nstruct S { int a; char b; };\ntypedef struct S T;\n#define K 7\nenum E { A, B = 5 };\nint f(struct S *s, T t);\nextern const char *name;\n").unwrap();
    let nlarge = if args.thorough() { 40000 } else { 11000 } + rng.below(500);
    let large = scratch.path("large.h");
    {
        let mut t = String::with_capacity(nlarge as usize * 60);
        for i in 0..nlarge {
            t.push_str(&format!("int function_with_a_long_name_{i}(int argument_a, unsigned long argument_b);\n"));
            if i % 50 == 0 {
                t.push_str(&format!("struct S{i} {{ int a; char b[{}]; }};\n", 1 + i % 7));
            }
        }
        std::fs::write(&large, t).unwrap();
    }
    // between the default pipe capacity (64 KiB) and 1 MiB: whether the source fits a pipe buffer matters to
    // any scheme that writes stdin and reads stdout from one thread
    let medium = scratch.path("medium.h");
    {
        let mut t = String::new();
        for i in 0..(2500 + rng.below(200)) {
            t.push_str(&format!("int function_with_a_long_name_{i}(int argument_a, unsigned long argument_b);\n"));
        }
        std::fs::write(&medium, t).unwrap();
    }
    let cfg = scratch.path("rustfmt.toml");
    std::fs::write(&cfg, "max_width = 90\n").unwrap();
    let variants_all = vec![
        Variant { header_comment: true, raw_lines: vec![], config_file: false },
        Variant { header_comment: true, raw_lines: vec!["use core::ffi::c_void as raw_line_one;".into(), "// raw line two \u{e9}".into(), "pub const RAW_THREE: u8 = 3;".into()], config_file: true },
        Variant { header_comment: false, raw_lines: vec!["#![allow(dead_code)] // only raw line".into()], config_file: false },
        Variant { header_comment: false, raw_lines: vec![], config_file: true },
    ];
    let fl = faults();
    if args.extra.iter().any(|a| a == "hang-demo") {
        // outside the claim: a formatter that neither reads its stdin nor exits.  Demonstrates that the
        // timeout reports a hang (the child is killed afterwards).
        let f = Fault { name: "never-reads-never-exits", kind: PathKind::Script, script: "exec sleep 30".into(), outcome: "", stdout: Stdout::Irrelevant, large_only: true };
        let path = install(&scratch.0, &f, 424242);
        let (o, secs) = run_case(&large, &variants_all[0], Fm::Rustfmt, Some(&path), &cfg, Duration::from_secs(8));
        println!("hang-demo: observed {} after {secs:.1}s", short(&o));
        let _ = std::process::Command::new("pkill").arg("-f").arg(path.to_string_lossy().as_ref()).status();
        let _ = std::fs::remove_dir_all(&scratch.0);
        std::process::exit(0);
    }
    let mut fails: Vec<Fail> = vec![];
    let mut hist: BTreeMap<String, u64> = BTreeMap::new();
    let mut evaluations = 0u64;
    let mut distinct = std::collections::BTreeSet::new();
    let mut samples: Vec<String> = vec![];
    let mut max_secs: f64 = 0.0;
    let mut tc_model_checked = 0u64;
    let mut source_sizes = vec![];
    let timeout = Duration::from_secs(if args.thorough() { 90 } else { 60 });
    let real_rustfmt = util::run(std::process::Command::new("rustfmt").arg("--version")).0 == 0;

    // ---- Bindings::write_to_file over a file that already exists: every write replaces the whole file, whatever was there
    //      (a formatter failure after a good run leaves a shorter text than the one on disk)
    {
        let ok_fault = fl.iter().find(|f| f.name == "ok-exit0").unwrap().clone();
        let bad_fault = fl.iter().find(|f| f.name == "exit1").unwrap().clone();
        let ok_path = install(&scratch.0, &ok_fault, 900001);
        let bad_path = install(&scratch.0, &bad_fault, 900002);
        let absent = scratch.path("no_such_formatter");
        let target = scratch.path("out_bindings.rs");
        std::fs::write(&target, "// stale ".repeat(4000)).unwrap();
        let v = &variants_all[1];
        let steps: Vec<(&str, Fm, Option<PathBuf>)> = vec![("rustfmt-ok", Fm::Rustfmt, Some(ok_path.clone())), ("rustfmt-exit1", Fm::Rustfmt, Some(bad_path)), ("rustfmt-ok", Fm::Rustfmt, Some(ok_path.clone())),
            ("rustfmt-absent", Fm::Rustfmt, Some(absent)), ("prettyplease", Fm::Pretty, None), ("none", Fm::None, None), ("rustfmt-ok", Fm::Rustfmt, Some(ok_path)), ("prettyplease", Fm::Pretty, None)];
        for (k, (name, fm, fmt)) in steps.iter().enumerate() {
            let case = format!("write_to_file/step{k}/{name}");
            evaluations += 1;
            *hist.entry("write_to_file-steps".into()).or_insert(0) += 1;
            let (want, _) = run_case(&small, v, *fm, fmt.as_deref(), &cfg, timeout);
            let Observed::Ok(want) = want else { fails.push(Fail { kind: "class", case, detail: format!("write: {}", short(&want)), script: String::new() }); continue };
            let (header, v2, fmt2, cfg2, target2, fm2) = (small.clone(), (*v).clone(), fmt.clone(), cfg.clone(), target.clone(), *fm);
            let r = std::thread::spawn(move || {
                std::panic::catch_unwind(std::panic::AssertUnwindSafe(|| match build(&header, &v2, fm2, fmt2.as_deref(), &cfg2) {
                    Ok(b) => b.write_to_file(&target2).map_err(|e| e.to_string()),
                    Err(e) => Err(e),
                })).unwrap_or_else(|_| Err("panic".into()))
            }).join().unwrap_or_else(|_| Err("panic".into()));
            if let Err(e) = r { fails.push(Fail { kind: "class", case, detail: format!("write_to_file failed: {e}"), script: String::new() }); continue; }
            let got = std::fs::read(&target).unwrap_or_default();
            if got != want {
                fails.push(Fail { kind: "bytes", case, detail: format!("the file holds {} bytes, `write` of the same bindings produces {} bytes; first difference at byte {} (what was in the file before is still there?): tail {:?}",
                    got.len(), want.len(), first_diff(&got, &want), String::from_utf8_lossy(&got[got.len().saturating_sub(60)..])), script: String::new() });
            }
        }
    }

    let wide = scratch.path("wide.h");
    std::fs::write(&wide, "int function_with_a_long_name_0(int argument_number_one, unsigned long argument_number_two, const char *argument_number_three);\n").unwrap();
    for (size_name, header) in [("small", &small), ("wide", &wide), ("medium", &medium), ("large", &large)] {
        // quick: all variants on the small input, two on the large one; thorough: everything
        let variants: Vec<&Variant> = if size_name == "wide" { vec![&variants_all[0]] } else if size_name == "small" || args.thorough() { variants_all.iter().collect() } else { vec![&variants_all[1], &variants_all[3]] };
        for (vi, v) in variants.iter().enumerate() {
            // the unformatted text (Formatter::None) is the reference for `fallback`
            let (none_obs, _) = run_case(header, v, Fm::None, None, &cfg, timeout);
            let none_bytes = match none_obs {
                Observed::Ok(b) => b,
                o => {
                    fails.push(Fail { kind: "class", case: format!("{size_name}/v{vi}/formatter=none"), detail: format!("write with Formatter::None: {:?}", short(&o)), script: String::new() });
                    continue;
                }
            };
            // model: formatter none
            let mut reqs = vec![request(Fm::None, "o=spawn utf8=1 st=code:0", v, &version)];
            let scripts: Vec<(usize, &Fault)> = fl.iter().enumerate().filter(|(_, f)| size_name != "wide" && (!f.large_only || size_name == "large" || size_name == "medium")).collect();
            for (_, f) in &scripts {
                reqs.push(request(Fm::Rustfmt, f.outcome, v, &version));
            }
            reqs.push(request(Fm::Pretty, "o=spawn utf8=1 st=code:0", v, &version));
            let answers = util::model(&reqs);
            if answers.len() != reqs.len() {
                fails.push(Fail { kind: "model", case: format!("{size_name}/v{vi}"), detail: format!("bgmodel answered {} of {}", answers.len(), reqs.len()), script: String::new() });
                continue;
            }
            // prefix and source from the model's prediction for formatter none
            let (_, tmpl_none) = match parse_answer(&answers[0]) {
                Some(x) => x,
                None => {
                    fails.push(Fail { kind: "model", case: format!("{size_name}/v{vi}"), detail: format!("bad answer {}", answers[0]), script: String::new() });
                    continue;
                }
            };
            let prefix = tmpl_none.replace("@SRC@", "");
            evaluations += 1;
            if !none_bytes.starts_with(prefix.as_bytes()) {
                fails.push(Fail { kind: "prefix", case: format!("{size_name}/v{vi}/formatter=none"), detail: format!("output does not start with the model's prefix {:?}; starts with {:?}", prefix, String::from_utf8_lossy(&none_bytes[..none_bytes.len().min(200)])), script: String::new() });
                continue;
            }
            let source: Vec<u8> = none_bytes[prefix.len()..].to_vec();
            source_sizes.push((size_name, source.len()));
            *hist.entry(format!("source-bytes:{}", if source.len() > 1_000_000 { ">1MB" } else { "<1MB" })).or_insert(0) += 1;
            let source_str = String::from_utf8_lossy(&source).into_owned();
            // the prefix must not reappear in the body (exactly once)
            if v.header_comment && count_occ(&String::from_utf8_lossy(&none_bytes), "automatically generated by rust-bindgen") != 1 {
                fails.push(Fail { kind: "prefix", case: format!("{size_name}/v{vi}/formatter=none"), detail: "header comment not exactly once".into(), script: String::new() });
            }
            // ---- rustfmt with scripted formatters
            for (k, (fi, f)) in scripts.iter().enumerate() {
                let path = install(&scratch.0, f, *fi * 100 + vi * 10 + if size_name == "large" { 1 } else if size_name == "medium" { 2 } else { 0 });
                let case = format!("{size_name}/v{vi}/{}", f.name);
                let (obs, secs) = run_case(header, v, Fm::Rustfmt, Some(&path), &cfg, timeout);
                max_secs = max_secs.max(secs);
                evaluations += 1;
                distinct.insert(format!("{}|{}|hdr={}|raw={}|cfg={}", f.name, size_name, v.header_comment, v.raw_lines.len(), v.config_file));
                *hist.entry(format!("fault:{}", f.name)).or_insert(0) += 1;
                let (class, tmpl) = match parse_answer(&answers[1 + k]) {
                    Some(x) => x,
                    None => {
                        fails.push(Fail { kind: "model", case, detail: format!("bad answer {}", answers[1 + k]), script: f.script.clone() });
                        continue;
                    }
                };
                *hist.entry(format!("predicted:{class}")).or_insert(0) += 1;
                let child_out: Vec<u8> = match &f.stdout {
                    Stdout::MarkThenSource => [MARK.as_bytes(), &source[..]].concat(),
                    Stdout::Fixed(s) => s.as_bytes().to_vec(),
                    Stdout::Irrelevant => b"<stdout must not be used>".to_vec(),
                };
                // the property's own expectation, independent of the model: a fault must fall back to
                // the unformatted bytes; success / partial success yields prefix + the child's stdout
                let oracle_expected: Vec<u8> = match f.stdout {
                    Stdout::Irrelevant => none_bytes.clone(),
                    _ => [prefix.as_bytes(), &child_out[..]].concat(),
                };
                let model_expected = subst(&tmpl, &source, &child_out);
                let model_agrees_with_property = model_expected == oracle_expected && (class == "fallback") == matches!(f.stdout, Stdout::Irrelevant);
                if !model_agrees_with_property {
                    fails.push(Fail { kind: "model", case: case.clone(), detail: format!("the model predicts `{class}` ({} bytes) but the property demands {} ({} bytes)", model_expected.len(), if matches!(f.stdout, Stdout::Irrelevant) { "fallback" } else { "formatted" }, oracle_expected.len()), script: f.script.clone() });
                }
                match &obs {
                    Observed::Ok(bytes) => {
                        let obs_class = if *bytes == none_bytes { "fallback" } else { "formatted" };
                        *hist.entry(format!("observed:{obs_class}")).or_insert(0) += 1;
                        if *bytes != oracle_expected {
                            let want_class = if matches!(f.stdout, Stdout::Irrelevant) { "fallback" } else { "formatted" };
                            let kind = if obs_class != want_class { "class" } else { "bytes" };
                            fails.push(Fail { kind, case: case.clone(), detail: format!("expected {want_class} ({} bytes), observed {obs_class} ({} bytes); first difference at byte {}; observed starts {:?}", oracle_expected.len(), bytes.len(), first_diff(bytes, &oracle_expected), String::from_utf8_lossy(&bytes[..bytes.len().min(160)])), script: f.script.clone() });
                        }
                        if *bytes != model_expected && model_agrees_with_property {
                            fails.push(Fail { kind: "model", case: case.clone(), detail: format!("implementation differs from the model's prediction `{class}` at byte {}", first_diff(bytes, &model_expected)), script: f.script.clone() });
                        }
                        if *bytes == oracle_expected && want_tokens_check(size_name) && matches!(f.stdout, Stdout::Irrelevant) {
                            // token-identical: same bytes as the unformatted text, hence same tokens
                            if tokens(&String::from_utf8_lossy(bytes)) != tokens(&String::from_utf8_lossy(&none_bytes)) {
                                fails.push(Fail { kind: "tokens", case: case.clone(), detail: "fallback text tokenises differently".into(), script: f.script.clone() });
                            }
                        }
                    }
                    o => {
                        *hist.entry(format!("observed:{}", match o { Observed::Error(_) => "error", Observed::Panic(_) => "panic", Observed::Setup(_) => "setup", _ => "hang" })).or_insert(0) += 1;
                        fails.push(Fail { kind: "class", case: case.clone(), detail: format!("write must succeed; observed {:?} after {secs:.1}s (model: {class})", short(o)), script: f.script.clone() });
                    }
                }
                // arguments the child was started with
                if f.kind == PathKind::Script {
                    let argf = PathBuf::from(format!("{}.args", path.display()));
                    let got = std::fs::read_to_string(&argf).unwrap_or_default();
                    let got: Vec<&str> = got.lines().collect();
                    let mut want: Vec<String> = vec![];
                    if v.config_file {
                        want.push("--config-path".into());
                        want.push(cfg.to_string_lossy().into_owned());
                    }
                    want.push("--edition".into());
                    let ok = got.len() == want.len() + 1 && got[..want.len()].iter().zip(want.iter()).all(|(a, b)| a == b) && ["2015", "2018", "2021", "2024"].contains(&got[want.len()]);
                    if !ok {
                        fails.push(Fail { kind: "args", case: case.clone(), detail: format!("formatter arguments {got:?}, expected {want:?} <edition>"), script: f.script.clone() });
                    }
                }
                if samples.len() < 4 && (k % 7 == 1) {
                    samples.push(format!("{{\"case\":{},\"request\":{},\"predicted\":{},\"observed\":{},\"seconds\":{:.2}}}", json_str(&case), json_str(&reqs[1 + k]), json_str(&class), json_str(&format!("{:?}", short(&obs))), secs));
                }
                let _ = std::fs::remove_file(&path);
            }
            // ---- the three formatter settings: same tokens, prefix once and in order
            let mut texts: Vec<(&str, String)> = vec![("none", String::from_utf8_lossy(&none_bytes).into_owned())];
            let rf_path: Option<PathBuf> = if real_rustfmt { None } else { Some(install(&scratch.0, &Fault { name: "cat", kind: PathKind::Script, script: "cat; exit 0".into(), outcome: "", stdout: Stdout::Irrelevant, large_only: false }, 9000 + vi)) };
            for (name, fm) in [("rustfmt", Fm::Rustfmt), ("prettyplease", Fm::Pretty)] {
                let (obs, secs) = run_case(header, v, fm, if fm == Fm::Rustfmt { rf_path.as_deref() } else { None }, &cfg, Duration::from_secs(300));
                max_secs = max_secs.max(secs);
                evaluations += 1;
                distinct.insert(format!("three-formatters|{name}|{size_name}|v{vi}"));
                match obs {
                    Observed::Ok(bytes) => match String::from_utf8(bytes) {
                        Ok(t) => texts.push((name, t)),
                        Err(_) => fails.push(Fail { kind: "bytes", case: format!("{size_name}/v{vi}/{name}"), detail: "output is not UTF-8".into(), script: String::new() }),
                    },
                    o => fails.push(Fail { kind: "class", case: format!("{size_name}/v{vi}/{name}"), detail: format!("{:?} after {secs:.1}s", short(&o)), script: String::new() }),
                }
            }
            let want_flat = flat_tokens(&source_str);
            for (name, t) in &texts {
                let case = format!("{size_name}/v{vi}/formatter={name}");
                // prefix: exactly once, in order, at the start
                if !t.starts_with(&prefix) {
                    fails.push(Fail { kind: "prefix", case: case.clone(), detail: format!("does not start with {:?}: {:?}", prefix, &t[..t.len().min(200)]), script: String::new() });
                    continue;
                }
                if v.header_comment && count_occ(t, "/* automatically generated by rust-bindgen") != 1 {
                    fails.push(Fail { kind: "prefix", case: case.clone(), detail: "header comment not exactly once".into(), script: String::new() });
                }
                let mut at = 0;
                for l in &v.raw_lines {
                    if count_occ(t, l) != 1 {
                        fails.push(Fail { kind: "prefix", case: case.clone(), detail: format!("raw line {l:?} occurs {} times", count_occ(t, l)), script: String::new() });
                    }
                    match t[at..].find(l.as_str()) {
                        Some(p) => at += p + l.len(),
                        None => fails.push(Fail { kind: "prefix", case: case.clone(), detail: format!("raw line {l:?} out of order"), script: String::new() }),
                    }
                }
                // body tokens
                let body = &t[prefix.len()..];
                match (flat_tokens(body), &want_flat) {
                    (Ok(got), Ok(want)) => {
                        if got != *want {
                            let in_region = region_trailing_comma(want, &got);
                            let i = got.iter().zip(want.iter()).position(|(x, y)| x != y).unwrap_or(0);
                            let ctx = |v: &Vec<String>| v[i.saturating_sub(6)..(i + 3).min(v.len())].join(" ");
                            let mut detail = format!("token sequences differ ({} vs {} tokens); first difference at token {i}: unformatted `{}` / formatted `{}`", want.len(), got.len(), ctx(want), ctx(&got));
                            let mut kind = if in_region { "tokens-trailing-comma" } else { "tokens" };
                            if want.len() + got.len() < 4000 {
                                // small enough for the Lean driver: the two region predicates must agree
                                let a = model_tc(want, &got);
                                let expect = format!("equal=0 region={}", in_region as u8);
                                if a != expect {
                                    kind = "model";
                                    detail = format!("region predicate: lean `{a}` vs harness `{expect}`; {detail}");
                                }
                                tc_model_checked += 1;
                            }
                            fails.push(Fail { kind, case: case.clone(), detail, script: String::new() });
                        }
                    }
                    (a, b) => fails.push(Fail { kind: "tokens", case: case.clone(), detail: format!("tokenisation failed: {:?} / {:?}", a.err(), b.as_ref().err()), script: String::new() }),
                }
                *hist.entry(format!("three-formatters:{name}")).or_insert(0) += 1;
            }
            if texts.len() == 3 && texts[0].1 == texts[2].1 {
                fails.push(Fail { kind: "setup", case: format!("{size_name}/v{vi}"), detail: "prettyplease output identical to unformatted output (comparison would be vacuous)".into(), script: String::new() });
            }
        }
    }
    // RUSTFMT environment variable instead of with_rustfmt (sequential; nothing else runs now)
    {
        let f = &fl[5];
        let path = install(&scratch.0, f, 7777);
        std::env::set_var("RUSTFMT", &path);
        let v = &variants_all[0];
        {
            let (o, _) = run_case(&small, v, Fm::Rustfmt, None, &cfg, timeout);
            let (n, _) = run_case(&small, v, Fm::None, None, &cfg, timeout);
            evaluations += 1;
            distinct.insert("env-RUSTFMT|exit1".to_owned());
            let used = PathBuf::from(format!("{}.args", path.display())).exists();
            if o != n || !used {
                fails.push(Fail { kind: "class", case: "small/v0/env-RUSTFMT-exit1".into(), detail: format!("expected fallback through $RUSTFMT (script used: {used}); observed {:?}", short(&o)), script: f.script.clone() });
            }
        }
        std::env::remove_var("RUSTFMT");
    }
    let report = format!(
        "{{\"evaluations\":{},\"tc_model_checked\":{},\"distinct_nontrivial\":{},\"faults\":{},\"real_rustfmt\":{},\"max_write_seconds\":{:.2},\"source_sizes\":[{}],\"failures\":[{}],\"samples\":[{}],\"distribution\":{{{}}}}}",
        evaluations,
        tc_model_checked,
        distinct.len(),
        fl.len(),
        real_rustfmt,
        max_secs,
        source_sizes.iter().map(|(n, s)| format!("{{\"input\":{},\"bytes\":{}}}", json_str(n), s)).collect::<Vec<_>>().join(","),
        fails.iter().map(|f| format!("{{\"kind\":{},\"case\":{},\"detail\":{},\"script\":{}}}", json_str(f.kind), json_str(&f.case), json_str(&f.detail), json_str(&f.script))).collect::<Vec<_>>().join(","),
        samples.join(","),
        hist.iter().map(|(k, v)| format!("{}:{}", json_str(k), v)).collect::<Vec<_>>().join(",")
    );
    util::write(&args.out.join("report.json"), &report);
    println!("c15: evaluations={} distinct={} failures={} max_write_seconds={:.1}", evaluations, distinct.len(), fails.len(), max_secs);
    // threads of hung writes (if any) must not keep the process alive; `exit` skips destructors, so
    // remove the scratch directory by hand
    let _ = std::fs::remove_dir_all(&scratch.0);
    std::process::exit(0);
}

fn want_tokens_check(size: &str) -> bool {
    size == "small"
}

fn first_diff(a: &[u8], b: &[u8]) -> usize {
    a.iter().zip(b.iter()).position(|(x, y)| x != y).unwrap_or(a.len().min(b.len()))
}

fn short(o: &Observed) -> String {
    match o {
        Observed::Ok(b) => format!("Ok({} bytes)", b.len()),
        Observed::Error(e) => format!("Error({e})"),
        Observed::Panic(p) => format!("Panic({p})"),
        Observed::Hang => "Hang".into(),
        Observed::Setup(e) => format!("Setup({e})"),
    }
}
