//! C14 correspondence + oracle driver.
//!  A. hook grid: `bindgen::verif::rust_features(target, edition)` vs the model (`feat parse dbg`)
//!  B. CLI matrix on the trigger header: (minor earliest..=top, nightly) x (no edition, every edition)
//!     x option sets; token scan vs `feat resolve`; ground-truth oracle `feat oracle`; rustc on the output
//!  C. CLI panic probes around the `-nightly` decrement
//!  D. (thorough) repository headers at 6 targets, ground-truth oracle only
use bgverif::drive::{cli, Scratch};
use bgverif::rng::Rng;
use bgverif::scan::scan;
use bgverif::util::{json_str, model, repo_headers, write, Args};
use std::collections::{BTreeMap, BTreeSet};
use std::sync::atomic::{AtomicUsize, Ordering};
use std::sync::Mutex;

const HEADER: &str = r#"#define STR "hello"
#define STRNUL "a\0b"
extern int gvar;
extern const int cvar;
int f_plain(int a, char b, unsigned long c);
void f_unwind(void);
void f_efi(void);
void f_this(int);
void f_vec(float);
typedef void (*cb_t)(int);
struct fields { char c; short s; long l; const char *p; cb_t cb; };
struct fam { int n; short d[]; };
unsigned long long f_ull(struct fields *x, struct fam *y);
"#;

fn hex(s: &str) -> String {
    if s.is_empty() { "-".into() } else { s.bytes().map(|b| format!("{b:02x}")).collect() }
}

fn err_kind(msg: &str) -> &'static str {
    if msg.contains("accepted values are of the form") { "form" }
    else if msg.contains("largest major version") { "major" }
    else if msg.contains("the minor version number must be") { "minor" }
    else if msg.contains("the patch version number must be") { "patch" }
    else if msg.contains("earliest Rust version supported") { "tooearly" }
    else { "other" }
}

/// `available=true RustFeatures { a: true, .. }` -> `available=1 a=1 ..`
fn canon_hook(s: &str) -> String {
    let (av, rest) = s.split_once(' ').unwrap_or((s, ""));
    let av = if av.ends_with("true") { "available=1" } else { "available=0" };
    let inner = rest.trim_start_matches("RustFeatures {").trim_end_matches('}');
    let flags: Vec<String> = inner.split(',').map(|kv| kv.trim()).filter(|kv| !kv.is_empty()).map(|kv| {
        let (k, v) = kv.split_once(':').unwrap();
        format!("{}={}", k.trim(), if v.trim() == "true" { 1 } else { 0 })
    }).collect();
    format!("ok {av} {}", flags.join(" "))
}

fn strip_target(s: &str) -> String {
    s.split(' ').filter(|t| !t.starts_with("target=")).collect::<Vec<_>>().join(" ")
}

/// harness-side implementation of `regionNightlyMinorZero` (Model/FeaturesSpec.lean):
/// `1.<[+]0+>[.<u64>]-nightly`
fn region_nightly_minor_zero(s: &str) -> bool {
    let Some((v, pre)) = s.split_once('-') else { return false };
    if pre != "nightly" { return false; }
    let Some((major, tail)) = v.split_once('.') else { return false };
    if major != "1" { return false; }
    let (m, p) = match tail.split_once('.') { Some((m, p)) => (m, Some(p)), None => (tail, None) };
    let Ok(m) = m.parse::<u64>() else { return false };
    if let Some(p) = p { if p.parse::<u64>().is_err() { return false; } }
    m == 0
}

/// harness-side implementation of `regionCoreCStr`
fn region_core_cstr(minor: Option<u64>, opts: &str) -> bool {
    opts.contains('u') && opts.contains('c') && matches!(minor, Some(m) if (59..64).contains(&m))
}

fn opt_flags(opts: &str) -> Vec<String> {
    let mut v: Vec<&str> = vec![];
    if opts.contains('u') { v.push("--use-core"); }
    if opts.contains('c') { v.push("--generate-cstr"); }
    if opts.contains('f') { v.push("--flexarray-dst"); }
    if opts.contains('a') {
        v.extend(["--override-abi", "f_unwind=C-unwind", "--override-abi", "f_efi=efiapi",
                  "--override-abi", "f_this=thiscall", "--override-abi", "f_vec=vectorcall"]);
    }
    v.into_iter().map(String::from).collect()
}

#[derive(Clone)]
struct Case { minor: Option<u64>, edition: Option<u32>, opts: String }
impl Case {
    fn t_model(&self) -> String { self.minor.map_or("nightly".into(), |m| format!("stable:{m}:0")) }
    fn t_cli(&self) -> String { self.minor.map_or("nightly".into(), |m| format!("1.{m}")) }
    fn e_model(&self) -> String { self.edition.map_or("none".into(), |e| e.to_string()) }
    fn describe(&self) -> String { format!("--rust-target {} {} opts=[{}]", self.t_cli(), self.edition.map_or("(no --rust-edition)".into(), |e| format!("--rust-edition {e}")), opt_flags(&self.opts).join(" ")) }
}

struct CliOut { rc: i32, stdout: String, stderr: String }

fn par_map<T: Sync, R: Send>(items: &[T], threads: usize, f: impl Fn(&T) -> R + Sync) -> Vec<R> {
    let next = AtomicUsize::new(0);
    let out: Mutex<Vec<(usize, R)>> = Mutex::new(Vec::with_capacity(items.len()));
    std::thread::scope(|s| {
        for _ in 0..threads {
            s.spawn(|| loop {
                let i = next.fetch_add(1, Ordering::SeqCst);
                if i >= items.len() { break; }
                let r = f(&items[i]);
                out.lock().unwrap().push((i, r));
            });
        }
    });
    let mut v = out.into_inner().unwrap();
    v.sort_by_key(|x| x.0);
    v.into_iter().map(|x| x.1).collect()
}

fn kvget<'a>(line: &'a str, key: &str) -> Option<&'a str> {
    line.split(' ').find_map(|t| t.strip_prefix(key).and_then(|r| r.strip_prefix('=')))
}

fn main() {
    let args = Args::parse();
    bgverif::drive::quiet_panics();
    let thorough = args.thorough();
    let mut rng = Rng::new(args.seed);
    let scratch = Scratch::new("c14");
    let threads = std::thread::available_parallelism().map(|n| n.get()).unwrap_or(4).min(16);

    let mut corr: Vec<String> = vec![];      // model-vs-implementation disagreements (JSON objects)
    let mut oracle: Vec<String> = vec![];    // implementation-vs-oracle failures
    let mut known: BTreeMap<&'static str, usize> = BTreeMap::new();
    let mut known_samples: Vec<String> = vec![];
    let mut samples: Vec<String> = vec![];
    let mut distinct: BTreeSet<String> = BTreeSet::new();

    // ---- model constants
    let misc = model(&["feat misc".to_string()]).remove(0);
    let parse_minor = |s: &str| s.split(':').nth(1).and_then(|m| m.parse::<u64>().ok());
    let latest = kvget(&misc, "latest").and_then(parse_minor).expect("feat misc: latest");
    let earliest = kvget(&misc, "earliest").and_then(parse_minor).expect("feat misc: earliest");
    let editions: Vec<(u32, u64)> = kvget(&misc, "editions").unwrap_or("").split(',').filter_map(|e| {
        let (y, m) = e.split_once(':')?; Some((y.parse().ok()?, m.parse().ok()?))
    }).collect();
    let top = (latest + 2).max(editions.iter().map(|e| e.1 + 1).max().unwrap_or(0));

    // ---- A. hook grid
    let mut reqs = vec![];
    let mut impls = vec![];
    let mut tstrings: Vec<String> = vec!["nightly".into()];
    for m in 0..=latest + 3 {
        tstrings.push(format!("1.{m}"));
        tstrings.push(format!("1.{m}.1"));
        tstrings.push(format!("1.{m}.{}", rng.below(1000)));
        tstrings.push(format!("1.{m}-nightly"));
        tstrings.push(format!("1.{m}.0-beta.{}", rng.below(9)));
    }
    let estrings: Vec<String> = editions.iter().map(|e| e.0.to_string()).chain(["2015".to_string(), "".to_string()]).collect();
    for t in &tstrings {
        for e in &estrings {
            reqs.push(format!("feat parse dbg {} {}", hex(t), hex(e)));
            let (t2, e2) = (t.clone(), e.clone());
            let r = std::panic::catch_unwind(move || bindgen::verif::rust_features(&t2, &e2));
            impls.push(match r {
                Err(_) => "panic".to_string(),
                Ok(Ok(s)) => canon_hook(&s),
                Ok(Err(m)) => if let Some(m) = m.strip_prefix("target: ") { format!("err target:{}", err_kind(m)) } else { "err edition".into() },
            });
        }
    }
    let answers = model(&reqs);
    let hook_cases = reqs.len();
    let mut hook_panics = 0;
    for ((rq, im), mo) in reqs.iter().zip(&impls).zip(&answers) {
        let mo = strip_target(mo);
        if im == "panic" { hook_panics += 1; }
        distinct.insert(format!("hook:{im}"));
        if *im != mo {
            corr.push(format!("{{\"class\":\"hook rust_features vs featuresNew/fromStr\",\"request\":{},\"implementation\":{},\"model\":{}}}", json_str(rq), json_str(im), json_str(&mo)));
        }
    }
    if let Some(i) = impls.iter().position(|s| s.starts_with("ok")) {
        samples.push(format!("{{\"request\":{},\"implementation\":{},\"model\":{}}}", json_str(&reqs[i + 7.min(reqs.len() - i - 1)]), json_str(&impls[i + 7.min(reqs.len() - i - 1)]), json_str(&strip_target(&answers[i + 7.min(reqs.len() - i - 1)]))));
    }

    // ---- B. CLI matrix
    let header = scratch.path("trigger.h");
    std::fs::write(&header, HEADER).unwrap();
    let optsets: Vec<String> = if thorough {
        (0..16u32).map(|b| ["u", "c", "f", "a"].iter().enumerate().filter(|(i, _)| b >> i & 1 == 1).map(|(_, s)| *s).collect::<String>()).collect()
    } else {
        vec!["".into(), "ucfa".into(), "uf".into(), "ca".into(), "uc".into(), "c".into()]
    };
    let mut cases = vec![];
    for minor in (earliest..=top).map(Some).chain([None]) {
        for edition in std::iter::once(None).chain(editions.iter().map(|e| Some(e.0))) {
            for o in &optsets {
                cases.push(Case { minor, edition, opts: o.clone() });
            }
        }
    }
    let run_case = |c: &Case| -> CliOut {
        let mut a: Vec<String> = vec![header.to_string_lossy().into_owned(), "--formatter".into(), "none".into(), "--rust-target".into(), c.t_cli()];
        if let Some(e) = c.edition { a.push("--rust-edition".into()); a.push(e.to_string()); }
        a.extend(opt_flags(&c.opts));
        let (rc, stdout, stderr) = cli(&a, &[], None);
        CliOut { rc, stdout, stderr }
    };
    let outs = par_map(&cases, threads, run_case);
    let mreqs: Vec<String> = cases.iter().map(|c| format!("feat resolve t={} e={} opts={}", c.t_model(), c.e_model(), c.opts)).collect();
    let mans = model(&mreqs);
    let mut accepted = 0usize; let mut rejected = 0usize;
    let mut construct_hist: BTreeMap<String, usize> = BTreeMap::new();
    let mut oracle_reqs = vec![]; let mut oracle_idx = vec![];
    let mut observed: Vec<Option<BTreeSet<String>>> = vec![None; cases.len()];
    let mut resolved_edition: Vec<Option<String>> = vec![None; cases.len()];
    for (i, ((c, o), m)) in cases.iter().zip(&outs).zip(&mans).enumerate() {
        let impl_state = if o.rc == 0 { "ok" } else if o.rc == 101 { "panic" } else if o.stderr.contains("is not available on Rust") { "rejected" } else { "error" };
        let model_state = m.split(' ').next().unwrap_or("");
        if impl_state != model_state {
            corr.push(format!("{{\"class\":\"CLI exit status vs resolve (edition check of Builder::generate)\",\"case\":{},\"implementation\":{},\"model\":{}}}",
                json_str(&c.describe()), json_str(&format!("{impl_state} rc={} {}", o.rc, o.stderr.lines().filter(|l| !l.contains("conda")).last().unwrap_or(""))), json_str(m)));
            // failing-input search, independent of the model: ground truth of Model/FeaturesSpec.lean
            // `editionStabilised` (Rust release history): 2018 -> 1.31, 2021 -> 1.56, 2024 -> 1.85
            if let (Some(minor), Some(ed)) = (c.minor, c.edition) {
                let since = match ed { 2018 => 31, 2021 => 56, 2024 => 85, _ => 0 };
                if impl_state == "ok" && minor < since {
                    oracle.push(format!("{{\"class\":\"unsupported edition/target pair is accepted (edition {ed} needs Rust 1.{since})\",\"case\":{}}}", json_str(&c.describe())));
                }
                if impl_state == "rejected" && minor >= since {
                    oracle.push(format!("{{\"class\":\"supported edition/target pair is rejected\",\"case\":{}}}", json_str(&c.describe())));
                }
            }
            if impl_state == "panic" { oracle.push(format!("{{\"class\":\"CLI panics\",\"case\":{}}}", json_str(&c.describe()))); }
            continue;
        }
        if impl_state == "rejected" { rejected += 1; distinct.insert(format!("rejected:{}:{}", c.t_cli(), c.e_model())); continue; }
        accepted += 1;
        let g = match scan(&o.stdout) {
            Ok(g) => g,
            Err(e) => { oracle.push(format!("{{\"class\":\"output does not tokenise\",\"case\":{},\"error\":{}}}", json_str(&c.describe()), json_str(&e))); continue; }
        };
        let seen: BTreeSet<String> = g.constructs.iter().map(|s| s.to_string()).collect();
        let expect: BTreeSet<String> = kvget(m, "emits").unwrap_or("").split(',').filter(|s| !s.is_empty()).map(String::from).collect();
        for s in &seen { *construct_hist.entry(s.clone()).or_default() += 1; }
        distinct.insert(format!("cli:{}:{}:{}:{}", c.t_cli(), kvget(m, "edition").unwrap_or("?"), c.opts, seen.iter().cloned().collect::<Vec<_>>().join("+")));
        if seen != expect {
            corr.push(format!("{{\"class\":\"token scan vs emits (gate-site decision model)\",\"case\":{},\"implementation\":{},\"model\":{}}}",
                json_str(&c.describe()), json_str(&seen.iter().cloned().collect::<Vec<_>>().join(",")), json_str(&expect.iter().cloned().collect::<Vec<_>>().join(","))));
        }
        // mixed safety of extern blocks would be a gate bug too
        if g.plain_extern_blocks > 0 && g.unsafe_extern_blocks > 0 {
            oracle.push(format!("{{\"class\":\"both plain and unsafe extern blocks in one output\",\"case\":{}}}", json_str(&c.describe())));
        }
        let ed = kvget(m, "edition").unwrap_or("2021").to_string();
        oracle_reqs.push(format!("feat oracle t={} e={} seen={}", c.t_model(), ed, seen.iter().cloned().collect::<Vec<_>>().join(",")));
        oracle_idx.push(i);
        observed[i] = Some(seen);
        resolved_edition[i] = Some(ed);
        if samples.len() < 4 && (i % 997 == 3) {
            samples.push(format!("{{\"case\":{},\"seen\":{},\"model\":{}}}", json_str(&c.describe()), json_str(&observed[i].as_ref().unwrap().iter().cloned().collect::<Vec<_>>().join(",")), json_str(m)));
        }
    }
    let oans = model(&oracle_reqs);
    for (k, a) in oans.iter().enumerate() {
        let i = oracle_idx[k];
        let c = &cases[i];
        if a == "ok" { continue; }
        let bad = a.strip_prefix("bad=").unwrap_or(a);
        let model_region = kvget(&mans[i], "region_cstr") == Some("1");
        let model_predicts = kvget(&mans[i], "emits").unwrap_or("").split(',').any(|s| s == "core_ffi_cstr");
        if bad == "core_ffi_cstr" && region_core_cstr(c.minor, &c.opts) && model_region && model_predicts {
            *known.entry("core_cstr_before_1_64").or_default() += 1;
            if known_samples.len() < 2 { known_samples.push(format!("{{\"finding\":\"core_cstr_before_1_64\",\"case\":{},\"seen\":{}}}", json_str(&c.describe()), json_str(bad))); }
        } else {
            oracle.push(format!("{{\"class\":\"construct newer than the target in CLI output (stabilisation table)\",\"case\":{},\"header\":\"trigger\",\"newer\":{},\"model_region_cstr\":{},\"harness_region_cstr\":{}}}",
                json_str(&c.describe()), json_str(bad), model_region, region_core_cstr(c.minor, &c.opts)));
        }
    }
    // rustc on accepted outputs that contain nothing nightly-only / target-specific
    let rustc_items: Vec<usize> = (0..cases.len()).filter(|&i| {
        observed[i].as_ref().map_or(false, |s| !cases[i].opts.contains('a') && !s.iter().any(|c| matches!(c.as_str(), "ptr_metadata" | "layout_for_ptr" | "abi_vectorcall" | "abi_thiscall")))
    }).collect();
    let rustc_res = par_map(&rustc_items, threads.min(8), |&i| {
        let s = Scratch::new("c14rs");
        bgverif::drive::rustc_check_lib(&s, "b", &outs[i].stdout, resolved_edition[i].as_deref().unwrap_or("2021"))
    });
    let rustc_runs = rustc_items.len();
    for (k, r) in rustc_res.iter().enumerate() {
        if let Err(e) = r {
            let c = &cases[rustc_items[k]];
            let first = e.lines().filter(|l| l.starts_with("error")).next().unwrap_or("").to_string();
            oracle.push(format!("{{\"class\":\"rustc rejects the bindings in the selected edition\",\"case\":{},\"edition\":{},\"rustc\":{}}}",
                json_str(&c.describe()), json_str(resolved_edition[rustc_items[k]].as_deref().unwrap_or("")), json_str(&first)));
        }
    }

    // ---- C. CLI probes around the `-nightly` decrement
    let probes = ["1.0-nightly", "1.00.5-nightly", "1.+0-nightly", "1.1-nightly", "1.0-beta", "1.0", &format!("1.{}-nightly", earliest), &format!("1.{}-nightly", earliest + 1)];
    let preqs: Vec<String> = probes.iter().map(|p| format!("feat parse dbg {} {}", hex(p), hex("2018"))).collect();
    let pans = model(&preqs);
    let rreqs: Vec<String> = probes.iter().map(|p| format!("feat region_nightly {}", hex(p))).collect();
    let rans = model(&rreqs);
    for ((p, m), r) in probes.iter().zip(&pans).zip(&rans) {
        let a: Vec<String> = vec![header.to_string_lossy().into_owned(), "--rust-target".into(), p.to_string(), "--rust-edition".into(), "2018".into()];
        let (rc, _o, e) = cli(&a, &[], None);
        let im = if rc == 101 { "panic" } else if rc == 0 { "ok" } else if rc == 2 { "err" } else { "other" };
        let mo = m.split(' ').next().unwrap_or("");
        let hreg = region_nightly_minor_zero(p);
        if (r == "1") != hreg {
            corr.push(format!("{{\"class\":\"region predicate regionNightlyMinorZero: Lean vs harness\",\"input\":{},\"lean\":{},\"harness\":{}}}", json_str(p), json_str(r), hreg));
        }
        if im != mo {
            corr.push(format!("{{\"class\":\"CLI --rust-target parse vs fromStr\",\"input\":{},\"implementation\":{},\"model\":{}}}", json_str(p), json_str(&format!("{im} rc={rc}")), json_str(m)));
        } else if im == "panic" {
            if hreg && r == "1" && e.contains("attempt to subtract with overflow") {
                *known.entry("rust_target_nightly_underflow").or_default() += 1;
                if known_samples.len() < 4 { known_samples.push(format!("{{\"finding\":\"rust_target_nightly_underflow\",\"input\":{},\"cli_rc\":{rc}}}", json_str(&format!("--rust-target {p}")))); }
            } else {
                oracle.push(format!("{{\"class\":\"CLI panics while parsing --rust-target\",\"input\":{},\"stderr\":{}}}", json_str(p), json_str(e.lines().filter(|l| l.contains("panicked") || l.contains("overflow")).collect::<Vec<_>>().join(" | ").as_str())));
            }
        }
        distinct.insert(format!("probe:{p}:{im}"));
    }

    // ---- D. repository headers at 6 targets (ground-truth oracle only)
    let mut repo_runs = 0usize; let mut repo_ok = 0usize;
    if thorough {
        let targets: Vec<Option<u64>> = vec![Some(earliest), Some(64), Some(73), Some(77), Some(latest), None];
        let mut items = vec![];
        for (p, flags) in repo_headers() {
            // drop the header's own target / edition selection
            let mut f = vec![]; let mut pre = vec![]; let mut seen_dd = false; let mut skip = false;
            for (k, x) in flags.iter().enumerate() {
                if skip { skip = false; continue; }
                if !seen_dd && (x == "--rust-target" || x == "--rust-edition") { skip = k + 1 < flags.len(); continue; }
                if !seen_dd && (x.starts_with("--rust-target=") || x.starts_with("--rust-edition=")) { continue; }
                if x == "--" { seen_dd = true; }
                if seen_dd { f.push(x.clone()); } else { pre.push(x.clone()); }
            }
            if pre.iter().any(|x| x == "--ctypes-prefix" || x.starts_with("--ctypes-prefix=")) { /* prefix decides the path, still scanned */ }
            for t in &targets {
                items.push((p.clone(), pre.clone(), f.clone(), *t));
            }
        }
        let res = par_map(&items, threads, |(p, pre, post, t)| {
            let mut a: Vec<String> = vec![p.to_string_lossy().into_owned(), "--formatter".into(), "none".into(), "--rust-target".into(), t.map_or("nightly".into(), |m| format!("1.{m}"))];
            a.extend(pre.iter().cloned());
            if post.is_empty() { a.push("--".into()); } else { a.extend(post.iter().cloned()); }
            a.push("-I/repo/bindgen-tests/tests/headers".into());
            let (rc, out, _e) = cli(&a, &[], Some(std::path::Path::new("/repo/bindgen-tests/tests/headers")));
            if rc != 0 { return (rc, None); }
            (rc, scan(&out).ok().map(|g| g.constructs.iter().map(|s| s.to_string()).collect::<Vec<_>>()))
        });
        let mut oreq = vec![]; let mut oidx = vec![];
        for (k, (rc, seen)) in res.iter().enumerate() {
            repo_runs += 1;
            if *rc == 101 {
                // a panic is C12's business; recorded, not a C14 failure
                continue;
            }
            if let Some(seen) = seen {
                repo_ok += 1;
                let t = items[k].3;
                let tm = t.map_or("nightly".to_string(), |m| format!("stable:{m}:0"));
                // resolved edition = latest edition of the target
                oreq.push((format!("feat latest_edition t={tm}"), tm, seen.join(",")));
                oidx.push(k);
            }
        }
        let eds = model(&oreq.iter().map(|x| x.0.clone()).collect::<Vec<_>>());
        let oreq2: Vec<String> = oreq.iter().zip(&eds).map(|(x, e)| format!("feat oracle t={} e={} seen={}", x.1, e, x.2)).collect();
        let oans = model(&oreq2);
        for (k, a) in oans.iter().enumerate() {
            if a != "ok" {
                let it = &items[oidx[k]];
                let bad = a.strip_prefix("bad=").unwrap_or(a);
                let opts: String = [("--use-core", 'u'), ("--generate-cstr", 'c')].iter().filter(|(f, _)| it.1.iter().any(|x| x == f)).map(|(_, c)| *c).collect();
                if bad == "core_ffi_cstr" && region_core_cstr(it.3, &opts) {
                    *known.entry("core_cstr_before_1_64").or_default() += 1;
                } else {
                    oracle.push(format!("{{\"class\":\"construct newer than the target in CLI output (stabilisation table)\",\"header\":{},\"flags\":{},\"target\":{},\"newer\":{}}}",
                        json_str(&it.0.to_string_lossy()), json_str(&it.1.join(" ")), json_str(&it.3.map_or("nightly".into(), |m| format!("1.{m}"))), json_str(bad)));
                }
            }
            distinct.insert(format!("repo:{}:{}", items[oidx[k]].0.file_name().unwrap().to_string_lossy(), oreq[k].1));
        }
    }

    // ---- E. library API: the order in which target and edition are set must not matter (the CLI always applies the target first).
    //      Model-free oracle on the tokens: a `c"…"` literal needs edition 2021; `unsafe extern` needs 1.82; `offset_of!` 1.77.
    let mut api_runs = 0u64;
    {
        let dir = std::env::temp_dir().join(format!("bgverif_c14_api_{}", std::process::id()));
        let _ = std::fs::create_dir_all(&dir);
        let h = dir.join("api.h");
        write(&h, "#define C14_GREETING \"hello\"\nstruct c14_s { int a; char b; };\nint c14_f(struct c14_s *s);\n");
        let targets: Vec<(u64, bindgen::RustTarget)> = [60u64, 70, 76, 77, 81, 82, 85].iter().filter_map(|m| bindgen::RustTarget::stable(*m, 0).ok().map(|t| (*m, t))).collect();
        for (minor, target) in &targets {
            for (ename, edition) in [("2018", bindgen::RustEdition::Edition2018), ("2021", bindgen::RustEdition::Edition2021)] {
                for edition_first in [false, true] {
                    let (t, e, hp) = (*target, edition, h.clone());
                    let r = std::panic::catch_unwind(move || {
                        let b = bindgen::Builder::default().header(hp.to_string_lossy()).generate_cstr(true);
                        let b = if edition_first { b.rust_edition(e).rust_target(t) } else { b.rust_target(t).rust_edition(e) };
                        b.generate().map(|x| x.to_string()).map_err(|e| e.to_string())
                    });
                    api_runs += 1;
                    let case = format!("Builder::{} minor=1.{minor} edition={ename}", if edition_first { "rust_edition(..).rust_target(..)" } else { "rust_target(..).rust_edition(..)" });
                    match r {
                        Err(_) => oracle.push(format!("{{\"class\":\"library API panics\",\"case\":{}}}", json_str(&case))),
                        Ok(Err(_)) => {} // an unsupported pair is refused: judged by part B
                        Ok(Ok(text)) => {
                            let toks: String = text.split_whitespace().collect::<Vec<_>>().join(" ");
                            let mut newer = vec![];
                            if toks.contains("c\"hello\"") && ename == "2018" { newer.push("C string literal under edition 2018"); }
                            if toks.contains("c\"hello\"") && *minor < 77 { newer.push("C string literal before 1.77"); }
                            if toks.contains("unsafe extern") && *minor < 82 { newer.push("unsafe extern before 1.82"); }
                            if toks.contains("offset_of !") || toks.contains("offset_of!") { if *minor < 77 { newer.push("offset_of! before 1.77"); } }
                            if !newer.is_empty() { oracle.push(format!("{{\"class\":\"construct newer than the target / edition in library output\",\"case\":{},\"newer\":{}}}", json_str(&case), json_str(&newer.join("; ")))); }
                            distinct.insert(format!("api:{minor}:{ename}:{edition_first}"));
                        }
                    }
                }
            }
        }
        let _ = std::fs::remove_dir_all(&dir);
    }

    let evaluations = hook_cases + cases.len() + probes.len() + rustc_runs + repo_runs + api_runs as usize;
    let mut j = String::from("{\n");
    j += &format!(" \"tier\": {}, \"seed\": {},\n", json_str(&args.tier), args.seed);
    j += &format!(" \"latest\": {latest}, \"earliest\": {earliest}, \"top_minor\": {top},\n");
    j += &format!(" \"hook_cases\": {hook_cases}, \"hook_panics\": {hook_panics},\n");
    j += &format!(" \"cli_cases\": {}, \"cli_accepted\": {accepted}, \"cli_rejected\": {rejected}, \"option_sets\": {}, \"rustc_runs\": {rustc_runs},\n", cases.len(), json_str(&optsets.join("|")));
    j += &format!(" \"repo_runs\": {repo_runs}, \"repo_scanned\": {repo_ok},\n");
    j += &format!(" \"evaluations\": {evaluations}, \"distinct\": {},\n", distinct.len());
    j += &format!(" \"construct_histogram\": {{{}}},\n", construct_hist.iter().map(|(k, v)| format!("{}: {v}", json_str(k))).collect::<Vec<_>>().join(", "));
    j += &format!(" \"known\": {{{}}},\n", known.iter().map(|(k, v)| format!("{}: {v}", json_str(k))).collect::<Vec<_>>().join(", "));
    j += &format!(" \"known_samples\": [{}],\n", known_samples.join(", "));
    j += &format!(" \"samples\": [{}],\n", samples.join(", "));
    j += &format!(" \"correspondence_mismatches\": [{}],\n", corr.iter().take(20).cloned().collect::<Vec<_>>().join(",\n  "));
    j += &format!(" \"correspondence_mismatch_count\": {},\n", corr.len());
    j += &format!(" \"oracle_failures\": [{}],\n", oracle.iter().take(20).cloned().collect::<Vec<_>>().join(",\n  "));
    j += &format!(" \"oracle_failure_count\": {}\n}}\n", oracle.len());
    write(&args.out.join("report.json"), &j);
    println!("c14: hook={hook_cases} cli={} accepted={accepted} rejected={rejected} rustc={rustc_runs} repo={repo_runs} corr={} oracle={} known={:?}", cases.len(), corr.len(), oracle.len(), known);
}
