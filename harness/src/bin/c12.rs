//! C12 — generation always ends with bindings or an error value, never a panic.
//!
//! Part A (model vs implementation, function level): `RustTarget::from_str` on generated target
//! strings, input-path triage on real file-system faults, the edition check on every
//! (edition, minor) pair.
//! Part B (failing-input search / supporting exploration): token- and line-level mutants of the
//! repository headers and of generated programs, classified by `clang -fsyntax-only` with the
//! same flags (accepted => Ok, rejected => Err(ClangDiagnostic)); deep nesting to depth 200;
//! option sets from the whole flag space (minus the two callback-requiring options) through the
//! CLI under a timeout.  In-process runs happen in WORKER child processes of this binary (under
//! catch_unwind) so that a stack overflow / abort / hang kills a worker, not the harness.
use bgverif::cgen;
use bgverif::drive::{self, Scratch};
use bgverif::rng::Rng;
use bgverif::util::{self, json_str, Args};
use std::collections::BTreeMap;
use std::io::{BufRead, BufReader, Write};
use std::path::{Path, PathBuf};
use std::process::{Command, Stdio};
use std::str::FromStr;
use std::sync::atomic::{AtomicUsize, Ordering};
use std::sync::{mpsc, Mutex};
use std::time::Duration;

// ------------------------------------------------------------------ worker protocol

thread_local! {
    static LAST_PANIC_LOC: std::cell::RefCell<String> = const { std::cell::RefCell::new(String::new()) };
}

fn install_hook() {
    std::panic::set_hook(Box::new(|info| {
        let loc = info.location().map(|l| format!("{}:{}", l.file(), l.line())).unwrap_or_default();
        LAST_PANIC_LOC.with(|l| *l.borrow_mut() = loc);
    }));
}

fn panic_msg(e: Box<dyn std::any::Any + Send>) -> String {
    if let Some(s) = e.downcast_ref::<&str>() { (*s).to_owned() } else if let Some(s) = e.downcast_ref::<String>() { s.clone() } else { "<non-string panic>".into() }
}

/// outcome of one in-process generation: `ok` | `err <Variant>` | `panic <loc> <msg>`
fn gen_inproc(flags: &[String]) -> String {
    let args: Vec<String> = std::iter::once("bindgen".to_owned()).chain(flags.iter().cloned()).collect();
    let r = std::panic::catch_unwind(std::panic::AssertUnwindSafe(|| {
        let (builder, _o, _v) = bindgen::builder_from_flags(args.into_iter()).map_err(|e| format!("Io({e})"))?;
        let b = builder.generate().map_err(|e| { let d = format!("{e:?}"); d.split('(').next().unwrap_or("").to_owned() })?;
        let s = b.to_string();
        Ok::<usize, String>(s.len())
    }));
    match r {
        Ok(Ok(n)) => format!("ok {n}"),
        Ok(Err(e)) => format!("err {e}"),
        Err(p) => {
            let loc = LAST_PANIC_LOC.with(|l| l.borrow().clone());
            let m: String = panic_msg(p).replace('\n', " ").chars().take(300).collect();
            format!("panic {loc} {m}")
        }
    }
}

/// worker: job file lines `id \x1f flag \x1f flag ...`; prints `start id` / `done id outcome`
fn worker(file: &str) {
    install_hook();
    let text = std::fs::read_to_string(file).unwrap();
    let out = std::io::stdout();
    for l in text.lines() {
        let mut it = l.split('\x1f');
        let id = it.next().unwrap_or("");
        let flags: Vec<String> = it.map(|s| s.to_owned()).collect();
        { let mut o = out.lock(); writeln!(o, "start {id}").ok(); o.flush().ok(); }
        let r = gen_inproc(&flags);
        { let mut o = out.lock(); writeln!(o, "done {id} {r}").ok(); o.flush().ok(); }
    }
}

#[derive(Clone, Debug)]
struct Job { id: usize, flags: Vec<String> }

/// Run jobs in worker children; returns id -> outcome (`ok..`, `err..`, `panic..`, `abort <status>`, `timeout`).
fn run_jobs(jobs: &[Job], nworkers: usize, work: &Path, per_job_timeout: Duration) -> BTreeMap<usize, String> {
    let exe = std::env::current_exe().unwrap();
    let results: Mutex<BTreeMap<usize, String>> = Mutex::new(BTreeMap::new());
    let chunks: Vec<Vec<Job>> = {
        let n = nworkers.max(1);
        let mut v: Vec<Vec<Job>> = (0..n).map(|_| vec![]).collect();
        for (i, j) in jobs.iter().enumerate() { v[i % n].push(j.clone()); }
        v
    };
    let counter = AtomicUsize::new(0);
    std::thread::scope(|s| {
        for chunk in &chunks {
            let (results, exe, counter) = (&results, &exe, &counter);
            s.spawn(move || {
                let mut rest: Vec<Job> = chunk.clone();
                while !rest.is_empty() {
                    let n = counter.fetch_add(1, Ordering::SeqCst);
                    let jf = work.join(format!("jobs_{n}.txt"));
                    let text: Vec<String> = rest.iter().map(|j| format!("{}\x1f{}", j.id, j.flags.join("\x1f"))).collect();
                    std::fs::write(&jf, text.join("\n")).unwrap();
                    let mut child = match Command::new(exe).arg("--worker").arg(&jf).stdin(Stdio::null()).stdout(Stdio::piped()).stderr(Stdio::null()).spawn() {
                        Ok(c) => c,
                        Err(_) => return,
                    };
                    let stdout = child.stdout.take().unwrap();
                    let (tx, rx) = mpsc::channel::<String>();
                    let reader = std::thread::spawn(move || {
                        for l in BufReader::new(stdout).lines().map_while(Result::ok) { if tx.send(l).is_err() { break; } }
                    });
                    let mut started: Option<usize> = None;
                    let mut done_ids = std::collections::BTreeSet::new();
                    let mut verdict: Option<String> = None; // for the job in flight when the child stopped
                    loop {
                        match rx.recv_timeout(per_job_timeout) {
                            Ok(l) => {
                                if let Some(id) = l.strip_prefix("start ") { started = id.trim().parse().ok(); }
                                else if let Some(rest_l) = l.strip_prefix("done ") {
                                    let mut p = rest_l.splitn(2, ' ');
                                    if let Some(id) = p.next().and_then(|x| x.parse::<usize>().ok()) {
                                        results.lock().unwrap().insert(id, p.next().unwrap_or("").to_owned());
                                        done_ids.insert(id);
                                        started = None;
                                    }
                                }
                            }
                            Err(mpsc::RecvTimeoutError::Timeout) => {
                                let _ = child.kill();
                                verdict = Some("timeout".into());
                                break;
                            }
                            Err(mpsc::RecvTimeoutError::Disconnected) => break,
                        }
                    }
                    let status = child.wait().ok();
                    let _ = reader.join();
                    let _ = std::fs::remove_file(&jf);
                    if let Some(id) = started {
                        let v = verdict.unwrap_or_else(|| format!("abort {:?}", status.map(|s| s.to_string())));
                        results.lock().unwrap().insert(id, v);
                        done_ids.insert(id);
                    }
                    let before = rest.len();
                    rest.retain(|j| !done_ids.contains(&j.id));
                    if rest.len() == before { break; } // no progress at all: give up on this chunk
                }
            });
        }
    });
    results.into_inner().unwrap()
}

// ------------------------------------------------------------------ mutation

fn lex(s: &str) -> Vec<String> {
    let cs: Vec<char> = s.chars().collect();
    let mut out = vec![];
    let mut i = 0;
    while i < cs.len() {
        let c = cs[i];
        let start = i;
        if c.is_whitespace() {
            while i < cs.len() && cs[i].is_whitespace() { i += 1; }
        } else if c.is_alphabetic() || c == '_' {
            while i < cs.len() && (cs[i].is_alphanumeric() || cs[i] == '_') { i += 1; }
        } else if c.is_ascii_digit() {
            while i < cs.len() && (cs[i].is_alphanumeric() || cs[i] == '.' || cs[i] == '_') { i += 1; }
        } else if c == '"' || c == '\'' {
            i += 1;
            while i < cs.len() && cs[i] != c && cs[i] != '\n' { if cs[i] == '\\' { i += 1; } i += 1; }
            i = (i + 1).min(cs.len());
        } else if c == '/' && i + 1 < cs.len() && cs[i + 1] == '/' {
            while i < cs.len() && cs[i] != '\n' { i += 1; }
        } else if c == '/' && i + 1 < cs.len() && cs[i + 1] == '*' {
            i += 2;
            while i + 1 < cs.len() && !(cs[i] == '*' && cs[i + 1] == '/') { i += 1; }
            i = (i + 2).min(cs.len());
        } else {
            let two: String = cs[i..(i + 2).min(cs.len())].iter().collect();
            if ["::", "->", "<<", ">>", "==", "!=", "<=", ">=", "&&", "||", "++", "--", "##"].contains(&two.as_str()) { i += 2 } else { i += 1 }
        }
        out.push(cs[start..i].iter().collect());
    }
    out
}

fn is_ws(t: &str) -> bool { t.chars().all(|c| c.is_whitespace()) }
fn is_ident(t: &str) -> bool { t.chars().next().map_or(false, |c| c.is_alphabetic() || c == '_') }
fn is_num(t: &str) -> bool { t.chars().next().map_or(false, |c| c.is_ascii_digit()) }

const KEYWORDS: &[&str] = &["struct", "union", "enum", "typedef", "int", "void", "const", "static", "inline", "template", "typename",
    "class", "namespace", "virtual", "operator", "unsigned", "long", "char", "float", "double", "extern", "volatile", "sizeof", "public",
    "private", "using", "decltype", "auto", "constexpr", "alignas", "_Atomic", "__attribute__", "friend", "this", "bool", "_Complex", "__int128"];
const LITERALS: &[&str] = &["0", "1", "-1", "0x7fffffff", "0xffffffffffffffff", "18446744073709551616", "1e400", "0x", "1.5f", "'a'", "\"s\"", "0b101", "077", "1ULL", "(1 << 63)", "sizeof(int)"];

/// returns (operator name, mutated text)
/// GNU attributes clang 14 accepts on x86-64 (calling conventions Rust has no name for, type and
/// declaration attributes): spliced in front of a `;`, after a `)` or in front of an identifier
const ATTRS: &[&str] = &["regcall", "preserve_most", "preserve_all", "ms_abi", "sysv_abi", "vectorcall", "stdcall", "fastcall", "cdecl",
    "pascal", "thiscall", "aligned(16)", "aligned(1)", "packed", "noreturn", "deprecated", "unused", "vector_size(16)", "mode(TI)", "mode(QI)",
    "may_alias", "transparent_union", "warn_unused_result", "const", "pure", "weak", "visibility(\"hidden\")", "overloadable", "nonnull",
    "ext_vector_type(4)", "address_space(1)", "noderef", "btf_type_tag(\"t\")", "annotate(\"a\")", "enum_extensibility(closed)", "flag_enum"];

fn mutate(r: &mut Rng, text: &str, other: &str) -> (&'static str, String) {
    let op = r.below(13);
    if op == 12 {
        let mut toks = lex(text);
        let sites: Vec<usize> = (0..toks.len()).filter(|&i| toks[i] == ";" || toks[i] == ")" || (is_ident(&toks[i]) && r.chance(1, 6))).collect();
        if sites.is_empty() { return ("noop", text.to_owned()); }
        let i = *r.pick(&sites);
        let a = format!(" __attribute__(({})) ", r.pick(ATTRS));
        if toks[i] == ")" { toks.insert(i + 1, a); } else { toks.insert(i, a); }
        return ("attribute-splice", toks.concat());
    }
    if op >= 8 {
        // line level
        let mut lines: Vec<&str> = text.lines().collect();
        if lines.is_empty() { return ("noop", text.to_owned()); }
        let i = r.below(lines.len() as u64) as usize;
        let name = match op {
            8 => { lines.remove(i); "line-delete" }
            9 => { let l = lines[i]; lines.insert(i, l); "line-duplicate" }
            10 => { let j = r.below(lines.len() as u64) as usize; lines.swap(i, j); "line-swap" }
            _ => {
                let ol: Vec<&str> = other.lines().collect();
                if !ol.is_empty() {
                    let a = r.below(ol.len() as u64) as usize;
                    let n = (r.range(1, 6) as usize).min(ol.len() - a);
                    for (k, l) in ol[a..a + n].iter().enumerate() { lines.insert(i + k, l); }
                }
                "line-splice"
            }
        };
        return (name, lines.join("\n") + "\n");
    }
    let mut toks = lex(text);
    let idx: Vec<usize> = (0..toks.len()).filter(|&i| !is_ws(&toks[i]) && !toks[i].starts_with("//")).collect();
    if idx.is_empty() { return ("noop", text.to_owned()); }
    let i = *r.pick(&idx);
    let name = match op {
        0 | 1 => { toks.remove(i); "token-delete" }
        2 => { let t = toks[i].clone(); toks.insert(i, format!("{t} ")); "token-duplicate" }
        3 => { let j = *r.pick(&idx); toks.swap(i, j); "token-swap" }
        4 | 5 => {
            let ids: Vec<usize> = idx.iter().copied().filter(|&k| is_ident(&toks[k])).collect();
            if ids.is_empty() { return ("noop", text.to_owned()); }
            let k = *r.pick(&ids);
            let repl = if r.chance(1, 2) { (*r.pick(KEYWORDS)).to_owned() } else { toks[*r.pick(&ids)].clone() };
            toks[k] = repl;
            "identifier-substitution"
        }
        6 => {
            let ns: Vec<usize> = idx.iter().copied().filter(|&k| is_num(&toks[k]) || toks[k].starts_with('"') || toks[k].starts_with('\'')).collect();
            if ns.is_empty() { toks[i] = (*r.pick(LITERALS)).to_owned(); } else { let k = *r.pick(&ns); toks[k] = (*r.pick(LITERALS)).to_owned(); }
            "literal-substitution"
        }
        _ => {
            // splice a token run from the other file
            let ot = lex(other);
            if !ot.is_empty() {
                let a = r.below(ot.len() as u64) as usize;
                let n = (r.range(1, 12) as usize).min(ot.len() - a);
                let run: String = ot[a..a + n].concat();
                toks.insert(i, format!(" {run} "));
            }
            "token-splice"
        }
    };
    (name, toks.concat())
}

// ------------------------------------------------------------------ helpers

fn clang_accepts(header: &Path, clang_args: &[String]) -> (bool, String) {
    let mut c = Command::new("clang");
    c.arg("-fsyntax-only").arg("-ferror-limit=0").args(clang_args).arg(header);
    let (rc, _o, e) = util::run(&mut c);
    let first = e.lines().find(|l| l.contains("error:")).unwrap_or("").chars().take(160).collect();
    (rc == 0, first)
}

fn cli_timeout(args: &[String], secs: u64, cwd: Option<&Path>) -> (String, String) {
    // returns (verdict, stderr excerpt): ok | error-exit <rc> | clap-reject | panic | signal | timeout
    let mut c = Command::new(drive::cli_path());
    c.args(args).stdin(Stdio::null()).stdout(Stdio::null()).stderr(Stdio::piped());
    if let Some(d) = cwd { c.current_dir(d); }
    let mut child = match c.spawn() { Ok(c) => c, Err(e) => return ("spawn-failed".into(), e.to_string()) };
    let mut stderr = child.stderr.take().unwrap();
    let h = std::thread::spawn(move || { let mut s = String::new(); use std::io::Read; let _ = stderr.read_to_string(&mut s); s });
    let t0 = std::time::Instant::now();
    let status = loop {
        match child.try_wait() {
            Ok(Some(s)) => break Some(s),
            Ok(None) => {
                if t0.elapsed().as_secs() >= secs { let _ = child.kill(); let _ = child.wait(); break None; }
                std::thread::sleep(Duration::from_millis(15));
            }
            Err(_) => break None,
        }
    };
    let err = h.join().unwrap_or_default();
    // the panic header line, the message line after it, and error lines
    let mut picked: Vec<&str> = vec![];
    let mut take_next = false;
    for l in err.lines() {
        if take_next || l.contains("panicked at") || l.contains("error") || l.contains("overflow") {
            picked.push(l);
        }
        take_next = l.contains("panicked at");
        if picked.len() >= 4 { break; }
    }
    let ex: String = picked.join(" | ").chars().take(500).collect();
    let v = match status {
        None => "timeout".to_owned(),
        Some(s) => match s.code() {
            Some(0) => "ok".into(),
            Some(101) => "panic".into(),
            Some(2) if err.contains("Usage:") || err.contains("error: ") && err.contains("For more information") => "clap-reject".into(),
            Some(rc) => if err.contains("panicked at") { "panic".into() } else { format!("error-exit {rc}") },
            None => format!("signal {s}"),
        },
    };
    (v, ex)
}

fn hex(s: &str) -> String { s.bytes().map(|b| format!("{b:02x}")).collect() }

fn norm_panic(s: &str) -> String {
    // `panic <file:line> <msg>` -> file + message with digits collapsed (line independent key)
    let mut p = s.splitn(3, ' ');
    let _ = p.next();
    let loc = p.next().unwrap_or("");
    let file = loc.rsplit_once(':').map_or(loc, |x| x.0);
    let file = file.rsplit("bindgen/").next().unwrap_or(file);
    let msg: String = p.next().unwrap_or("").chars().map(|c| if c.is_ascii_digit() { '#' } else { c }).collect();
    let mut out = String::new();
    let mut last_hash = false;
    for c in msg.chars() { if c == '#' { if !last_hash { out.push('#'); } last_hash = true } else { out.push(c); last_hash = false } }
    format!("{file}: {}", out.chars().take(120).collect::<String>())
}

struct Finding { class: String, key: String, detail: String, input: String }

/// (flag, garbage value, extra flags): options whose value is spliced into Rust tokens
/// (known finding token_option_not_validated is re-observed through these probes only; the
/// random option sets use well-formed values for them)
const GARBAGE_TOKEN_OPTIONS: &[(&str, &str, &[&str])] = &[
    ("--ctypes-prefix", "a b", &[]),
    ("--dynamic-loading", "a b", &[]),
    ("--extern-fn-block-attrs", "1", &["--merge-extern-blocks"]),
    ("--anon-fields-prefix", "a b", &[]),
    ("--with-attribute-custom", "S.*=1", &[]),
    ("--with-derive-custom", "S.*=a b", &[]),
    ("--wrap-static-fns-suffix", "a b", &["--experimental", "--wrap-static-fns"]),
    ("--module-raw-line", "root", &["--enable-cxx-namespaces"]),
    ("--raw-line", "this is ( not rust", &[]),
    ("--wasm-import-module-name", "a\"b", &[]),
];

fn main() {
    let raw: Vec<String> = std::env::args().collect();
    if raw.len() >= 3 && raw[1] == "--worker" { worker(&raw[2]); return; }
    let a = Args::parse();
    install_hook();
    if a.extra.first().map(|s| s.as_str()) == Some("--replay-case") { replay(&a); return; }
    let thorough = a.thorough();
    let envn = |k: &str, d: usize| std::env::var(k).ok().and_then(|s| s.parse().ok()).unwrap_or(d);
    let cores = std::thread::available_parallelism().map(|n| n.get()).unwrap_or(4).min(16);
    let nworkers = envn("VERIF_THREADS", cores.min(if thorough { 12 } else { 8 }));
    let n_mutants = envn("VERIF_C12_MUTANTS", if thorough { 15000 } else { 1500 });
    let n_optsets = envn("VERIF_C12_OPTSETS", if thorough { 1500 } else { 200 });
    let n_targets = if thorough { 20000 } else { 2000 };
    let mut r = Rng::new(a.seed ^ 0xC12);
    let work = Scratch::new("c12work");
    let t0 = std::time::Instant::now();
    let mut findings: Vec<Finding> = vec![];
    let mut corr_fail: Vec<Finding> = vec![]; // model-vs-implementation disagreements
    let mut samples: Vec<String> = vec![];
    let mut evals = 0usize;
    let mut phase_t: Vec<(String, f64)> = vec![];

    // ================= Part A1: RustTarget::from_str vs model =================
    let mut targets: Vec<String> = vec!["nightly".into(), "1.0-nightly".into(), "1.0.0-nightly".into(), "1.+0-nightly".into(), "1.00-nightly".into(),
        "1.0".into(), "1.51".into(), "1.50.9".into(), "1.82.0".into(), "1.71.1-beta.1".into(), "1.71-beta".into(), "1.1-nightly".into(), "1.52-nightly".into(),
        "".into(), "1".into(), "1.".into(), "1..".into(), ".1".into(), "2.0".into(), "01.60".into(), "1.60-".into(), "1.60-beta.".into(), "1.60-betax".into(),
        "1.18446744073709551615".into(), "1.18446744073709551616".into(), "1.60.18446744073709551616".into(), "1.-5".into(), "1.6 0".into(), "1.60-nightly-x".into(),
        "1.60.1.2".into(), "1.٣".into(), "1.60-NIGHTLY".into(), "nightly-1.60".into(), "1.0-nightly.1".into(), "1.+0.+3-nightly".into()];
    let pieces = ["1", "0", "2", "51", "52", "60", "82", "100", "+0", "00", "", "-", ".", "nightly", "beta", "beta.", "beta.2", "x", " ", "18446744073709551615", "18446744073709551616", "+", "1e3", "0x10"];
    while targets.len() < n_targets {
        let s = match r.below(5) {
            0 => format!("1.{}", r.below(120)),
            1 => format!("1.{}.{}", r.below(120), r.below(30)),
            2 => format!("1.{}{}-{}", r.below(3) * r.below(60), if r.chance(1, 2) { format!(".{}", r.below(9)) } else { String::new() }, r.pick(&["nightly", "beta", "beta.1", "alpha", "nightly ", ""])),
            3 => { let n = r.range(1, 6); (0..n).map(|_| *r.pick(&pieces)).collect::<Vec<_>>().concat() }
            _ => { let n = r.range(1, 5); (0..n).map(|_| *r.pick(&pieces)).collect::<Vec<_>>().join(if r.chance(1, 2) { "." } else { "-" }) }
        };
        targets.push(s);
    }
    targets.sort(); targets.dedup();
    let reqs: Vec<String> = targets.iter().map(|t| if t.is_empty() { "entry rt dbg".to_owned() } else { format!("entry rt dbg {}", hex(t)) }).collect();
    let model = util::model(&reqs);
    let mut rt_hist: BTreeMap<String, usize> = BTreeMap::new();
    let mut rt_known = 0usize;
    let mut rt_known_sample = String::new();
    for (t, m) in targets.iter().zip(model.iter()) {
        let real = match std::panic::catch_unwind(|| bindgen::RustTarget::from_str(t)) {
            Ok(Ok(v)) => { let s = v.to_string(); if s == "nightly" { "ok nightly".to_owned() } else { format!("ok {s}") } }
            Ok(Err(e)) => {
                let m = e.to_string();
                let k = if m.contains("accepted values") { "form" } else if m.contains("largest major") { "major" } else if m.contains("minor version number") { "minorNum" }
                    else if m.contains("patch version number") { "patchNum" } else if m.contains("earliest") { "tooEarly" } else { "other" };
                format!("err {k}")
            }
            Err(p) => { let _ = p; "panic".to_owned() }
        };
        evals += 1;
        *rt_hist.entry(real.split(' ').take(2).collect::<Vec<_>>().join(" ").chars().take(12).collect::<String>().split(" 1.").next().unwrap_or("").to_owned()).or_insert(0) += 1;
        if &real != m {
            corr_fail.push(Finding { class: "from_str".into(), key: "model-vs-impl".into(), detail: format!("RustTarget::from_str({t:?}): implementation `{real}`, model `{m}`"), input: format!("{{\"mode\":\"rust-target\",\"target\":{}}}", json_str(t)) });
        } else if real == "panic" {
            rt_known += 1;
            if rt_known_sample.is_empty() { rt_known_sample = t.clone(); }
        }
    }
    // the same through the CLI (the property's own observation point): one run
    let probe_h = work.path("t.h");
    std::fs::write(&probe_h, "int x;\n").unwrap();
    let (cli_v, cli_e) = cli_timeout(&[probe_h.to_string_lossy().into_owned(), "--rust-target".into(), "1.0-nightly".into()], 20, None);
    evals += 1;
    samples.push(format!("from_str: {} strings, outcome histogram {:?}; model == implementation on all but {}", targets.len(), rt_hist, corr_fail.len()));
    samples.push(format!("CLI `bindgen t.h --rust-target 1.0-nightly`: {cli_v} [{cli_e}]"));
    phase_t.push(("from_str".into(), t0.elapsed().as_secs_f64()));

    // ================= Part A2: path triage on real file-system faults =================
    let fsd = work.path("fs");
    std::fs::create_dir_all(&fsd).unwrap();
    let mut fs_cases: Vec<(String, PathBuf)> = vec![];
    {
        use std::os::unix::fs::PermissionsExt;
        for mode in [0o000u32, 0o200, 0o100, 0o300, 0o004, 0o040, 0o400, 0o444, 0o644, 0o222, 0o111, 0o044, 0o600, 0o020, 0o002] {
            let p = fsd.join(format!("m{mode:o}.h"));
            std::fs::write(&p, "struct F { int a; };\n").unwrap();
            std::fs::set_permissions(&p, std::fs::Permissions::from_mode(mode)).unwrap();
            fs_cases.push((format!("mode {mode:03o}"), p));
        }
        fs_cases.push(("missing".into(), fsd.join("missing.h")));
        let d = fsd.join("dir.h"); std::fs::create_dir_all(&d).unwrap();
        fs_cases.push(("directory".into(), d.clone()));
        let l = fsd.join("dangling.h"); let _ = std::os::unix::fs::symlink(fsd.join("nowhere"), &l);
        fs_cases.push(("dangling symlink".into(), l));
        let l2 = fsd.join("linkdir.h"); let _ = std::os::unix::fs::symlink(&d, &l2);
        fs_cases.push(("symlink to directory".into(), l2));
        let l3 = fsd.join("link000.h"); let _ = std::os::unix::fs::symlink(fsd.join("m0.h"), &l3);
        fs_cases.push(("symlink to mode 000 file".into(), l3));
        fs_cases.push(("path under a regular file".into(), fsd.join("m644.h").join("x.h")));
        fs_cases.push(("empty path".into(), PathBuf::from("")));
    }
    let root_reads_000 = std::fs::read(fsd.join("m0.h")).is_ok();
    let mut fs_hist: BTreeMap<String, usize> = BTreeMap::new();
    let fs_reqs: Vec<String> = fs_cases.iter().map(|(_, p)| {
        use std::os::unix::fs::PermissionsExt;
        match std::fs::metadata(p) {
            Err(_) => "entry triage err".to_owned(),
            Ok(md) if md.is_dir() => "entry triage dir".to_owned(),
            Ok(md) => format!("entry triage file:{}", md.permissions().mode() & 0o7777),
        }
    }).collect();
    let fs_model = util::model(&fs_reqs);
    for ((name, p), m) in fs_cases.iter().zip(fs_model.iter()) {
        let ps = p.to_string_lossy().into_owned();
        let r1 = std::panic::catch_unwind(|| bindgen::builder().header(ps.clone()).detect_include_paths(false).generate().map(|b| b.to_string().len()));
        evals += 1;
        let real = match &r1 {
            Ok(Ok(_)) => "proceed:ok".to_owned(),
            Ok(Err(bindgen::BindgenError::FolderAsHeader(_))) => "folderAsHeader".into(),
            Ok(Err(bindgen::BindgenError::InsufficientPermissions(_))) => "insufficientPermissions".into(),
            Ok(Err(bindgen::BindgenError::NotExist(_))) => "notExist".into(),
            Ok(Err(bindgen::BindgenError::ClangDiagnostic(_))) => "proceed:clangDiagnostic".into(),
            Ok(Err(e)) => format!("other:{e:?}"),
            Err(_) => "panic".into(),
        };
        *fs_hist.entry(real.clone()).or_insert(0) += 1;
        let agrees = real == *m || (m == "proceed" && real.starts_with("proceed:"));
        if real == "panic" {
            findings.push(Finding { class: "fs-fault".into(), key: format!("fs:{name}"), detail: format!("input path `{name}`: generation panicked at {}", LAST_PANIC_LOC.with(|l| l.borrow().clone())), input: format!("{{\"mode\":\"fs\",\"fault\":{}}}", json_str(name)) });
        } else if !agrees {
            corr_fail.push(Finding { class: "path-triage".into(), key: "model-vs-impl".into(), detail: format!("input path `{name}`: implementation `{real}`, model `{m}`"), input: format!("{{\"mode\":\"fs\",\"fault\":{}}}", json_str(name)) });
        }
    }
    samples.push(format!("fs faults: {} cases, outcomes {:?}; root can read a mode-000 file: {} (the check is on the mode bits, so InsufficientPermissions is still produced)", fs_cases.len(), fs_hist, root_reads_000));
    {
        use std::os::unix::fs::PermissionsExt;
        for (_, p) in &fs_cases { let _ = std::fs::set_permissions(p, std::fs::Permissions::from_mode(0o644)); }
    }
    phase_t.push(("fs".into(), t0.elapsed().as_secs_f64()));

    // ================= Part A3: edition check, every (edition, minor) pair =================
    let eds = [("2018", bindgen::RustEdition::Edition2018), ("2021", bindgen::RustEdition::Edition2021), ("2024", bindgen::RustEdition::Edition2024)];
    let mut ed_reqs = vec![];
    let mut ed_real = vec![];
    for (name, ed) in eds.iter() {
        for minor in (51u64..=95).map(Some).chain(std::iter::once(None)) {
            let tgt = match minor { Some(m) => match bindgen::RustTarget::stable(m, 0) { Ok(t) => t, Err(_) => continue }, None => bindgen::RustTarget::nightly() };
            let ed = *ed;
            let r1 = std::panic::catch_unwind(move || bindgen::builder().header_contents("e.h", "int x;").detect_include_paths(false).rust_target(tgt).rust_edition(ed).generate().map(|_| ()));
            evals += 1;
            ed_real.push(match r1 { Ok(Ok(())) => "proceed", Ok(Err(bindgen::BindgenError::UnsupportedEdition(..))) => "unsupportedEdition", Ok(Err(_)) => "other-error", Err(_) => "panic" });
            ed_reqs.push(format!("entry edition {name} {}", minor.map_or("nightly".to_owned(), |m| m.to_string())));
        }
    }
    let ed_model = util::model(&ed_reqs);
    let mut ed_unsupported = 0usize;
    for ((rq, real), m) in ed_reqs.iter().zip(ed_real.iter()).zip(ed_model.iter()) {
        if *real == "unsupportedEdition" { ed_unsupported += 1; }
        if real != m { corr_fail.push(Finding { class: "edition".into(), key: "model-vs-impl".into(), detail: format!("{rq}: implementation `{real}`, model `{m}`"), input: format!("{{\"mode\":\"edition\",\"request\":{}}}", json_str(rq)) }); }
    }
    samples.push(format!("edition check: {} (edition, target) pairs, {} UnsupportedEdition, model == implementation", ed_reqs.len(), ed_unsupported));
    phase_t.push(("edition".into(), t0.elapsed().as_secs_f64()));

    // ================= Part B1: mutants =================
    let repo = util::repo_headers();
    let mdir = work.path("mut");
    std::fs::create_dir_all(&mdir).unwrap();
    let n_gen_progs = if thorough { 300 } else { 40 };
    let progs: Vec<cgen::Program> = (0..n_gen_progs).map(|i| { let cpp = i % 2 == 0; let n = r.range(6, 40) as usize; cgen::program(&mut r, cpp, n) }).collect();
    struct Mutant { id: usize, path: PathBuf, clang: Vec<String>, pre: Vec<String>, op: &'static str, origin: String }
    let mut mutants: Vec<Mutant> = vec![];
    let mut op_hist: BTreeMap<&'static str, usize> = BTreeMap::new();
    // corpus first: minimised inputs of past violations, unmutated, under default options and under
    // an allow-list that keeps the offending items out of code generation
    let corpus_dir = std::path::Path::new(&std::env::var("VERIF_DIR").unwrap_or_else(|_| "/verif".into())).join("corpus/C12");
    let mut corpus_files: Vec<PathBuf> = std::fs::read_dir(&corpus_dir).map(|d| d.filter_map(|e| e.ok()).map(|e| e.path()).filter(|p| p.extension().is_some_and(|e| e == "h" || e == "hpp")).collect()).unwrap_or_default();
    corpus_files.sort();
    let n_corpus = corpus_files.len() * 2;
    for (k, cf) in corpus_files.iter().enumerate() {
        let ext = cf.extension().and_then(|e| e.to_str()).unwrap_or("h").to_owned();
        let text = std::fs::read_to_string(cf).unwrap_or_default();
        for v in 0..2 {
            let id = n_mutants + 2 * k + v;
            let path = mdir.join(format!("corpus{k}_{v}.{ext}"));
            std::fs::write(&path, &text).unwrap();
            let mut pre: Vec<String> = vec!["--formatter".into(), "none".into()];
            if v == 1 { pre.extend(["--allowlist-function".to_owned(), ".*".to_owned()]); }
            let clang = if ext == "hpp" { vec!["-x".to_owned(), "c++".to_owned(), "-std=c++14".to_owned()] } else { vec![] };
            *op_hist.entry("corpus").or_insert(0) += 1;
            mutants.push(Mutant { id, path, clang, pre, op: "corpus", origin: cf.file_name().unwrap().to_string_lossy().into_owned() });
        }
    }
    let _ = n_corpus;
    for id in 0..n_mutants {
        let from_repo = r.chance(3, 5) && !repo.is_empty();
        let (text, ext, mut pre, mut clang, origin) = if from_repo {
            let (p, flags) = r.pick(&repo).clone();
            let text = std::fs::read_to_string(&p).unwrap_or_default();
            let mut pre = vec![]; let mut clang = vec![]; let mut after = false;
            for f in flags { if f == "--" && !after { after = true; continue; } if after { clang.push(f) } else { pre.push(f) } }
            if !clang.iter().any(|f| f.starts_with("--target=")) { clang.push("--target=x86_64-unknown-linux".into()); }
            let ext = p.extension().and_then(|e| e.to_str()).unwrap_or("h").to_owned();
            (text, ext, pre, clang, p.file_name().unwrap().to_string_lossy().into_owned())
        } else {
            let i = r.below(progs.len() as u64) as usize;
            (progs[i].text(), progs[i].ext().to_owned(), vec![], progs[i].clang_args(), format!("generated#{i}"))
        };
        // flags that need a cooperating environment / are excluded by the property statement
        pre.retain(|f| f != "--represent-cxx-operators" && f != "--use-distinct-char16-t");
        if pre.iter().any(|f| f.starts_with("--wrap-static-fns") || f == "--experimental" || f.starts_with("--emit-") || f.starts_with("--dump-")) { pre.clear(); }
        let other = if r.chance(1, 2) && !repo.is_empty() { std::fs::read_to_string(&r.pick(&repo).0).unwrap_or_default() } else { r.pick(&progs).text() };
        let mut cur = text;
        let mut op = "noop";
        for _ in 0..r.range(1, 3) { let (o, t) = mutate(&mut r, &cur, &other); op = o; cur = t; }
        *op_hist.entry(op).or_insert(0) += 1;
        let path = mdir.join(format!("m{id}.{ext}"));
        std::fs::write(&path, &cur).unwrap();
        pre.extend(["--formatter".to_owned(), "none".to_owned()]);
        if id % 4 != 0 { pre.push("--no-include-path-detection".into()); }
        {
            // drop include-path / forced-include arguments together with their values (the
            // mutant lives in a scratch directory)
            let mut kept = vec![];
            let mut skip = false;
            for f in clang.drain(..) {
                if skip { skip = false; continue; }
                if f == "-include" || f == "-I" || f == "-isystem" || f == "-iquote" { skip = true; continue; }
                if f.starts_with("-I") || f.starts_with("-include") { continue; }
                kept.push(f);
            }
            clang = kept;
        }
        mutants.push(Mutant { id, path, clang, pre, op, origin });
    }
    let jobs: Vec<Job> = mutants.iter().map(|m| {
        let mut f = vec![m.path.to_string_lossy().into_owned()];
        f.extend(m.pre.iter().cloned()); f.push("--".into()); f.extend(m.clang.iter().cloned());
        Job { id: m.id, flags: f }
    }).collect();
    let res = run_jobs(&jobs, nworkers, &work.0, Duration::from_secs(if thorough { 60 } else { 40 }));
    evals += jobs.len();
    phase_t.push(("mutants-bindgen".into(), t0.elapsed().as_secs_f64()));
    // classify with clang (parallel)
    let next = AtomicUsize::new(0);
    let verdicts: Mutex<Vec<(usize, bool, String)>> = Mutex::new(vec![]);
    std::thread::scope(|s| {
        for _ in 0..nworkers {
            s.spawn(|| loop {
                let i = next.fetch_add(1, Ordering::SeqCst);
                if i >= mutants.len() { break; }
                let (ok, first) = clang_accepts(&mutants[i].path, &mutants[i].clang);
                verdicts.lock().unwrap().push((mutants[i].id, ok, first));
            });
        }
    });
    let mut vmap: BTreeMap<usize, (bool, String)> = BTreeMap::new();
    for (id, ok, first) in verdicts.into_inner().unwrap() { vmap.insert(id, (ok, first)); }
    phase_t.push(("mutants-clang".into(), t0.elapsed().as_secs_f64()));
    let mut table: BTreeMap<String, usize> = BTreeMap::new(); // "<clang> / <bindgen>"
    let mut distinct_shapes = std::collections::BTreeSet::new();
    let mut accepted_err_examples: Vec<String> = vec![];
    let mut k5_hits = 0usize;
    let mut k6_hits = 0usize;
    let mut k6_aborts = 0usize;
    let mut k8_hits = 0usize;
    for m in &mutants {
        let out = res.get(&m.id).cloned().unwrap_or_else(|| "not-run".into());
        let (acc, first) = vmap.get(&m.id).cloned().unwrap_or((false, String::new()));
        let kind = out.split(' ').take(if out.starts_with("err") { 2 } else { 1 }).collect::<Vec<_>>().join(" ");
        *table.entry(format!("{} / {}", if acc { "accepted" } else { "rejected" }, kind)).or_insert(0) += 1;
        distinct_shapes.insert((m.op, acc, kind.clone(), m.origin.clone()));
        let input = || format!("{{\"mode\":\"mutant\",\"origin\":{},\"operator\":{},\"header_name\":{},\"text\":{},\"pre\":[{}],\"clang\":[{}]}}", json_str(&m.origin), json_str(m.op),
            json_str(&m.path.file_name().unwrap().to_string_lossy()), json_str(&std::fs::read_to_string(&m.path).unwrap_or_default()),
            m.pre.iter().map(|s| json_str(s)).collect::<Vec<_>>().join(","), m.clang.iter().map(|s| json_str(s)).collect::<Vec<_>>().join(","));
        let text_has_complex = || std::fs::read_to_string(&m.path).map_or(false, |t| t.contains("_Complex"));
        // region of known finding macro_division_by_zero_aborts: an object-like macro whose replacement list
        // divides (or takes the remainder) by a literal zero — the external `cexpr` evaluator panics inside the
        // libclang visitor callback, which cannot unwind
        let text_has_macro_div_zero = || std::fs::read_to_string(&m.path).map_or(false, |t| t.lines().any(|l| {
            let l = l.trim_start();
            if !l.starts_with("#define") && !l.starts_with("# define") { return false; }
            let c: String = l.chars().filter(|ch| !ch.is_whitespace() && *ch != '(' && *ch != ')').collect();
            let b = c.as_bytes();
            (0..b.len()).any(|i| (b[i] == b'/' || b[i] == b'%') && i + 1 < b.len() && b[i + 1] == b'0' && !(i + 2 < b.len() && (b[i + 2].is_ascii_alphanumeric() || b[i + 2] == b'.')))
        }));
        if out.starts_with("panic") && out.contains("libclang error; possible causes include") {
            k5_hits += 1;
        } else if (out.starts_with("panic") && out.contains("Non floating-type complex?")) || (out.starts_with("abort") && text_has_complex()) {
            // known finding integer_complex_type (a panic inside a libclang visitor callback cannot
            // unwind: the process aborts)
            k6_hits += 1;
            if out.starts_with("abort") { k6_aborts += 1; }
        } else if (out.starts_with("abort") || (out.starts_with("panic") && out.contains("divide by zero"))) && text_has_macro_div_zero() {
            k8_hits += 1;
        } else if out.starts_with("panic") || out.starts_with("abort") || out == "timeout" || out == "not-run" {
            let key = if out.starts_with("panic") { norm_panic(&out) } else { out.split(' ').next().unwrap_or("").to_owned() };
            if !findings.iter().any(|f| f.key == key) {
                findings.push(Finding { class: if acc { "accepted-header".into() } else { "rejected-header".into() }, key, detail: format!("mutant of {} ({}; clang {}): {}", m.origin, m.op, if acc { "accepts" } else { "rejects" }, out.chars().take(400).collect::<String>()), input: input() });
            }
        } else if acc && out.starts_with("err") {
            // accepted => Ok is violated unless bindgen's own libclang run saw an error the CLI did not
            accepted_err_examples.push(format!("{} ({}): {}", m.origin, m.op, out));
            if !findings.iter().any(|f| f.key == "accepted-but-error") {
                findings.push(Finding { class: "accepted-header".into(), key: "accepted-but-error".into(), detail: format!("clang -fsyntax-only accepts the mutant of {} ({}) but bindgen returned `{out}`", m.origin, m.op), input: input() });
            }
        } else if !acc && out.starts_with("ok") {
            if !findings.iter().any(|f| f.key == "rejected-but-ok") {
                findings.push(Finding { class: "rejected-header".into(), key: "rejected-but-ok".into(), detail: format!("clang -fsyntax-only rejects the mutant of {} ({}): {first} — but bindgen produced bindings", m.origin, m.op), input: input() });
            }
        } else if !acc && out.starts_with("err") && !out.starts_with("err ClangDiagnostic") {
            if !findings.iter().any(|f| f.key == "rejected-wrong-error") {
                findings.push(Finding { class: "rejected-header".into(), key: "rejected-wrong-error".into(), detail: format!("rejected mutant of {} gives `{out}` instead of ClangDiagnostic", m.origin), input: input() });
            }
        }
    }
    samples.push(format!("mutants: {} ({} operators {:?}); clang verdict / bindgen outcome table {:?}", mutants.len(), op_hist.len(), op_hist, table));

    // ================= Part B2: deep nesting =================
    let depths: Vec<usize> = if thorough { (1..=200).filter(|d| d % 7 == 1 || *d >= 190 || [64, 127, 128, 129, 255, 256].contains(d)).collect() } else { vec![1, 10, 50, 100, 200] };
    let shapes = ["struct", "anonstruct", "structdef", "pointer", "array", "fnptr", "template", "namespace", "inherit", "paren", "selfptr"];
    let ndir = work.path("nest");
    std::fs::create_dir_all(&ndir).unwrap();
    let mut njobs = vec![];
    let mut nmeta = vec![];
    for (si, sh) in shapes.iter().enumerate() {
        for &d in &depths {
            // named record definitions nested in record definitions: parse time doubles per
            // level (known finding nested_record_exponential_parse); beyond depth 22 only the
            // single probe below is run
            if *sh == "struct" && d > 22 { continue; }
            let (text, cpp) = cgen::nested(sh, d);
            let p = ndir.join(format!("{sh}_{d}.{}", if cpp { "hpp" } else { "h" }));
            std::fs::write(&p, &text).unwrap();
            let id = 1_000_000 + si * 1000 + d;
            let mut flags = vec![p.to_string_lossy().into_owned(), "--formatter".to_owned(), "none".to_owned(), "--no-include-path-detection".to_owned()];
            if cpp { flags.extend(["--".to_owned(), "-std=c++14".to_owned()]); }
            njobs.push(Job { id, flags: flags.clone() });
            nmeta.push((id, sh.to_string(), d, p, cpp, flags));
        }
    }
    // probes that only wait run beside the nesting jobs
    let probe_thread = {
        let ndir = ndir.clone();
        let t_h = probe_h.clone();
        std::thread::spawn(move || {
            let (text, _) = cgen::nested("struct", 30);
            let p = ndir.join("struct_probe_30.h");
            std::fs::write(&p, &text).unwrap();
            let (v, _e) = cli_timeout(&[p.to_string_lossy().into_owned(), "--formatter".into(), "none".into(), "--no-include-path-detection".into()], 20, None);
            let (k5v, k5e) = cli_timeout(&[t_h.to_string_lossy().into_owned(), "--".into(), "-std=c99x".into()], 30, None);
            (v, k5v, k5e)
        })
    };
    let nres = run_jobs(&njobs, nworkers, &work.0, Duration::from_secs(60));
    evals += njobs.len();
    let mut nest_table: BTreeMap<String, usize> = BTreeMap::new();
    let nacc: Vec<bool> = {
        let nn = AtomicUsize::new(0);
        let out: Mutex<Vec<(usize, bool)>> = Mutex::new(vec![]);
        std::thread::scope(|s| {
            for _ in 0..nworkers {
                s.spawn(|| loop {
                    let i = nn.fetch_add(1, Ordering::SeqCst);
                    if i >= nmeta.len() { break; }
                    let (acc, _f) = clang_accepts(&nmeta[i].3, &if nmeta[i].4 { vec!["-std=c++14".to_owned()] } else { vec![] });
                    out.lock().unwrap().push((i, acc));
                });
            }
        });
        let mut v = out.into_inner().unwrap();
        v.sort();
        v.into_iter().map(|x| x.1).collect()
    };
    for (ni, (id, sh, d, _p, _cpp, flags)) in nmeta.iter().enumerate() {
        let out = nres.get(id).cloned().unwrap_or_else(|| "not-run".into());
        let acc = nacc[ni];
        let kind = out.split(' ').take(if out.starts_with("err") { 2 } else { 1 }).collect::<Vec<_>>().join(" ");
        *nest_table.entry(format!("{sh}: {} / {kind}", if acc { "accepted" } else { "rejected" })).or_insert(0) += 1;
        let bad = out.starts_with("panic") || out.starts_with("abort") || out == "timeout" || out == "not-run" || (acc && out.starts_with("err")) || (!acc && out.starts_with("ok"));
        if bad {
            let key = if out.starts_with("panic") { norm_panic(&out) } else { format!("nesting-{sh}-{}", out.split(' ').next().unwrap_or("")) };
            if !findings.iter().any(|f| f.key == key) {
                findings.push(Finding { class: "deep-nesting".into(), key, detail: format!("nesting shape {sh} depth {d} (clang {}): {}", if acc { "accepts" } else { "rejects" }, out.chars().take(300).collect::<String>()),
                    input: format!("{{\"mode\":\"nesting\",\"shape\":{},\"depth\":{d},\"flags\":[{}]}}", json_str(sh), flags[1..].iter().map(|s| json_str(s)).collect::<Vec<_>>().join(",")) });
            }
        }
    }
    // probe of the known exponential region: depth 30 of named nested records, 20 s budget
    let (nested_record_probe, k5_probe, k5_probe_e) = probe_thread.join().unwrap();
    evals += 2;
    let k5_probe_known = k5_probe == "panic" && k5_probe_e.contains("libclang error");
    // a few of the deepest through the CLI under a timeout (stack overflow / abort observation point)
    let mut cli_nest: BTreeMap<String, usize> = BTreeMap::new();
    let deepest: Vec<&(usize, String, usize, PathBuf, bool, Vec<String>)> = nmeta.iter().filter(|m| m.2 == *depths.last().unwrap() && m.1 != "struct").collect();
    let dn = AtomicUsize::new(0);
    let dres: Mutex<Vec<(usize, String, String)>> = Mutex::new(vec![]);
    std::thread::scope(|s| {
        for _ in 0..nworkers.min(6) {
            s.spawn(|| loop {
                let i = dn.fetch_add(1, Ordering::SeqCst);
                if i >= deepest.len() { break; }
                let (v, e) = cli_timeout(&deepest[i].5, 60, None);
                dres.lock().unwrap().push((i, v, e));
            });
        }
    });
    evals += deepest.len();
    for (i, v, e) in dres.into_inner().unwrap() {
        let (_, sh, d, _p, _cpp, _flags) = deepest[i];
        *cli_nest.entry(v.clone()).or_insert(0) += 1;
        if v == "panic" || v == "timeout" || v.starts_with("signal") {
            let key = format!("cli-nesting-{sh}-{v}");
            if !findings.iter().any(|f| f.key == key) { findings.push(Finding { class: "deep-nesting".into(), key, detail: format!("CLI on nesting shape {sh} depth {d}: {v} [{e}]"), input: format!("{{\"mode\":\"nesting\",\"shape\":{},\"depth\":{d},\"flags\":[]}}", json_str(sh)) }); }
        }
    }
    samples.push(format!("deep nesting: shapes {:?} x depths {:?}: {:?}; deepest through the CLI: {:?}", shapes, depths, nest_table, cli_nest));
    phase_t.push(("nesting".into(), t0.elapsed().as_secs_f64()));

    // ================= Part B3: option sets from the whole flag space (CLI, timeout) =================
    let (_rc, help, _e) = drive::cli(&["--help".to_owned()], &[], None);
    let excluded = ["--represent-cxx-operators", "--use-distinct-char16-t", "--help", "--version", "--verbose", "--dump-preprocessed-input", "--emit-clang-ast", "--emit-ir",
        "--emit-ir-graphviz", "--generate-shell-completions", "--output", "--depfile", "--emit-diagnostics", "--wrap-static-fns-path", "--rustfmt-configuration-file", "--experimental"];
    let mut flagspace: Vec<(String, Option<String>)> = vec![]; // (flag, value placeholder)
    for l in help.lines() {
        let t = l.trim_start();
        if !t.starts_with("--") && !t.starts_with("-") { continue; }
        if let Some(pos) = t.find("--") {
            let rest = &t[pos..];
            let flag: String = rest.chars().take_while(|c| !c.is_whitespace() && *c != '=').collect();
            if flag.len() < 3 || excluded.contains(&flag.as_str()) { continue; }
            let val = rest[flag.len()..].trim().split_whitespace().next().filter(|v| v.starts_with('<')).map(|v| v.trim_matches(|c| c == '<' || c == '>' || c == '.').to_owned());
            if !flagspace.iter().any(|f| f.0 == flag) { flagspace.push((flag, val)); }
        }
    }
    let value_for = |r: &mut Rng, flag: &str, meta: &str| -> String {
        let m = meta.to_ascii_uppercase();
        if flag == "--rust-target" { return (*r.pick(&["1.51", "1.64", "1.77", "1.82", "nightly", "1.85.0-beta.1", "1.60-nightly"])).to_owned(); }
        if flag == "--rust-edition" { return (*r.pick(&["2018", "2021", "2024"])).to_owned(); }
        if flag == "--formatter" { return (*r.pick(&["none", "prettyplease", "rustfmt"])).to_owned(); }
        if flag == "--default-enum-style" { return (*r.pick(&["consts", "moduleconsts", "bitfield", "newtype", "rust", "rust_non_exhaustive", "newtype_global"])).to_owned(); }
        if flag == "--default-alias-style" { return (*r.pick(&["type_alias", "new_type", "new_type_deref"])).to_owned(); }
        if flag == "--default-macro-constant-type" { return (*r.pick(&["signed", "unsigned"])).to_owned(); }
        if flag == "--default-non-copy-union-style" { return (*r.pick(&["bindgen_wrapper", "manually_drop"])).to_owned(); }
        if flag == "--default-visibility" { return (*r.pick(&["private", "crate", "public"])).to_owned(); }
        if flag == "--ctypes-prefix" { return (*r.pick(&["::core::ffi", "libc", "::std::os::raw"])).to_owned(); }
        if flag == "--dynamic-loading" { return (*r.pick(&["Lib", "my_lib"])).to_owned(); }
        if flag == "--extern-fn-block-attrs" { return "#[allow(dead_code)]".into(); }
        if flag == "--anon-fields-prefix" { return (*r.pick(&["anon_", "__a"])).to_owned(); }
        if flag == "--wrap-static-fns-suffix" { return "_w".into(); }
        if flag == "--override-abi" { return (*r.pick(&["fn.*=system", "fn1=C-unwind", ".*=C"])).to_owned(); }
        if flag == "--generate" { return (*r.pick(&["types", "functions,vars", "types,functions,vars,methods,constructors,destructors"])).to_owned(); }
        if flag == "--with-derive-custom" || flag.starts_with("--with-derive-custom-") { return "S.*=Clone".into(); }
        if flag == "--with-attribute-custom" || flag.starts_with("--with-attribute-custom-") { return "S.*=#[allow(dead_code)]".into(); }
        if flag == "--field-type-name-regex" || m.contains("REGEX") || m.contains("PATTERN") { return (*r.pick(&[".*", "S.*", "fn1", "E[0-9]+", "T.*|U.*", "(", "[a-", "S1$"])).to_owned(); }
        if flag == "--module-raw-line" { return "root".into(); }
        if m.contains("PATH") || m.contains("FILE") { return "/nonexistent/path".into(); }
        if m.contains("PREFIX") || m.contains("SUFFIX") || m.contains("NAME") { return (*r.pick(&["x_", "__", "Lib"])).to_owned(); }
        (*r.pick(&["x", "1", ".*", "S1=Foo", "crate"])).to_owned()
    };
    let optprogs: Vec<(PathBuf, Vec<String>)> = (0..8).map(|i| { let p = &progs[i % progs.len()]; let path = work.path(&format!("opt{i}.{}", p.ext())); std::fs::write(&path, p.text()).unwrap(); (path, p.clang_args()) }).collect();
    let mut optsets: Vec<(usize, Vec<String>)> = vec![];
    for i in 0..n_optsets {
        let (h, clang) = r.pick(&optprogs).clone();
        let mut args = vec![h.to_string_lossy().into_owned()];
        if !r.chance(1, 6) { args.extend(["--formatter".to_owned(), "none".to_owned()]); }
        let n = if flagspace.is_empty() { 0 } else { r.range(1, 9) };
        for _ in 0..n {
            let (f, v) = r.pick(&flagspace).clone();
            if f == "--formatter" && args.iter().any(|a| a == "--formatter") { continue; }
            args.push(f.clone());
            if let Some(meta) = v {
                args.push(value_for(&mut r, &f, &meta));
                if f == "--module-raw-line" { args.push("pub const RAW: i32 = 1;".into()); }
            }
        }
        args.push("--no-include-path-detection".into());
        args.push("--".into()); args.extend(clang);
        optsets.push((i, args));
    }
    let onext = AtomicUsize::new(0);
    let ores: Mutex<Vec<(usize, String, String)>> = Mutex::new(vec![]);
    std::thread::scope(|s| {
        for _ in 0..nworkers {
            s.spawn(|| loop {
                let i = onext.fetch_add(1, Ordering::SeqCst);
                if i >= optsets.len() { break; }
                let (v, e) = cli_timeout(&optsets[i].1, 60, Some(&work.0));
                ores.lock().unwrap().push((i, v, e));
            });
        }
    });
    evals += optsets.len();
    let mut opt_table: BTreeMap<String, usize> = BTreeMap::new();
    let mut k4_hits = 0usize;
    let mut k7_hits = 0usize;
    let mut k4_example = String::new();
    let mut flags_exercised = std::collections::BTreeSet::new();
    for (i, v, e) in ores.into_inner().unwrap() {
        *opt_table.entry(v.split(' ').next().unwrap_or("").to_owned()).or_insert(0) += 1;
        if v != "clap-reject" { for a in &optsets[i].1 { if a.starts_with("--") && a.len() > 2 { flags_exercised.insert(a.clone()); } } }
        let args_i = &optsets[i].1;
        let k4 = v == "panic" && e.contains("struct_layout.rs") && e.contains("subtract with overflow")
            && args_i.iter().any(|a| a == "--explicit-padding")
            && std::fs::read_to_string(&args_i[0]).map_or(false, |t| t.contains("union"));
        let k7 = v == "panic" && e.contains("fields.is_empty()") && args_i.iter().any(|a| a == "--opaque-type");
        let k6o = v == "panic" && e.contains("Non floating-type complex?");
        if k4 {
            k4_hits += 1;
            if k4_example.is_empty() { k4_example = format!("{:?}", &args_i[1..]); }
        } else if k7 {
            k7_hits += 1;
        } else if k6o {
            k6_hits += 1;
        } else if v == "panic" || v == "timeout" || v.starts_with("signal") {
            let key = if v == "panic" { format!("cli-panic: {}", e.split("panicked at").nth(1).unwrap_or(&e).chars().map(|c| if c.is_ascii_digit() { '#' } else { c }).take(100).collect::<String>()) } else { format!("cli-options-{v}") };
            if !findings.iter().any(|f| f.key == key) {
                findings.push(Finding { class: "option-set".into(), key, detail: format!("CLI with option set {:?}: {v} [{e}]", &optsets[i].1[1..]), input: format!("{{\"mode\":\"options\",\"header_text\":{},\"args\":[{}]}}", json_str(&std::fs::read_to_string(&optsets[i].1[0]).unwrap_or_default()), optsets[i].1[1..].iter().map(|s| json_str(s)).collect::<Vec<_>>().join(",")) });
            }
        }
    }
    // probes of the known findings of the option layer
    let pk = work.path("known_probe.h");
    std::fs::write(&pk, "struct S1 { int a; struct { int x; } b; };\nunion U { int a; int b : 9; };\nstatic inline int sfn1(int a) { return a; }\nint fn1(int);\n").unwrap();
    let mut k3_panics: Vec<String> = vec![];
    let mut k3_table: Vec<String> = vec![];
    for (flag, val, extra) in GARBAGE_TOKEN_OPTIONS {
        let mut args = vec![pk.to_string_lossy().into_owned(), "--formatter".to_owned(), "none".to_owned(), "--no-include-path-detection".to_owned()];
        args.extend(extra.iter().map(|s| s.to_string()));
        args.push(flag.to_string()); args.push(val.to_string());
        if *flag == "--module-raw-line" { args.push("this is ( not rust".into()); }
        let (v, e) = cli_timeout(&args, 30, Some(&work.0));
        evals += 1;
        k3_table.push(format!("{flag} {val:?}: {v}"));
        if v == "panic" { k3_panics.push(format!("{flag} {val:?} [{}]", e.split("panicked at").nth(1).unwrap_or("").trim().chars().take(60).collect::<String>())); }
        if v == "timeout" || v.starts_with("signal") {
            findings.push(Finding { class: "option-set".into(), key: format!("garbage-{flag}-{v}"), detail: format!("{flag} {val:?}: {v} [{e}]"), input: format!("{{\"mode\":\"options\",\"header_text\":{},\"args\":[{}]}}", json_str(&std::fs::read_to_string(&pk).unwrap_or_default()), args[1..].iter().map(|s| json_str(s)).collect::<Vec<_>>().join(",")) });
        }
    }
    let (k4_probe, k4_e) = cli_timeout(&[pk.to_string_lossy().into_owned(), "--formatter".into(), "none".into(), "--no-include-path-detection".into(), "--explicit-padding".into(), "--disable-untagged-union".into()], 30, Some(&work.0));
    evals += 1;
    let k4_probe_known = k4_probe == "panic" && k4_e.contains("struct_layout.rs") && k4_e.contains("subtract with overflow");
    if k4_probe == "panic" && !k4_probe_known {
        findings.push(Finding { class: "option-set".into(), key: "explicit-padding-probe-other-panic".into(), detail: k4_e.clone(), input: "{\"mode\":\"options\",\"header_text\":\"union U { int a; int b : 9; };\",\"args\":[\"--explicit-padding\",\"--disable-untagged-union\"]}".into() });
    }
    let pc = work.path("complex_probe.h");
    std::fs::write(&pc, "_Complex int x;\n").unwrap();
    let (k6_probe, k6_e) = cli_timeout(&[pc.to_string_lossy().into_owned(), "--formatter".into(), "none".into(), "--no-include-path-detection".into()], 30, Some(&work.0));
    let k6_probe_known = (k6_probe == "panic" || k6_probe.starts_with("signal")) && k6_e.contains("Non floating-type complex?");
    let po = work.path("opaque_probe.hpp");
    std::fs::write(&po, "struct S5 {\n};\nclass C7 : public S5 {\n};\nnamespace ns25 {\ntemplate <typename T, typename U> struct Tp29 { T a; U b[4]; Tp29<U, T> *o; };\nstruct __attribute__((packed)) S30 {\n};\n}\n").unwrap();
    let (k7_probe, k7_e) = cli_timeout(&[po.to_string_lossy().into_owned(), "--formatter".into(), "none".into(), "--no-include-path-detection".into(), "--opaque-type".into(), ".*".into(), "--no-recursive-allowlist".into(), "--".into(), "-x".into(), "c++".into(), "-std=c++14".into()], 30, Some(&work.0));
    let k7_probe_known = k7_probe == "panic" && k7_e.contains("fields.is_empty()");
    evals += 2;
    samples.push(format!("garbage values for token-spliced options: {:?}", k3_table));
    samples.push(format!("option sets: {} sets over a flag space of {} flags parsed from --help ({} exercised in accepted command lines); verdicts {:?}", optsets.len(), flagspace.len(), flags_exercised.len(), opt_table));
    phase_t.push(("options".into(), t0.elapsed().as_secs_f64()));

    // ================= report =================
    let fj = |v: &Vec<Finding>| v.iter().map(|f| format!("{{\"class\":{},\"key\":{},\"detail\":{},\"input\":{}}}", json_str(&f.class), json_str(&f.key), json_str(&f.detail), f.input)).collect::<Vec<_>>().join(",");
    let mut j = String::from("{\n");
    let kv = |j: &mut String, k: &str, v: String| { j.push_str(&format!(" {}: {},\n", json_str(k), v)); };
    kv(&mut j, "tier", json_str(&a.tier));
    kv(&mut j, "seed", a.seed.to_string());
    kv(&mut j, "evaluations", evals.to_string());
    kv(&mut j, "distinct_nontrivial", distinct_shapes.len().to_string());
    kv(&mut j, "from_str_strings", targets.len().to_string());
    kv(&mut j, "from_str_known_region_hits", rt_known.to_string());
    kv(&mut j, "from_str_known_region_sample", json_str(&rt_known_sample));
    kv(&mut j, "cli_rust_target_1_0_nightly", json_str(&format!("{cli_v} [{cli_e}]")));
    kv(&mut j, "root_can_read_mode_000", root_reads_000.to_string());
    kv(&mut j, "fs_outcomes", format!("{{{}}}", fs_hist.iter().map(|(k, v)| format!("{}:{}", json_str(k), v)).collect::<Vec<_>>().join(",")));
    kv(&mut j, "mutants", mutants.len().to_string());
    kv(&mut j, "mutant_operators", format!("{{{}}}", op_hist.iter().map(|(k, v)| format!("{}:{}", json_str(k), v)).collect::<Vec<_>>().join(",")));
    kv(&mut j, "mutant_table", format!("{{{}}}", table.iter().map(|(k, v)| format!("{}:{}", json_str(k), v)).collect::<Vec<_>>().join(",")));
    kv(&mut j, "accepted_but_error_examples", format!("[{}]", accepted_err_examples.iter().take(8).map(|s| json_str(s)).collect::<Vec<_>>().join(",")));
    kv(&mut j, "nesting_table", format!("{{{}}}", nest_table.iter().map(|(k, v)| format!("{}:{}", json_str(k), v)).collect::<Vec<_>>().join(",")));
    kv(&mut j, "nested_record_probe_depth30_20s", json_str(&nested_record_probe));
    kv(&mut j, "known_libclang_null_tu", format!("{{\"probe\":{},\"probe_in_region\":{},\"mutant_hits\":{}}}", json_str(&k5_probe), k5_probe_known, k5_hits));
    kv(&mut j, "known_macro_div_zero", format!("{{\"hits\":{k8_hits}}}"));
    kv(&mut j, "known_integer_complex", format!("{{\"probe\":{},\"probe_in_region\":{},\"hits\":{},\"of_which_process_aborts\":{}}}", json_str(&k6_probe), k6_probe_known, k6_hits, k6_aborts));
    kv(&mut j, "known_opaque_debug_assert", format!("{{\"probe\":{},\"probe_in_region\":{},\"random_option_set_hits\":{}}}", json_str(&k7_probe), k7_probe_known, k7_hits));
    kv(&mut j, "known_token_option_panics", format!("[{}]", k3_panics.iter().map(|s| json_str(s)).collect::<Vec<_>>().join(",")));
    kv(&mut j, "known_explicit_padding_union", format!("{{\"probe\":{},\"probe_in_region\":{},\"random_option_set_hits\":{},\"example\":{}}}", json_str(&k4_probe), k4_probe_known, k4_hits, json_str(&k4_example)));
    kv(&mut j, "option_sets", optsets.len().to_string());
    kv(&mut j, "flag_space", flagspace.len().to_string());
    kv(&mut j, "flags_exercised", flags_exercised.len().to_string());
    kv(&mut j, "option_verdicts", format!("{{{}}}", opt_table.iter().map(|(k, v)| format!("{}:{}", json_str(k), v)).collect::<Vec<_>>().join(",")));
    kv(&mut j, "workers", nworkers.to_string());
    kv(&mut j, "phase_end_s", format!("{{{}}}", phase_t.iter().map(|(k, v)| format!("{}:{:.1}", json_str(k), v)).collect::<Vec<_>>().join(",")));
    kv(&mut j, "samples", format!("[{}]", samples.iter().map(|s| json_str(s)).collect::<Vec<_>>().join(",")));
    kv(&mut j, "correspondence_failures", format!("[{}]", fj(&corr_fail)));
    j.push_str(&format!(" \"findings\": [{}]\n}}\n", fj(&findings)));
    util::write(&a.out.join("report.json"), &j);
    println!("c12: evaluations={evals} findings={} correspondence_failures={} wall={:.1}s", findings.len(), corr_fail.len(), t0.elapsed().as_secs_f64());
}

/// `--replay-case HEADER FLAGS(\x1f-joined, without the header)`: in a worker (in-process) and through the CLI
fn replay(a: &Args) {
    let e = &a.extra;
    let mut flags = vec![e[1].clone()];
    if e.len() > 2 && !e[2].is_empty() { flags.extend(e[2].split('\x1f').map(|s| s.to_owned())); }
    let w = Scratch::new("c12replay");
    let res = run_jobs(&[Job { id: 0, flags: flags.clone() }], 1, &w.0, Duration::from_secs(120));
    println!("in-process (worker): {}", res.get(&0).cloned().unwrap_or_else(|| "not-run".into()));
    let (v, ex) = cli_timeout(&flags, 120, None);
    println!("cli: {v} [{ex}]");
    let clang: Vec<String> = flags.iter().skip_while(|f| *f != "--").skip(1).cloned().collect();
    let (acc, first) = clang_accepts(Path::new(&e[1]), &clang);
    println!("clang -fsyntax-only: {} {first}", if acc { "accepts" } else { "rejects" });
}
