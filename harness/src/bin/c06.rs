//! C06 — embedded layout assertions are complete and state the C compiler's numbers.
//!
//! Per generated header × target × (rust target on either side of `offset_of`, namespaces on/off):
//!   real bindgen (`-- --target=T`, IR dump) → syn inventory of the assertion items
//!   (a) correspondence: exact equality with the model's `compAsserts` / `instAsserts` computed from
//!       the IR dump (form, test-fn name, size, alignment, one offset per named data member, order);
//!   (b) oracle: every asserted number vs `clang --target=T -S -emit-llvm` of a constant table of
//!       sizeof/_Alignof/offsetof for the same header;
//!   (c) `--no-layout-tests`: no assertion item, remaining items token-identical.
use std::collections::{BTreeMap, BTreeSet};
use std::fmt::Write as _;

use bgverif::cgraph::{self as cgen, GenCfg, MemberKind, Program};
use bgverif::drive::{self, Scratch};
use bgverif::inventory::{Assert, Inventory};
use bgverif::irdump;
use bgverif::irlayout::{Ir, IrComp};
use bgverif::probe;
use bgverif::rng::Rng;
use bgverif::util::{self, json_str, Args};

const TARGETS: &[&str] = &[
    "x86_64-unknown-linux-gnu", "i686-unknown-linux-gnu", "aarch64-unknown-linux-gnu", "armv7-unknown-linux-gnueabihf",
    "riscv64-unknown-linux-gnu", "x86_64-pc-windows-msvc", "i686-pc-windows-msvc", "wasm32-unknown-unknown",
];

/// (name, rust target flag, offset_of available, namespaces)
const CONFIGS: &[(&str, Option<&str>, bool, bool)] = &[
    ("const", None, true, false),
    ("testfn", Some("1.76"), false, false),
    ("const-ns", None, true, true),
    ("testfn-ns", Some("1.76"), false, true),
];

#[derive(Debug, Clone)]
struct Issue { class: String, target: String, config: String, comp: String, detail: String, header: String }

#[derive(Default)]
struct Stats {
    runs: u64, comps: u64, items_compared: u64, asserts_compared: u64, oracle_values: u64, nolayout_runs: u64,
    inst_items: u64, bindgen_errors: u64, distinct: BTreeSet<String>, by_target: BTreeMap<String, u64>, by_form: BTreeMap<String, u64>,
    none_reasons: BTreeMap<String, u64>, samples: Vec<String>,
}

fn flags_for(cfg: &(&str, Option<&str>, bool, bool), extra: &[&str]) -> Vec<String> {
    let mut f: Vec<String> = vec![];
    if let Some(t) = cfg.1 { f.push("--rust-target".into()); f.push(t.into()); }
    if cfg.3 { f.push("--enable-cxx-namespaces".into()); }
    f.extend(extra.iter().map(|s| s.to_string()));
    f
}

struct Run { ir: Ir, inv: Inventory, raw: Vec<irdump::Record>, raw_lines: Vec<String> }

fn run_bindgen(scratch: &Scratch, name: &str, text: &str, flags: &[String], clang: &[String]) -> Result<Run, String> {
    let f: Vec<&str> = flags.iter().map(|s| s.as_str()).collect();
    let c: Vec<&str> = clang.iter().map(|s| s.as_str()).collect();
    let out = drive::generate_text(scratch, name, text, &f, &c, true);
    let b = out.bindings.ok_or_else(|| format!("error={:?} panic={:?}", out.error, out.panic))?;
    let log = irdump::parse_log(out.log.as_deref().unwrap_or(""));
    let recs = log.dumps.last().cloned().ok_or("no IR dump")?;
    let ir = Ir::from_dump(&recs);
    let inv = Inventory::parse(&b)?;
    let raw_lines = log.raw_ir_lines.last().cloned().unwrap_or_default();
    Ok(Run { ir, inv, raw: recs, raw_lines })
}

fn comp_request(c: &IrComp, tests: bool, offset_of: bool) -> String {
    let fields: Vec<String> = c.fields.iter().map(|f| if f.is_unit { "u".to_string() } else {
        format!("d:{}:{}", f.name.is_some() as u8, f.off_bits.map_or("-".to_string(), |o| o.to_string())) }).collect();
    format!("lt comp tests={} offsetof={} nontype={} notp={} fwd={} opaque={} layout={} fields={}", tests as u8, offset_of as u8,
        c.nontype_tparams as u8, c.all_tparams_empty as u8, c.fwd as u8, c.opaque as u8,
        c.layout.map_or("-".to_string(), |(s, a)| format!("{s},{a}")), if fields.is_empty() { "-".to_string() } else { fields.join(";") })
}

/// expected assertion list of a record, from the model's answer
fn expected_from_answer(c: &IrComp, ans: &str) -> Option<Option<(String, Vec<Assert>)>> {
    if ans == "none" { return Some(None); }
    let t: Vec<&str> = ans.split(' ').collect();
    if t.len() != 5 { return None; }
    let form = if t[0] == "const" { "const".to_string() } else { format!("test:bindgen_test_layout_{}", c.rust_name) };
    let mut v = vec![];
    let mut offs: Vec<(usize, u64)> = vec![];
    if t[3] != "-" { for x in t[3].split(',') { let (i, o) = x.split_once(':')?; offs.push((i.parse().ok()?, o.parse().ok()?)); } }
    let mut oi = 0;
    for ch in t[4].chars() {
        match ch {
            's' => v.push(Assert { kind: "size".into(), ty: c.rust_name.clone(), field: String::new(), value: t[1].parse().ok()?, form: form.clone() }),
            'a' => v.push(Assert { kind: "align".into(), ty: c.rust_name.clone(), field: String::new(), value: t[2].parse().ok()?, form: form.clone() }),
            'o' => { let (i, o) = offs.get(oi)?; oi += 1;
                let name = c.fields.iter().find(|f| f.idx == *i).and_then(|f| f.name.clone())?;
                v.push(Assert { kind: "offset".into(), ty: c.rust_name.clone(), field: name, value: *o, form: form.clone() }); }
            _ => return None,
        }
    }
    Some(Some((form, v)))
}

struct RecInfo { c_type: String, members: Vec<String> }

fn rec_infos(prog: &Program) -> BTreeMap<String, RecInfo> {
    let mut m = BTreeMap::new();
    for r in prog.records() {
        let members = r.members.iter().filter(|x| matches!(x.kind, MemberKind::Plain(_) | MemberKind::Flex(_))).map(|x| x.name.clone()).collect();
        m.insert(r.rust_name(), RecInfo { c_type: r.c_type(), members });
    }
    m
}

#[allow(clippy::too_many_arguments)]
fn check_c_header(scratch: &Scratch, tag: &str, text: &str, prog: &Program, targets: &[&str], configs: &[usize], stats: &mut Stats, issues: &mut Vec<Issue>) {
    check_c_header_inner(scratch, tag, text, prog, targets, configs, stats, issues);
    std::env::remove_var("TARGET");
}

#[allow(clippy::too_many_arguments)]
fn check_c_header_inner(scratch: &Scratch, tag: &str, text: &str, prog: &Program, targets: &[&str], configs: &[usize], stats: &mut Stats, issues: &mut Vec<Issue>) {
    let infos = rec_infos(prog);
    let hname = format!("{tag}.h");
    for t in targets {
        // `env:<triple>`: the target reaches bindgen the way a build script passes it — the `TARGET` environment variable, no
        // `--target` among the clang arguments
        let via_env = t.starts_with("env:");
        let t: &str = t.strip_prefix("env:").unwrap_or(t);
        let clang = if via_env { vec![] } else { vec![format!("--target={t}")] };
        if via_env { std::env::set_var("TARGET", t); *stats.by_form.entry("target-from-env-runs".into()).or_insert(0) += 1; } else { std::env::remove_var("TARGET"); }
        // oracle numbers for this target, once
        let mut exprs = vec![]; let mut keys: Vec<(String, String, String)> = vec![];
        for (rn, info) in &infos {
            exprs.push(format!("sizeof({})", info.c_type)); keys.push(("size".into(), rn.clone(), String::new()));
            exprs.push(format!("_Alignof({})", info.c_type)); keys.push(("align".into(), rn.clone(), String::new()));
            for m in &info.members { exprs.push(format!("__builtin_offsetof({}, {m})", info.c_type)); keys.push(("offset".into(), rn.clone(), m.clone())); }
        }
        std::fs::write(scratch.path(&hname), text).unwrap();
        let oracle: BTreeMap<(String, String, String), u64> = match probe::clang_table(scratch, &format!("{tag}_{}", t.replace('-', "_")), &scratch.path(&hname), Some(t), false, &exprs) {
            Ok(v) => keys.iter().cloned().zip(v).collect(),
            Err(e) => { issues.push(Issue { class: "machinery".into(), target: t.to_string(), config: String::new(), comp: String::new(), detail: format!("clang table: {e}"), header: text.into() }); BTreeMap::new() }
        };
        for &ci in configs {
            let cfg = &CONFIGS[ci];
            stats.runs += 1;
            *stats.by_target.entry(t.to_string()).or_default() += 1;
            // the namespace configurations also make one record opaque (offset assertions must vanish)
            let opaque_name: Option<String> = if cfg.3 { infos.keys().nth(infos.len() / 2).cloned() } else { None };
            let mut extra: Vec<&str> = vec![];
            if let Some(n) = &opaque_name { extra.push("--opaque-type"); extra.push(n.as_str()); }
            let run = match run_bindgen(scratch, &hname, text, &flags_for(cfg, &extra), &clang) {
                Ok(r) => r,
                Err(e) => { stats.bindgen_errors += 1; issues.push(Issue { class: "bindgen-failed".into(), target: t.to_string(), config: cfg.0.into(), comp: String::new(), detail: e, header: text.into() }); continue; }
            };
            let mk = |class: &str, comp: &str, detail: String| Issue { class: class.into(), target: t.to_string(), config: cfg.0.into(), comp: comp.into(), detail, header: text.into() };
            if let Some(n) = &opaque_name { if run.ir.comps.iter().any(|c| &c.rust_name == n && c.opaque) { *stats.none_reasons.entry("opaque-record-checked".into()).or_default() += 1; } }
            // (a) model vs real assertion items
            let comps: Vec<&IrComp> = run.ir.comps.iter().filter(|c| c.codegen).collect();
            let reqs: Vec<String> = comps.iter().map(|c| comp_request(c, true, cfg.2)).collect();
            let answers = if reqs.is_empty() { vec![] } else { util::model(&reqs) };
            let mut real: BTreeMap<String, Vec<Vec<Assert>>> = BTreeMap::new();
            for it in &run.inv.assert_items { real.entry(it[0].ty.clone()).or_default().push(it.clone()); }
            let mut expected_names = BTreeSet::new();
            for ((c, req), ans) in comps.iter().zip(reqs.iter()).zip(answers.iter()) {
                stats.comps += 1;
                stats.distinct.insert(req.clone());
                let exp = match expected_from_answer(c, ans) { Some(e) => e, None => { issues.push(mk("machinery", &c.rust_name, format!("model answer {ans} for {req}"))); continue; } };
                let got = real.get(&c.rust_name);
                match (&exp, got) {
                    (None, None) => {
                        let why = if c.fwd { "forward-declaration" } else if !c.all_tparams_empty { "template" } else if c.layout.is_none() { "no-layout" } else { "other" };
                        *stats.none_reasons.entry(why.into()).or_default() += 1;
                    }
                    (Some((form, e)), Some(g)) if g.len() == 1 && &g[0] == e => {
                        expected_names.insert(c.rust_name.clone());
                        stats.items_compared += 1; stats.asserts_compared += e.len() as u64;
                        *stats.by_form.entry(if form == "const" { "const".into() } else { "test-fn".to_string() }).or_default() += 1;
                        if stats.samples.len() < 3 && e.len() >= 4 && t != "x86_64-unknown-linux-gnu" {
                            stats.samples.push(format!("{{\"target\":{},\"config\":{},\"request\":{},\"model\":{},\"real\":{}}}", json_str(t), json_str(cfg.0), json_str(req), json_str(ans), json_str(&format!("{:?}", g[0].iter().map(|a| (a.kind.as_str(), a.field.as_str(), a.value)).collect::<Vec<_>>()))));
                        }
                    }
                    _ => issues.push(mk("correspondence", &c.rust_name, format!("assertion item: model {exp:?} real {got:?} | request {req}"))),
                }
            }
            for (n, _) in real.iter().filter(|(n, _)| !expected_names.contains(*n) && !comps.iter().any(|c| &c.rust_name == *n)) {
                issues.push(mk("correspondence", n, "assertion item in the bindings for a type that is no record of the IR".into()));
            }
            // (b) asserted numbers vs the C compiler for this target
            for it in &run.inv.assert_items {
                for a in it {
                    if let Some(want) = oracle.get(&(a.kind.clone(), a.ty.clone(), a.field.clone())) {
                        stats.oracle_values += 1;
                        if *want != a.value {
                            issues.push(mk("oracle", &a.ty, format!("asserted {} of {}{} = {}, clang --target={t} computes {want}", a.kind, a.ty, if a.field.is_empty() { String::new() } else { format!("::{}", a.field) }, a.value)));
                        }
                    }
                }
            }
            // completeness against the generator's own knowledge: every defined top-level record has its size/align/offset assertions
            for (rn, info) in &infos {
                let items = real.get(rn);
                let has = |kind: &str, field: &str| items.map_or(false, |v| v.iter().any(|it| it.iter().any(|a| a.kind == kind && a.field == field)));
                if !has("size", "") || !has("align", "") { issues.push(mk("oracle", rn, "no size/alignment assertion for a defined record".into())); }
                let opaque = comps.iter().any(|c| &c.rust_name == rn && c.opaque);
                if !opaque { for m in &info.members { if !has("offset", m) { issues.push(mk("oracle", rn, format!("no offset assertion for named member {m}"))); } } }
            }
            // (c) --no-layout-tests
            if ci == configs[0] || stats.nolayout_runs % 3 == 0 {
                stats.nolayout_runs += 1;
                let mut extra2 = extra.clone(); extra2.push("--no-layout-tests");
                match run_bindgen(scratch, &hname, text, &flags_for(cfg, &extra2), &clang) {
                    Err(e) => issues.push(mk("bindgen-failed", "", format!("--no-layout-tests: {e}"))),
                    Ok(r2) => {
                        if !r2.inv.assert_items.is_empty() { issues.push(mk("oracle", "", format!("--no-layout-tests still emits {} assertion items", r2.inv.assert_items.len()))); }
                        if r2.inv.other_items != run.inv.other_items {
                            let i = r2.inv.other_items.iter().zip(run.inv.other_items.iter()).position(|(a, b)| a != b).unwrap_or(usize::MAX);
                            issues.push(mk("oracle", "", format!("--no-layout-tests changes items other than assertions (first difference at item {i}; {} vs {} items)", r2.inv.other_items.len(), run.inv.other_items.len())));
                        }
                        let reqs2: Vec<String> = r2.ir.comps.iter().filter(|c| c.codegen).map(|c| comp_request(c, false, cfg.2)).collect();
                        if !reqs2.is_empty() && util::model(&reqs2).iter().any(|a| a != "none") { issues.push(mk("correspondence", "", "model emits assertions with layout tests off".into())); }
                    }
                }
            }
            let _ = &run.raw;
        }
    }
}

// ---------------------------------------------------------------- C++ template instantiations

const TARGS: &[&str] = &["int", "double", "char", "long", "short", "float"];

fn mangle_arg(a: &str) -> String { a.replace(' ', "_") }

/// generated C++ header: templates, uses; returns (text, [(C++ spelling, bindgen's disambiguated name)])
fn gen_templates(rng: &mut Rng) -> (String, Vec<(String, String, String)>) {
    let mut text = String::from("template<typename T> struct Box { T v; int n; };\ntemplate<typename T, typename U> struct Pair { T a; U b; char c; };\ntemplate<typename T> struct Wrap { T *p; T arr[3]; };\ntemplate<typename T> struct Unbound { Box<T> inner; };\n");
    let mut uses = vec![];
    // concrete instantiations declared inside a class template, next to dependent ones
    let nested = rng.below(3) != 0;
    // two records with the same name in different namespaces as arguments: distinct Rust types (with namespaces as modules),
    // one disambiguated instantiation name
    let twins = rng.below(2) == 0;
    if twins {
        let _ = writeln!(text, "namespace na {{ struct Addr {{ char c[{}]; }}; }}\nnamespace nb {{ struct Addr {{ long a[{}]; }}; }}", 1 + rng.below(7), 1 + rng.below(4));
    }
    if nested {
        let a = *rng.pick(TARGS); let b = *rng.pick(TARGS);
        let _ = writeln!(text, "template<typename T> struct Holder {{ Box<{a}> flags; Box<T> payload; T extra; Pair<{b}, {a}> both; }};");
        { let n = format!("Box_open0_{}_close0", mangle_arg(a)); uses.push((format!("Box<{a}>"), n.clone(), n)); }
        { let n = format!("Pair_open0_{}_{}_close0", mangle_arg(b), mangle_arg(a)); uses.push((format!("Pair<{b}, {a}>"), n.clone(), n)); }
    }
    let n = 2 + rng.below(6);
    text.push_str("struct Uses {\n");
    for i in 0..n {
        let a = *rng.pick(TARGS); let b = *rng.pick(TARGS);
        let (spell, name) = match rng.below(5) {
            0 => (format!("Box<{a}>"), format!("Box_open0_{}_close0", mangle_arg(a))),
            1 => (format!("Pair<{a}, {b}>"), format!("Pair_open0_{}_{}_close0", mangle_arg(a), mangle_arg(b))),
            2 => (format!("Wrap<{a}>"), format!("Wrap_open0_{}_close0", mangle_arg(a))),
            3 => (format!("Box<Box<{a}> >"), format!("Box_open0_Box_open1_{}_close1_close0", mangle_arg(a))),
            _ => (format!("Pair<Box<{a}>, {b}>"), format!("Pair_open0_Box_open1_{}_close1_{}_close0", mangle_arg(a), mangle_arg(b))),
        };
        let _ = writeln!(text, "  {spell} u{i};");
        uses.push((spell, name.clone(), name));
    }
    if nested { let a = *rng.pick(TARGS); let _ = writeln!(text, "  Holder<{a}> held;"); }
    if twins {
        let _ = writeln!(text, "  Box<na::Addr> twin_a;\n  Box<nb::Addr> twin_b;\n  Pair<na::Addr, nb::Addr> twin_ab;\n  Pair<nb::Addr, na::Addr> twin_ba;");
        uses.push(("Box<na::Addr>".into(), "Box_open0_Addr_close0".into(), "Box_open0_na_Addr_close0".into()));
        uses.push(("Box<nb::Addr>".into(), "Box_open0_Addr_close0".into(), "Box_open0_nb_Addr_close0".into()));
        uses.push(("Pair<na::Addr, nb::Addr>".into(), "Pair_open0_Addr_Addr_close0".into(), "Pair_open0_na_Addr_nb_Addr_close0".into()));
        uses.push(("Pair<nb::Addr, na::Addr>".into(), "Pair_open0_Addr_Addr_close0".into(), "Pair_open0_nb_Addr_na_Addr_close0".into()));
    }
    text.push_str("};\n");
    (text, uses)
}

fn check_templates(scratch: &Scratch, tag: &str, rng: &mut Rng, targets: &[&str], stats: &mut Stats, issues: &mut Vec<Issue>) {
    let (text, uses) = gen_templates(rng);
    let hname = format!("{tag}.hpp");
    for t in targets {
        let clang = vec![format!("--target={t}"), "-x".to_string(), "c++".to_string(), "-std=c++14".to_string()];
        std::fs::write(scratch.path(&hname), &text).unwrap();
        let mut exprs = vec![];
        for (s, _, _) in &uses { exprs.push(format!("sizeof({s})")); exprs.push(format!("alignof({s})")); }
        let vals = match probe::clang_table(scratch, &format!("{tag}_{}", t.replace('-', "_")), &scratch.path(&hname), Some(t), true, &exprs) {
            Ok(v) => v, Err(e) => { issues.push(Issue { class: "machinery".into(), target: t.to_string(), config: String::new(), comp: String::new(), detail: format!("clang table (c++): {e}"), header: text.clone() }); continue; }
        };
        // (several C++ types can share one disambiguated name: namespaces are not part of it)
        let mut oracle: BTreeMap<String, Vec<(u64, u64)>> = BTreeMap::new();
        for (i, (_, n, n2)) in uses.iter().enumerate() { for n in [n, n2] { let e = oracle.entry(n.clone()).or_default(); if !e.contains(&(vals[2 * i], vals[2 * i + 1])) { e.push((vals[2 * i], vals[2 * i + 1])); } } }
        // third run: the user allowlists every template and `Uses` by name, non-recursively (the map behind
        // `uses_any_template_parameters` is then filled without the analysis)
        const NONREC: &[&str] = &["--no-recursive-allowlist", "--allowlist-type", "Box|Pair|Wrap|Unbound|Holder|Uses|n[ab]::Addr"];
        for (cfg, extra) in [(&CONFIGS[0], &[][..]), (&CONFIGS[1], &[][..]), (&CONFIGS[3], &[][..]), (&CONFIGS[0], NONREC), (&CONFIGS[3], NONREC)] {
            stats.runs += 1;
            let nonrec = !extra.is_empty();
            if nonrec { *stats.by_form.entry("inst-nonrecursive-runs".into()).or_insert(0) += 1; }
            let run = match run_bindgen(scratch, &hname, &text, &flags_for(cfg, extra), &clang) {
                Ok(r) => r,
                Err(e) => { stats.bindgen_errors += 1; issues.push(Issue { class: "bindgen-failed".into(), target: t.to_string(), config: cfg.0.into(), comp: String::new(), detail: e, header: text.clone() }); continue; }
            };
            let mk = |class: &str, comp: &str, detail: String| Issue { class: class.into(), target: t.to_string(), config: format!("{}{}", cfg.0, if nonrec { " --no-recursive-allowlist --allowlist-type Box|Pair|Wrap|Unbound|Holder|Uses" } else { "" }), comp: comp.into(), detail, header: text.clone() };
            // the map behind `uses_any_template_parameters`, recomputed by the model from the dumped graph
            // (the analysis when allowlisting is recursive, the items' own parameters when it is not)
            {
                let mut req: Vec<String> = vec!["ir-begin".into()];
                req.extend(run.raw_lines.iter().cloned());
                req.push("ir-end".into());
                req.push("irchk 0".into());
                let ans = util::model(&req);
                let line = ans.iter().find(|l| l.starts_with("irchk")).cloned().unwrap_or_default();
                match line.split(' ').find(|t| t.starts_with("used_template_params=")) {
                    Some(tok) if tok.ends_with("=ok") => { *stats.by_form.entry("used-template-params-recomputed".into()).or_insert(0) += 1; }
                    Some(tok) if tok.contains("DIFF") => issues.push(mk("correspondence", "", format!("used template parameters: model and implementation differ ({tok}; item:model:dumped)"))),
                    Some(_) => {}
                    None => issues.push(mk("machinery", "", format!("no used_template_params answer from the model: {line}"))),
                }
            }
            // expected from the IR: instantiation types that are code-generated
            let mut item_flags: BTreeMap<u64, (bool, bool)> = BTreeMap::new(); // id -> (codegen, opaque)
            let mut used: BTreeMap<u64, bool> = BTreeMap::new();
            for r in &run.raw {
                if r.tag == "item" { item_flags.insert(r.num("id").unwrap_or(0), (r.flag("codegen"), r.flag("opaque"))); }
                if r.tag == "analysis" && r.get("name") == "used_template_params" { used.insert(r.num("id").unwrap_or(0), r.get("value") != "-"); }
            }
            let mut reqs = vec![];
            for r in &run.raw {
                if r.tag == "type" && r.get("k") == "TemplateInstantiation" {
                    let id = r.num("id").unwrap_or(0);
                    let (cg, op) = item_flags.get(&id).cloned().unwrap_or((false, false));
                    if !cg { continue; }
                    let lay = r.get("layout");
                    let l = if lay == "-" { "-".to_string() } else { let p: Vec<&str> = lay.split(',').collect(); format!("{},{}", p[0], p[1]) };
                    reqs.push(format!("lt inst tests=1 offsetof={} opaque={} unbound={} layout={l}", cfg.2 as u8, op as u8, used.get(&id).copied().unwrap_or(false) as u8));
                }
            }
            let answers = if reqs.is_empty() { vec![] } else { util::model(&reqs) };
            let mut exp: Vec<(u64, u64)> = answers.iter().filter(|a| *a != "none").filter_map(|a| { let t: Vec<&str> = a.split(' ').collect(); Some((t.get(1)?.parse().ok()?, t.get(2)?.parse().ok()?)) }).collect();
            let inst_items: Vec<&Vec<Assert>> = run.inv.assert_items.iter().filter(|it| it[0].kind.starts_with("inst-")).collect();
            let mut got: Vec<(u64, u64)> = vec![];
            let mut bases = vec![]; let mut fn_names = vec![];
            for it in &inst_items {
                stats.inst_items += 1;
                if it.len() != 2 || it[0].kind != "inst-size" || it[1].kind != "inst-align" || it[0].ty != it[1].ty { issues.push(mk("correspondence", &it[0].ty, format!("instantiation assertion item has an unexpected shape: {it:?}"))); continue; }
                got.push((it[0].value, it[1].value));
                let want_form = if cfg.2 { "const" } else { "test" };
                if !it[0].form.starts_with(want_form) { issues.push(mk("correspondence", &it[0].ty, format!("form {} but offset_of = {}", it[0].form, cfg.2))); }
                if let Some(f) = it[0].form.strip_prefix("test:") { bases.push(format!("__bindgen_test_layout_{}_instantiation", it[0].ty)); fn_names.push(f.to_string()); }
                match oracle.get(&it[0].ty) {
                    Some(vs) => { stats.oracle_values += 2; if !vs.contains(&(it[0].value, it[1].value)) { issues.push(mk("oracle", &it[0].ty, format!("asserted ({}, {}) for {}, clang --target={t} computes {vs:?}", it[0].value, it[1].value, it[0].ty))); } }
                    None => {}
                }
            }
            exp.sort(); got.sort();
            if exp != got { issues.push(mk("correspondence", "", format!("instantiation assertions: model {exp:?} real {got:?}"))); }
            // every instantiation used with concrete arguments is asserted
            for (i, (sp, n_ns, n_plain)) in uses.iter().enumerate() {
                let want = (vals[2 * i], vals[2 * i + 1]);
                let n = if cfg.3 { n_ns } else { n_plain };
                if !inst_items.iter().any(|it| &it[0].ty == n && it.len() == 2 && (it[0].value, it[1].value) == want) {
                    issues.push(mk("oracle", n, format!("no assertion of size {} / alignment {} for the concrete template instantiation {sp}, which appears in the bindings", want.0, want.1)));
                }
            }
            if !bases.is_empty() {
                let m = util::model(&[format!("lt names {}", bases.join(","))]);
                if m[0] != fn_names.join(",") { issues.push(mk("correspondence", "", format!("test fn names: model {} real {}", m[0], fn_names.join(",")))); }
            }
        }
    }
}

fn main() {
    let args = Args::parse();
    drive::quiet_panics();
    let mut rng = Rng::new(args.seed);
    let mut stats = Stats::default();
    let mut issues: Vec<Issue> = vec![];
    let thorough = args.thorough();
    let scratch = Scratch::new("c06");
    let (n_batches, per_batch, n_tpl) = if thorough { (40, 50, 48) } else { (8, 25, 6) };
    for b in 0..n_batches {
        let cfg = GenCfg { n_decls: per_batch, int128: false, float128: false, portable: true, ..Default::default() };
        let mut r = rng.fork();
        let prog = cgen::generate(&mut r, &cfg);
        let text = prog.c_text();
        let targets: Vec<&str> = if thorough { TARGETS.to_vec() } else { vec![TARGETS[0], TARGETS[1 + b % (TARGETS.len() - 1)], TARGETS[1 + (b + 3) % (TARGETS.len() - 1)]] };
        let configs: Vec<usize> = if thorough { vec![0, 1, 2, 3] } else { vec![b % 2, 2 + (b + 1) % 2] };
        check_c_header(&scratch, &format!("g{b}"), &text, &prog, &targets, &configs, &mut stats, &mut issues);
        // the first programs also with the target taken from the environment (same architecture as the host but another data
        // model, another architecture, a 32-bit one)
        if b < 2 {
            let envt: Vec<&str> = if b == 0 { vec!["env:x86_64-pc-windows-msvc", "env:i686-unknown-linux-gnu"] } else { vec!["env:aarch64-unknown-linux-gnu", "env:i686-pc-windows-msvc"] };
            check_c_header(&scratch, &format!("e{b}"), &text, &prog, &envt, &[0], &mut stats, &mut issues);
        }
    }
    // members at offsets of 2^28 .. 2^30 bytes (2^31 .. 2^33 bits: the bit offsets libclang reports
    // no longer fit 32 bits) and records of more than 2^31 bits
    {
        use bgverif::cgraph::{Decl, Member, MemberKind, Record, Ty};
        let idx = |n: &str| cgen::SCALARS.iter().position(|s| s.0 == n).unwrap();
        let plain = |name: &str, t: Ty| Member { name: name.into(), kind: MemberKind::Plain(t), aligned: None };
        let arr = |n: u64| Ty::Array(Box::new(Ty::Scalar(idx("unsigned char"))), vec![n]);
        let mut decls = vec![];
        for (i, n) in [0x0100_0000u64, 0x1000_0000, 0x2000_0000, 0x3fff_fff0].into_iter().enumerate() {
            decls.push(Decl::Record(Record { is_union: i == 3, tag: format!("Huge{i}"), typedef_name: String::new(), packed: false, aligned: None, pragma_pack: None, extra_attr: if i == 1 { Some("deprecated") } else { None },
                members: vec![plain("magic", Ty::Scalar(idx("unsigned int"))), plain("ring", arr(n)), plain("head", Ty::Scalar(idx("unsigned int"))),
                              plain("tail", Ty::Scalar(idx("unsigned short"))), plain("epoch", Ty::Scalar(idx("unsigned long long")))] }));
        }
        let prog = Program { decls };
        let text = prog.c_text();
        let targets: Vec<&str> = if thorough { TARGETS.to_vec() } else { vec![TARGETS[0], TARGETS[1], TARGETS[2]] };
        let configs: Vec<usize> = if thorough { vec![0, 1, 2, 3] } else { vec![0, 2] };
        check_c_header(&scratch, "huge", &text, &prog, &targets, &configs, &mut stats, &mut issues);
    }
    for b in 0..n_tpl {
        let mut r = rng.fork();
        let targets: Vec<&str> = if thorough { TARGETS.to_vec() } else { vec![TARGETS[b % TARGETS.len()], TARGETS[(b + 5) % TARGETS.len()]] };
        check_templates(&scratch, &format!("t{b}"), &mut r, &targets, &mut stats, &mut issues);
    }
    let mut by_class: BTreeMap<String, u64> = BTreeMap::new();
    for i in &issues { *by_class.entry(i.class.clone()).or_default() += 1; }
    let mut rep = String::from("{\n");
    let _ = writeln!(rep, " \"runs\": {}, \"comps\": {}, \"items_compared\": {}, \"asserts_compared\": {}, \"oracle_values\": {}, \"nolayout_runs\": {}, \"inst_items\": {}, \"bindgen_errors\": {}, \"distinct_requests\": {},",
        stats.runs, stats.comps, stats.items_compared, stats.asserts_compared, stats.oracle_values, stats.nolayout_runs, stats.inst_items, stats.bindgen_errors, stats.distinct.len());
    let m2j = |m: &BTreeMap<String, u64>| m.iter().map(|(k, v)| format!("{}: {v}", json_str(k))).collect::<Vec<_>>().join(", ");
    let _ = writeln!(rep, " \"by_target\": {{{}}},\n \"by_form\": {{{}}},\n \"none_reasons\": {{{}}},\n \"issues_by_class\": {{{}}},", m2j(&stats.by_target), m2j(&stats.by_form), m2j(&stats.none_reasons), m2j(&by_class));
    let _ = writeln!(rep, " \"samples\": [{}],", stats.samples.join(", "));
    let iss: Vec<String> = issues.iter().take(100).map(|i| format!("{{\"class\":{},\"target\":{},\"config\":{},\"comp\":{},\"detail\":{},\"header\":{}}}", json_str(&i.class), json_str(&i.target), json_str(&i.config), json_str(&i.comp),
        json_str(&i.detail.chars().take(2000).collect::<String>()), json_str(&i.header.chars().take(6000).collect::<String>()))).collect();
    let _ = writeln!(rep, " \"issues\": [{}]\n}}", iss.join(",\n  "));
    util::write(&args.out.join("report.json"), &rep);
    println!("runs={} comps={} items={} issues={}", stats.runs, stats.comps, stats.items_compared, issues.len());
}
