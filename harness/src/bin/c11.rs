//! C11 — output is a pure function of inputs across processes, repeats and threads.
//!
//! Oracle (real code, hooks on):
//!  (i)   hasher seeds: every crate::HashMap/HashSet iterates in a seed-dependent order
//!        (`bindgen::verif::set_hash_seed` in-process, `BINDGEN_VERIF_HASH_SEED` for the CLI);
//!        bindings, callback notification sequence (in-process recorder), depfile and wrapper C
//!        source (CLI) must be byte-identical across seeds;
//!  (ii)  histories of generations in one process in random order, unrelated generations
//!        interleaved, the same builder cloned and run repeatedly;
//!  (iii) 2..16 threads generating concurrently (same and different headers);
//!  (iv)  separate processes (ASLR, per-process RandomState of the std HashMaps).
//! The first differing pair (input, seed / history / schedule) is the replay.
use bgverif::cgen;
use bgverif::drive::{self, Scratch};
use bgverif::rng::Rng;
use bgverif::util::{self, json_str, Args};
use std::collections::BTreeMap;
use std::path::{Path, PathBuf};
use std::sync::atomic::{AtomicUsize, Ordering};
use std::sync::{Arc, Mutex};

// ------------------------------------------------------------------ callback recorder

#[derive(Debug)]
struct Recorder(Arc<Mutex<Vec<String>>>);
impl Recorder {
    fn rec(&self, s: String) {
        self.0.lock().unwrap().push(s);
    }
}
use bindgen::callbacks as cb;
impl cb::ParseCallbacks for Recorder {
    fn will_parse_macro(&self, name: &str) -> cb::MacroParsingBehavior {
        self.rec(format!("will_parse_macro {name}"));
        cb::MacroParsingBehavior::Default
    }
    fn generated_name_override(&self, i: cb::ItemInfo<'_>) -> Option<String> {
        self.rec(format!("generated_name_override {} {:?}", i.name, i.kind));
        None
    }
    fn generated_link_name_override(&self, i: cb::ItemInfo<'_>) -> Option<String> {
        self.rec(format!("generated_link_name_override {} {:?}", i.name, i.kind));
        None
    }
    fn int_macro(&self, name: &str, value: i64) -> Option<cb::IntKind> {
        self.rec(format!("int_macro {name} {value}"));
        None
    }
    fn str_macro(&self, name: &str, value: &[u8]) {
        self.rec(format!("str_macro {name} {value:?}"));
    }
    fn func_macro(&self, name: &str, value: &[&[u8]]) {
        self.rec(format!("func_macro {name} {value:?}"));
    }
    fn enum_variant_behavior(&self, e: Option<&str>, v: &str, val: cb::EnumVariantValue) -> Option<cb::EnumVariantCustomBehavior> {
        self.rec(format!("enum_variant_behavior {e:?} {v} {val:?}"));
        None
    }
    fn enum_variant_name(&self, e: Option<&str>, v: &str, val: cb::EnumVariantValue) -> Option<String> {
        self.rec(format!("enum_variant_name {e:?} {v} {val:?}"));
        None
    }
    fn item_name(&self, i: cb::ItemInfo) -> Option<String> {
        self.rec(format!("item_name {} {:?}", i.name, i.kind));
        None
    }
    fn header_file(&self, f: &str) {
        self.rec(format!("header_file {f}"));
    }
    fn include_file(&self, f: &str) {
        self.rec(format!("include_file {f}"));
    }
    fn read_env_var(&self, k: &str) {
        self.rec(format!("read_env_var {k}"));
    }
    fn blocklisted_type_implements_trait(&self, name: &str, t: cb::DeriveTrait) -> Option<cb::ImplementsTrait> {
        self.rec(format!("blocklisted_type_implements_trait {name} {t:?}"));
        None
    }
    fn add_derives(&self, i: &cb::DeriveInfo<'_>) -> Vec<String> {
        self.rec(format!("add_derives {} {:?}", i.name, i.kind));
        vec![]
    }
    fn add_attributes(&self, i: &cb::AttributeInfo<'_>) -> Vec<String> {
        self.rec(format!("add_attributes {} {:?}", i.name, i.kind));
        vec![]
    }
    fn field_attributes(&self, i: &cb::FieldAttributeInfo<'_>) -> Vec<String> {
        self.rec(format!("field_attributes {} {} {:?}", i.type_name, i.field_name, i.field_type_name));
        vec![]
    }
    fn process_comment(&self, c: &str) -> Option<String> {
        self.rec(format!("process_comment {}", c.len()));
        None
    }
    fn field_visibility(&self, i: cb::FieldInfo<'_>) -> Option<bindgen::FieldVisibilityKind> {
        self.rec(format!("field_visibility {} {} {:?}", i.type_name, i.field_name, i.field_type_name));
        None
    }
    fn new_item_found(&self, id: cb::DiscoveredItemId, item: cb::DiscoveredItem, loc: Option<&cb::SourceLocation>) {
        self.rec(format!("new_item_found {id:?} {item:?} {:?}", loc.map(|l| (l.line, l.col))));
    }
}

// ------------------------------------------------------------------ cases and outcomes

#[derive(Clone, Debug)]
struct Case {
    name: String,
    header: PathBuf,
    text: Option<String>, // generated programs carry their text (for the replay)
    pre: Vec<String>,
    clang: Vec<String>,
    has_static_fns: bool,
    inproc_ok: bool, // flag list accepted by the in-process clap parser
}

impl Case {
    /// region of known finding `macro_fallback_shared_scratch_files`: the generation creates
    /// scratch files with generation-independent names in the cwd / build dir
    fn fallback_region(&self) -> bool {
        self.pre.iter().any(|f| f.starts_with("--clang-macro-fallback"))
    }
    fn flags(&self) -> Vec<String> {
        let mut v = vec![self.header.to_string_lossy().into_owned()];
        v.extend(self.pre.iter().cloned());
        v.push("--".into());
        v.extend(self.clang.iter().cloned());
        v
    }
    fn json(&self) -> String {
        format!("{{\"name\":{},\"header\":{},\"text\":{},\"pre\":[{}],\"clang\":[{}]}}",
            json_str(&self.name), json_str(&self.header.to_string_lossy()),
            self.text.as_ref().map_or("null".to_owned(), |t| json_str(t)),
            self.pre.iter().map(|s| json_str(s)).collect::<Vec<_>>().join(","),
            self.clang.iter().map(|s| json_str(s)).collect::<Vec<_>>().join(","))
    }
}

#[derive(Clone, Debug, PartialEq, Eq)]
struct Outcome {
    kind: &'static str, // ok | err | panic
    text: String,
    cb: Vec<String>,
}

fn fnv(s: &str) -> u64 {
    let mut h: u64 = 0xcbf29ce484222325;
    for b in s.bytes() {
        h ^= b as u64;
        h = h.wrapping_mul(0x100000001b3);
    }
    h
}

impl Outcome {
    fn digest(&self) -> String {
        format!("{}:{:016x}:{:016x}", self.kind, fnv(&self.text), fnv(&self.cb.join("\n")))
    }
}

fn first_diff(a: &str, b: &str) -> String {
    for (i, (x, y)) in a.lines().zip(b.lines()).enumerate() {
        if x != y {
            let cut = |s: &str| s.chars().take(300).collect::<String>();
            // locate the first differing column to keep the excerpt short
            let col = x.chars().zip(y.chars()).take_while(|(p, q)| p == q).count();
            let from = col.saturating_sub(60);
            let ex = |s: &str| s.chars().skip(from).take(200).collect::<String>();
            let _ = cut;
            return format!("line {} col {}: <{}> vs <{}>", i + 1, col, ex(x), ex(y));
        }
    }
    format!("length {} vs {} lines", a.lines().count(), b.lines().count())
}

fn diff_outcomes(a: &Outcome, b: &Outcome) -> String {
    if a.kind != b.kind {
        return format!("outcome kind {} vs {}", a.kind, b.kind);
    }
    if a.text != b.text {
        return format!("bindings/error text: {}", first_diff(&a.text, &b.text));
    }
    format!("callback sequence: {}", first_diff(&a.cb.join("\n"), &b.cb.join("\n")))
}

/// One in-process generation.
fn run_inproc(case: &Case, seed: Option<usize>, with_cb: bool, repeats: usize) -> Vec<Outcome> {
    bindgen::verif::set_hash_seed(seed);
    let args: Vec<String> = std::iter::once("bindgen".to_owned()).chain(case.flags()).collect();
    let log = Arc::new(Mutex::new(Vec::new()));
    let log2 = log.clone();
    let built = std::panic::catch_unwind(std::panic::AssertUnwindSafe(move || {
        let (mut builder, _o, _v) = bindgen::builder_from_flags(args.into_iter()).map_err(|e| format!("io: {e}"))?;
        if with_cb {
            builder = builder.parse_callbacks(Box::new(Recorder(log2)));
        }
        Ok::<bindgen::Builder, String>(builder)
    }));
    let mut outs = vec![];
    match built {
        Ok(Ok(builder)) => {
            for _ in 0..repeats.max(1) {
                log.lock().unwrap().clear();
                let b = builder.clone();
                let r = std::panic::catch_unwind(std::panic::AssertUnwindSafe(move || b.generate().map(|x| x.to_string()).map_err(|e| format!("{e:?}"))));
                let cbl = log.lock().unwrap().clone();
                outs.push(match r {
                    Ok(Ok(s)) => Outcome { kind: "ok", text: s, cb: cbl },
                    Ok(Err(e)) => Outcome { kind: "err", text: e, cb: cbl },
                    Err(p) => Outcome { kind: "panic", text: panic_msg(p), cb: cbl },
                });
            }
        }
        Ok(Err(e)) => outs.push(Outcome { kind: "err", text: e, cb: vec![] }),
        Err(p) => outs.push(Outcome { kind: "panic", text: panic_msg(p), cb: vec![] }),
    }
    bindgen::verif::set_hash_seed(None);
    outs
}

fn panic_msg(e: Box<dyn std::any::Any + Send>) -> String {
    if let Some(s) = e.downcast_ref::<&str>() { (*s).to_owned() } else if let Some(s) = e.downcast_ref::<String>() { s.clone() } else { "<non-string panic>".into() }
}

/// One CLI run in its own scratch directory: (exit code, bindings, depfile, wrapper source).
fn run_cli(case: &Case, seed: Option<u64>, side_outputs: bool) -> (i32, String, String, String, String) {
    let s = Scratch::new("c11cli");
    let mut args = vec![case.header.to_string_lossy().into_owned()];
    args.extend(case.pre.iter().cloned());
    let wraps = side_outputs && case.has_static_fns && !case.pre.iter().any(|f| f.starts_with("--wrap-static-fns"));
    if side_outputs {
        args.extend(["--output".to_owned(), "out.rs".to_owned(), "--depfile".to_owned(), "out.d".to_owned()]);
        if wraps {
            if !case.pre.iter().any(|f| f == "--experimental") {
                args.push("--experimental".into());
            }
            args.extend(["--wrap-static-fns".to_owned(), "--wrap-static-fns-path".to_owned(), "wrap".to_owned()]);
        }
    }
    args.push("--".into());
    args.extend(case.clang.iter().cloned());
    let seed_s = seed.map(|x| x.to_string());
    let mut envs: Vec<(&str, &str)> = vec![];
    if let Some(ss) = seed_s.as_deref() {
        envs.push(("BINDGEN_VERIF_HASH_SEED", ss));
    }
    let (rc, out, err) = drive::cli(&args, &envs, Some(&s.0));
    let rd = |n: &str| std::fs::read_to_string(s.path(n)).unwrap_or_default();
    let bindings = if side_outputs { rd("out.rs") } else { out };
    let wrapper = if wraps { let c = rd("wrap.c"); if c.is_empty() { rd("wrap.cpp") } else { c } } else { String::new() };
    let errsum: String = err.lines().filter(|l| l.contains("panicked at") || l.contains("error:")).take(3).collect::<Vec<_>>().join(" | ");
    (rc, bindings, rd("out.d"), wrapper, errsum)
}

// ------------------------------------------------------------------ building the pool

const REPO_PREPEND: &[&str] = &["--formatter=none", "--with-derive-default", "--disable-header-comment", "--vtable-generation"];

fn repo_cases() -> Vec<Case> {
    let mut v = vec![];
    for (p, flags) in util::repo_headers() {
        let mut pre: Vec<String> = REPO_PREPEND.iter().map(|s| s.to_string()).collect();
        let mut clang = vec![];
        let mut after = false;
        for f in flags {
            if f == "--" && !after { after = true; continue; }
            if after { clang.push(f) } else { pre.push(f) }
        }
        if !clang.iter().any(|f| f.starts_with("--target=")) {
            clang.push("--target=x86_64-unknown-linux".into());
        }
        let text = std::fs::read_to_string(&p).unwrap_or_default();
        let has_static = text.contains("static inline") || text.contains("static int") || text.contains("inline");
        v.push(Case { name: p.file_name().unwrap().to_string_lossy().into_owned(), header: p, text: None, pre, clang,
                      has_static_fns: has_static, inproc_ok: true });
    }
    v
}

/// option snippets for generated programs (each validated once through the CLI; rejected
/// snippets are dropped and reported)
const OPTION_SNIPPETS: &[&[&str]] = &[
    &["--with-derive-hash"], &["--with-derive-partialeq"], &["--with-derive-partialord"], &["--with-derive-eq"],
    &["--with-derive-ord"], &["--with-derive-default"], &["--impl-debug"], &["--impl-partialeq"], &["--no-derive-copy"],
    &["--no-derive-debug"], &["--no-layout-tests"], &["--rustified-enum", ".*"], &["--bitfield-enum", "E.*"],
    &["--constified-enum-module", ".*"], &["--newtype-enum", ".*"], &["--default-enum-style", "moduleconsts"],
    &["--default-alias-style", "new_type"], &["--no-prepend-enum-name"], &["--opaque-type", "S[12]"],
    &["--blocklist-type", "S3"], &["--allowlist-type", "[SUC].*"], &["--allowlist-function", "s?fn.*"],
    &["--allowlist-var", "[gM].*"], &["--no-recursive-allowlist"], &["--generate-inline-functions"],
    &["--merge-extern-blocks"], &["--sort-semantically"], &["--explicit-padding"], &["--use-array-pointers-in-arguments"],
    &["--default-macro-constant-type", "signed"], &["--fit-macro-constant-types"], &["--generate-cstr"], &["--c-naming"],
    &["--anon-fields-prefix", "anon_"], &["--override-abi", "fn.*=system"], &["--raw-line", "// raw"],
    &["--respect-cxx-access-specs"], &["--translate-enum-integer-types"], &["--wrap-unsafe-ops"], &["--no-size_t-is-usize"],
    &["--rust-target", "1.64"], &["--rust-target", "1.77"], &["--rust-edition", "2021"], &["--default-non-copy-union-style", "manually_drop"],
    &["--dynamic-loading", "Lib"], &["--ctypes-prefix", "::core::ffi"], &["--use-core"], &["--no-doc-comments"],
    &["--disable-untagged-union"], &["--disable-nested-struct-naming"], &["--no-convert-floats"], &["--distrust-clang-mangling"],
    &["--with-derive-custom", "S.*=Clone"], &["--with-attribute-custom", "S.*=#[allow(dead_code)]"], &["--generate-block"],
    &["--must-use-type", "S.*"], &["--no-partialeq", "S1"], &["--no-copy", "S2"], &["--no-debug", "S3"], &["--no-default", "S4"],
    &["--no-hash", "S5"], &["--formatter", "prettyplease"], &["--default-visibility", "crate"], &["--objc-extern-crate"],
    &["--block-extern-crate"], &["--time-phases"], &["--enable-function-attribute-detection"], &["--flexarray-dst"],
    &["--generate", "types,functions,vars"], &["--ignore-functions"], &["--ignore-methods"], &["--with-derive-partialeq", "--with-derive-hash", "--with-derive-eq"],
];
const CPP_SNIPPETS: &[&[&str]] = &[
    &["--enable-cxx-namespaces"], &["--enable-cxx-namespaces", "--module-raw-line", "root", "pub const RAW_A: i32 = 1;", "--module-raw-line", "root::ns1", "pub const RAW_B: i32 = 2;"],
    &["--disable-name-namespacing"], &["--conservative-inline-namespaces"], &["--generate-private-functions"],
    &["--opaque-type", "Tp.*"], &["--vtable-generation"], &["--generate-deleted-functions"], &["--generate-pure-virtual-functions"],
];

fn validate_snippets(work: &Path, dropped: &mut Vec<String>) -> (Vec<Vec<String>>, Vec<Vec<String>>) {
    let h = work.join("probe.hpp");
    std::fs::write(&h, "struct S1 { int a; }; int fn1(int);\n").unwrap();
    let check = |sn: &&[&str]| -> bool {
        let mut a = vec![h.to_string_lossy().into_owned(), "--formatter".to_owned(), "none".to_owned()];
        if sn.contains(&"--formatter") { a.truncate(1); }
        a.extend(sn.iter().map(|s| s.to_string()));
        a.extend(["--".to_owned(), "-x".to_owned(), "c++".to_owned()]);
        let (rc, _o, _e) = drive::cli(&a, &[], None);
        rc == 0
    };
    let mut ok = vec![];
    let mut okpp = vec![];
    let r1 = par_map(OPTION_SNIPPETS, 8, |_, sn| check(sn));
    let r2 = par_map(CPP_SNIPPETS, 8, |_, sn| check(sn));
    for (sn, good) in OPTION_SNIPPETS.iter().zip(r1) {
        if good { ok.push(sn.iter().map(|s| s.to_string()).collect()) } else { dropped.push(sn.join(" ")) }
    }
    for (sn, good) in CPP_SNIPPETS.iter().zip(r2) {
        if good { okpp.push(sn.iter().map(|s| s.to_string()).collect()) } else { dropped.push(sn.join(" ")) }
    }
    (ok, okpp)
}

fn gen_cases(r: &mut Rng, n: usize, work: &Path, snippets: &(Vec<Vec<String>>, Vec<Vec<String>>), kinds: &mut BTreeMap<String, usize>, opt_hist: &mut BTreeMap<String, usize>) -> Vec<Case> {
    let mut v = vec![];
    // (first in the list, the C++-by-extension one before the C ones: the baselines of the first cases are
    // computed one after the other in this process, so process-wide state left by one is seen by the next)
    {
        // the same text as a C++ header (language inferred from the extension only)
        let body = "#if __has_include(<atomic>)\nint incpath_has_cxx;\n#else\nint incpath_plain_c;\n#endif\n";
        let name = "incpath3.hpp".to_string();
        let path = work.join(&name);
        std::fs::write(&path, body).unwrap();
        v.push(Case { name, header: path, text: Some(body.to_string()), pre: vec!["--formatter".into(), "none".into()], clang: vec![], has_static_fns: false, inproc_ok: true });
    }
    // headers whose translation depends on the system include path, with clang arguments that change it: the
    // include-path detection (`clang -E -v` through clang_sys) must be a function of this generation's arguments
    for (j, (body, clang)) in [
        ("#if __has_include(<stdint.h>)\n#include <stdint.h>\ntypedef uint32_t incpath_reg_t;\n#else\ntypedef unsigned incpath_reg_t;\n#endif\nincpath_reg_t incpath_f(void);\n", vec![]),
        ("#if __has_include(<stdint.h>)\n#include <stdint.h>\ntypedef uint32_t incpath_reg_t;\n#else\ntypedef unsigned incpath_reg_t;\n#endif\nincpath_reg_t incpath_f(void);\n", vec!["-nostdinc"]),
        ("#if __has_include(<atomic>)\nint incpath_has_cxx;\n#else\nint incpath_plain_c;\n#endif\n#include <stddef.h>\nsize_t incpath_g(void);\n", vec![]),
    ].into_iter().enumerate() {
        let cpp = false;
        let name = format!("incpath{j}.{}", if j == 3 { "hpp" } else { "h" });
        let path = work.join(&name);
        std::fs::write(&path, body).unwrap();
        *kinds.entry("include-path-sensitive".to_owned()).or_insert(0) += 1;
        let _ = cpp;
        v.push(Case { name, header: path, text: Some(body.to_string()), pre: vec!["--formatter".into(), "none".into()], clang: clang.iter().map(|s| s.to_string()).collect(), has_static_fns: false, inproc_ok: true });
    }
    for i in 0..n {
        let cpp = r.chance(1, 2);
        let size = r.range(8, 60) as usize;
        let p = cgen::program(r, cpp, size);
        for (k, c) in &p.kinds { *kinds.entry((*k).to_owned()).or_insert(0) += c; }
        let path = work.join(format!("gen{i}.{}", p.ext()));
        let text = p.text();
        std::fs::write(&path, &text).unwrap();
        let mut pre = vec![];
        let mut used_formatter = false;
        let mut used_target = false;
        for _ in 0..r.below(7) {
            let sn = if cpp && r.chance(1, 4) && !snippets.1.is_empty() { r.pick(&snippets.1).clone() } else { r.pick(&snippets.0).clone() };
            if sn[0] == "--formatter" { if used_formatter { continue; } used_formatter = true; }
            if sn[0] == "--rust-target" { if used_target { continue; } used_target = true; }
            if pre.iter().any(|f| f == &sn[0]) && sn.len() == 1 { continue; }
            *opt_hist.entry(sn[0].clone()).or_insert(0) += 1;
            pre.extend(sn);
        }
        if !used_formatter { pre.extend(["--formatter".to_owned(), "none".to_owned()]); }
        v.push(Case { name: format!("gen{i}.{}", p.ext()), header: path, text: Some(text), pre, clang: p.clang_args(),
                      has_static_fns: !p.static_fns.is_empty(), inproc_ok: true });
    }
    // several extern blocks per module that cannot be merged with each other (different ABIs,
    // unsafety, variadics) under the post-processing passes: their relative order must be a
    // function of the input
    for (j, flags) in [vec!["--merge-extern-blocks"], vec!["--merge-extern-blocks", "--sort-semantically"],
                       vec!["--merge-extern-blocks", "--enable-cxx-namespaces"], vec!["--sort-semantically", "--override-abi", "fn_c.*=C-unwind"]].into_iter().enumerate() {
        let cpp = flags.contains(&"--enable-cxx-namespaces");
        let body = "void fn_a(int) __attribute__((ms_abi));\nint fn_b(long);\ndouble fn_c(double) __attribute__((sysv_abi));\nvoid fn_d(char, ...);\nint fn_e(void) __attribute__((ms_abi));\nvoid fn_f(void) __attribute__((vectorcall));\nint fn_g(int) __attribute__((regcall));\nextern int var_a;\nextern const long var_b;\n";
        let text = if cpp { format!("{body}namespace ns_m {{\nvoid fn_h(int) __attribute__((ms_abi));\nint fn_i(long);\nvoid fn_j(void) __attribute__((vectorcall));\nnamespace inner {{ int fn_k(int) __attribute__((ms_abi)); void fn_l(void); }}\n}}\n") } else { body.to_string() };
        let name = format!("multi_abi{j}.{}", if cpp { "hpp" } else { "h" });
        let path = work.join(&name);
        std::fs::write(&path, &text).unwrap();
        let mut pre: Vec<String> = flags.iter().map(|s| s.to_string()).collect();
        pre.extend(["--formatter".to_owned(), "none".to_owned()]);
        for f in &flags { *opt_hist.entry(f.to_string()).or_insert(0) += 1; }
        *kinds.entry("multi-abi-extern-blocks".to_owned()).or_insert(0) += 1;
        v.push(Case { name, header: path, text: Some(text), pre, clang: if cpp { vec!["-x".into(), "c++".into()] } else { vec![] }, has_static_fns: false, inproc_ok: true });
    }
    v
}

/// Which flag lists does the in-process clap parser accept?  (`parse_from` EXITS the process on
/// an error, so this runs in child processes: `--probe-flags FILE`.)
fn probe_inproc(cases: &mut [Case], work: &Path) {
    let f = work.join("probe_flags.txt");
    let lines: Vec<String> = cases.iter().map(|c| c.flags().join("\x1f")).collect();
    std::fs::write(&f, lines.join("\n")).unwrap();
    let exe = std::env::current_exe().unwrap();
    let mut start = 0usize;
    let mut ok = vec![false; cases.len()];
    while start < cases.len() {
        let (_rc, out, _e) = util::run(std::process::Command::new(&exe).arg("--probe-flags").arg(&f).arg(start.to_string()));
        let mut last = None;
        for l in out.lines() {
            if let Some(n) = l.strip_prefix("ok ") { if let Ok(n) = n.parse::<usize>() { ok[n] = true; last = Some(n); } }
            if let Some(n) = l.strip_prefix("bad ") { if let Ok(n) = n.parse::<usize>() { last = Some(n); } }
        }
        // the child died on the case after `last` (or on `start` itself)
        let died_on = last.map_or(start, |n| n + 1);
        start = died_on + 1;
    }
    for (c, o) in cases.iter_mut().zip(ok) { c.inproc_ok = o; }
}

fn probe_child(file: &str, start: usize) {
    let text = std::fs::read_to_string(file).unwrap();
    use std::io::Write;
    for (i, l) in text.lines().enumerate().skip(start) {
        let args: Vec<String> = std::iter::once("bindgen".to_owned()).chain(l.split('\x1f').map(|s| s.to_owned())).collect();
        let r = std::panic::catch_unwind(|| bindgen::builder_from_flags(args.into_iter()).is_ok());
        println!("{} {i}", if matches!(r, Ok(true)) { "ok" } else { "bad" });
        std::io::stdout().flush().ok();
    }
}

// ------------------------------------------------------------------ parallel map

fn par_map<T: Sync, R: Send>(items: &[T], threads: usize, f: impl Fn(usize, &T) -> R + Sync) -> Vec<R> {
    let next = AtomicUsize::new(0);
    let out: Mutex<Vec<(usize, R)>> = Mutex::new(Vec::new());
    std::thread::scope(|s| {
        for _ in 0..threads.max(1) {
            s.spawn(|| loop {
                let i = next.fetch_add(1, Ordering::SeqCst);
                if i >= items.len() { break; }
                let r = f(i, &items[i]);
                out.lock().unwrap().push((i, r));
            });
        }
    });
    let mut v = out.into_inner().unwrap();
    v.sort_by_key(|x| x.0);
    v.into_iter().map(|x| x.1).collect()
}

// ------------------------------------------------------------------ main

struct Failure { phase: &'static str, detail: String, input: String }

fn main() {
    let raw: Vec<String> = std::env::args().collect();
    if raw.len() >= 4 && raw[1] == "--probe-flags" {
        drive::quiet_panics();
        probe_child(&raw[2], raw[3].parse().unwrap_or(0));
        return;
    }
    let a = Args::parse();
    drive::quiet_panics();
    if a.extra.first().map(|s| s.as_str()) == Some("--replay-case") {
        replay(&a);
        return;
    }
    let thorough = a.thorough();
    let cores = std::thread::available_parallelism().map(|n| n.get()).unwrap_or(4).min(16);
    let pool_threads = std::env::var("VERIF_THREADS").ok().and_then(|s| s.parse().ok()).unwrap_or(cores.min(if thorough { 12 } else { 8 }));
    let mut r = Rng::new(a.seed ^ 0xC11);
    let work = Scratch::new("c11work");
    let t0 = std::time::Instant::now();

    // ---- parameters per tier
    let n_repo = if thorough { usize::MAX } else { 45 };
    let n_gen = if thorough { 150 } else { 30 };
    let n_seeds = if thorough { 200 } else { 20 };
    let n_hist = if thorough { 120 } else { 40 };
    let max_hist = if thorough { 50 } else { 10 };
    let n_thread_rounds = if thorough { 30 } else { 8 };
    let max_threads = if thorough { 16 } else { 8 };
    let gens_per_thread = if thorough { 6 } else { 3 };
    let n_procs = if thorough { 12 } else { 5 };
    let n_cli_cases = if thorough { 80 } else { 16 };
    let n_cli_seeds = if thorough { 20 } else { 6 };

    // ---- pool
    let mut dropped = vec![];
    let snippets = validate_snippets(&work.0, &mut dropped);
    let mut kinds = BTreeMap::new();
    let mut opt_hist = BTreeMap::new();
    let mut repo = repo_cases();
    let n_repo_total = repo.len();
    // always-in headers that exercise the classified sites
    let must = ["issue-753.h", "abi-override.h", "wrap-static-fns.h", "opaque-tracing.hpp", "template.hpp", "macro-redef.h", "derive-hash-blocklisting.hpp",
                "replaces_double.hpp", "issue-1443.hpp", "enum.h", "bitfield_align.h", "class.hpp", "anon_union.hpp", "nsStyleAutoArray.hpp"];
    if n_repo < repo.len() {
        let mut chosen: Vec<Case> = vec![];
        let mut rest: Vec<Case> = vec![];
        for c in repo.drain(..) { if must.contains(&c.name.as_str()) { chosen.push(c) } else { rest.push(c) } }
        while chosen.len() < n_repo && !rest.is_empty() {
            let i = r.below(rest.len() as u64) as usize;
            chosen.push(rest.swap_remove(i));
        }
        repo = chosen;
    }
    let gen = gen_cases(&mut r, n_gen, &work.0, &snippets, &mut kinds, &mut opt_hist);
    let mut cases: Vec<Case> = repo.into_iter().chain(gen).collect();
    // Include-path detection spawns `clang` twice per generation (~100 ms); three cases out of four
    // switch it off (a different but equally valid input — every comparison is against the
    // baseline of the SAME flag list), one in four keeps the production default.
    let mut n_detect = 0usize;
    for (i, c) in cases.iter_mut().enumerate() {
        if i % 4 != 0 && !c.name.starts_with("incpath") && !c.pre.iter().any(|f| f == "--no-include-path-detection") {
            c.pre.push("--no-include-path-detection".into());
        } else {
            n_detect += 1;
        }
    }
    probe_inproc(&mut cases, &work.0);
    let n_inproc_rejected = cases.iter().filter(|c| !c.inproc_ok).count();
    for c in cases.iter().filter(|c| !c.inproc_ok) { eprintln!("inproc-rejected {} {:?}", c.name, c.pre); }

    let mut failures: Vec<Failure> = vec![];
    let mut phase_t: Vec<(String, f64)> = vec![("pool".into(), t0.elapsed().as_secs_f64())];
    let mut evals = 0usize;
    let mut samples: Vec<String> = vec![];

    // ---- phase 0: baselines (sequential, production hasher), with and without callbacks
    let mk_base = |c: &Case| -> Option<(Outcome, Outcome)> {
        if !c.inproc_ok { return None; }
        let b = run_inproc(c, None, false, 1).remove(0);
        let cbk = run_inproc(c, None, true, 1).remove(0);
        Some((b, cbk))
    };
    // the first dozen sequentially on the main thread (nothing else running), the rest in parallel;
    // phase (iv) cross-checks baselines against fresh CLI processes
    // cases in the fallback region never run concurrently with anything in the normal phases
    cases.sort_by_key(|c| !c.fallback_region());
    let n_region = cases.iter().filter(|c| c.fallback_region()).count();
    let inproc: Vec<usize> = (0..cases.len()).filter(|&i| cases[i].inproc_ok).collect();
    let n_seq_base = cases.len().min(12.max(n_region));
    let mut base: Vec<Option<(Outcome, Outcome)>> = cases[..n_seq_base].iter().map(|c| mk_base(c)).collect();
    base.extend(par_map(&cases[n_seq_base..], pool_threads, |_, c| mk_base(c)));
    evals += 2 * inproc.len();
    let mut outcome_hist: BTreeMap<&'static str, usize> = BTreeMap::new();
    let mut nontrivial = 0usize; // distinct cases with an ok outcome and >= 2 items
    let mut distinct_digests = std::collections::BTreeSet::new();
    let mut cb_events = 0usize;
    for b in base.iter().flatten() {
        *outcome_hist.entry(b.0.kind).or_insert(0) += 1;
        if b.0.kind == "ok" && b.0.text.matches("pub ").count() >= 2 { nontrivial += 1; distinct_digests.insert(b.0.digest()); }
        cb_events += b.1.cb.len();
    }

    phase_t.push(("baselines".into(), t0.elapsed().as_secs_f64()));
    // ---- phase (i): hasher seeds, in-process, in parallel (this is also a thread exercise)
    let mut jobs: Vec<(usize, usize, bool)> = vec![];
    // thorough: 200 seeds for every generated program, the must-have headers and a third of the
    // repository headers (which third rotates with the run seed), 40 seeds for the others
    let mut cases_full_seeds = 0usize;
    for &ci in &inproc {
        let full = !thorough || cases[ci].text.is_some() || must.contains(&cases[ci].name.as_str())
            || (fnv(&cases[ci].name) ^ a.seed) % 3 == 0;
        if full { cases_full_seeds += 1; }
        for s in 0..(if full { n_seeds } else { n_seeds / 5 }) {
            let seed = (r.next() as usize) | 1;
            jobs.push((ci, seed, s % 2 == 0));
        }
    }
    let seed_job = |&(ci, seed, with_cb): &(usize, usize, bool)| {
        let o = run_inproc(&cases[ci], Some(seed), with_cb, 1).remove(0);
        let b = base[ci].as_ref().unwrap();
        let want = if with_cb { &b.1 } else { &b.0 };
        if &o != want { Some(diff_outcomes(want, &o)) } else { None }
    };
    jobs.sort_by_key(|j| !cases[j.0].fallback_region());
    let n_region_jobs = jobs.iter().filter(|j| cases[j.0].fallback_region()).count();
    let mut res: Vec<Option<String>> = jobs[..n_region_jobs].iter().map(|j| seed_job(j)).collect();
    res.extend(par_map(&jobs[n_region_jobs..], pool_threads, |_, j| seed_job(j)));
    evals += jobs.len();
    let mut seed_diffs = 0usize;
    for (j, d) in jobs.iter().zip(res) {
        if let Some(d) = d {
            seed_diffs += 1;
            if failures.iter().filter(|f| f.phase == "hash-seed").count() < 3 {
                failures.push(Failure { phase: "hash-seed", detail: format!("{}: output under hash seed {} differs from the unseeded output: {d}", cases[j.0].name, j.1),
                    input: format!("{{\"mode\":\"seeds\",\"case\":{},\"seeds\":[{}],\"with_callbacks\":{}}}", cases[j.0].json(), j.1, j.2) });
            }
        }
    }

    phase_t.push(("seeds".into(), t0.elapsed().as_secs_f64()));
    // ---- sensitivity probe: the seed hook really changes iteration order (and the `find` over
    // abi_overrides is order dependent when two ABIs match one name — outside the hypothesis of
    // C11_perm_invariant_partial; production FxHash fixes the order, so this is not a violation)
    let probe_h = work.path("abi_conflict.h");
    std::fs::write(&probe_h, "void conflicted(void);\nvoid other(void);\n").unwrap();
    let probe = Case { name: "abi_conflict.h".into(), header: probe_h, text: None,
        pre: ["--formatter", "none", "--override-abi", "conflicted=system", "--override-abi", "conf.*=C-unwind", "--override-abi", "c.*d=vectorcall"].iter().map(|s| s.to_string()).collect(),
        clang: vec![], has_static_fns: false, inproc_ok: true };
    let mut probe_outs = std::collections::BTreeSet::new();
    for s in 0..40usize {
        let o = run_inproc(&probe, Some(s * 7919 + 1), false, 1).remove(0);
        probe_outs.insert(o.text.clone());
    }
    let probe_unseeded: Vec<String> = (0..3).map(|_| run_inproc(&probe, None, false, 1).remove(0).digest()).collect();
    evals += 43;

    // ---- phase (ii): histories.  All histories are planned from the PRNG first; the first
    // `n_hist_alone` run on the main thread with nothing else going on in the process, the others
    // in 4 lanes side by side (each lane is itself a longer history interleaved with the others).
    // (--clang-macro-fallback cases used to be kept out of the concurrent phases: known finding
    // macro_fallback_shared_scratch_files, repaired in /repo 63f9f962 — they take part again)
    let conc: Vec<usize> = inproc.clone();
    let mut hist_lens: Vec<usize> = vec![];
    type HStep = (usize, Option<usize>, bool, usize);
    let mut plans: Vec<Vec<HStep>> = vec![];
    let n_hist_alone = n_hist.min(if thorough { 30 } else { 8 });
    for h in 0..n_hist {
        if conc.is_empty() { break; }
        // histories that run alone may contain fallback-region cases, the lanes may not
        let inproc = if h < n_hist_alone { &inproc } else { &conc };
        let target = *r.pick(inproc);
        let len = r.range(1, max_hist as u64) as usize;
        hist_lens.push(len);
        let mut seq = vec![];
        for _ in 0..len {
            let ci = if r.chance(1, 2) { target } else { *r.pick(inproc) };
            let seeded = r.chance(1, 4);
            let with_cb = r.chance(1, 2);
            let repeats = if r.chance(1, 5) { 3 } else { 1 };
            seq.push((ci, if seeded { Some((r.next() as usize) | 1) } else { None }, with_cb, repeats));
        }
        plans.push(seq);
    }
    let run_history = |h: usize, seq: &Vec<HStep>| -> (usize, Option<Failure>) {
        let mut gens = 0usize;
        for (pos, &(ci, seed, with_cb, repeats)) in seq.iter().enumerate() {
            let outs = run_inproc(&cases[ci], seed, with_cb, repeats);
            gens += outs.len();
            let b = base[ci].as_ref().unwrap();
            let want = if with_cb { &b.1 } else { &b.0 };
            for (k, o) in outs.iter().enumerate() {
                if o != want {
                    let hs: Vec<String> = seq[..=pos].iter().map(|x| format!("{{\"case\":{},\"seed\":{},\"cb\":{},\"repeats\":{}}}", cases[x.0].json(), x.1.map_or("null".to_owned(), |s| s.to_string()), x.2, x.3)).collect();
                    return (gens, Some(Failure { phase: "history", detail: format!("history {h} position {pos} (repeat {k}) {}: differs from the same input run first: {}", cases[ci].name, diff_outcomes(want, o)),
                        input: format!("{{\"mode\":\"history\",\"history\":[{}]}}", hs.join(",")) }));
                }
            }
        }
        (gens, None)
    };
    let n_hist_alone = plans.len().min(n_hist_alone);
    let mut hist_gens = 0usize;
    let mut hres: Vec<(usize, Option<Failure>)> = plans[..n_hist_alone].iter().enumerate().map(|(h, p)| run_history(h, p)).collect();
    hres.extend(par_map(&plans[n_hist_alone..], 4, |h, p| run_history(n_hist_alone + h, p)));
    for (g, f) in hres {
        hist_gens += g;
        if let Some(f) = f { if failures.iter().filter(|x| x.phase == "history").count() < 3 { failures.push(f); } }
    }
    evals += hist_gens;

    phase_t.push(("histories".into(), t0.elapsed().as_secs_f64()));
    // ---- phase (iii): threads
    let mut thread_counts: Vec<usize> = vec![];
    let mut thread_gens = 0usize;
    for round in 0..n_thread_rounds {
        if conc.is_empty() { break; }
        let inproc = &conc;
        let t = r.range(2, max_threads as u64) as usize;
        thread_counts.push(t);
        let same = round % 2 == 0;
        let shared = *r.pick(inproc);
        let plan: Vec<Vec<(usize, Option<usize>, bool)>> = (0..t).map(|_| (0..gens_per_thread).map(|_| {
            let ci = if same { shared } else { *r.pick(inproc) };
            (ci, if r.chance(1, 3) { Some((r.next() as usize) | 1) } else { None }, r.chance(1, 2))
        }).collect()).collect();
        let order = AtomicUsize::new(0);
        let results: Mutex<Vec<(usize, usize, usize, Option<String>)>> = Mutex::new(vec![]);
        let barrier = std::sync::Barrier::new(t);
        std::thread::scope(|s| {
            for (ti, p) in plan.iter().enumerate() {
                let (cases, base, order, results, barrier) = (&cases, &base, &order, &results, &barrier);
                s.spawn(move || {
                    barrier.wait();
                    for (k, &(ci, seed, with_cb)) in p.iter().enumerate() {
                        let o = run_inproc(&cases[ci], seed, with_cb, 1).remove(0);
                        let fin = order.fetch_add(1, Ordering::SeqCst);
                        let b = base[ci].as_ref().unwrap();
                        let want = if with_cb { &b.1 } else { &b.0 };
                        let d = if &o != want { Some(diff_outcomes(want, &o)) } else { None };
                        results.lock().unwrap().push((ti, k, fin, d));
                    }
                });
            }
        });
        let mut res = results.into_inner().unwrap();
        res.sort_by_key(|x| x.2);
        thread_gens += res.len();
        for (ti, k, _fin, d) in &res {
            if let Some(d) = d {
                let (ci, seed, with_cb) = plan[*ti][*k];
                let sched: Vec<String> = res.iter().map(|x| format!("{}", x.0)).collect();
                failures.push(Failure { phase: "threads", detail: format!("round {round}: {t} threads ({}) thread {ti} generation {k} {}: differs from the sequential output: {d}", if same { "same header" } else { "different headers" }, cases[ci].name),
                    input: format!("{{\"mode\":\"threads\",\"threads\":{t},\"case\":{},\"seed\":{},\"cb\":{},\"completion_order\":[{}]}}", cases[ci].json(), seed.map_or("null".to_owned(), |s| s.to_string()), with_cb, sched.join(",")) });
                break;
            }
        }
        if round == 0 {
            samples.push(format!("threads={t} same_header={same} completion_order={:?} all_equal_to_sequential={}", res.iter().map(|x| x.0).collect::<Vec<_>>(), res.iter().all(|x| x.3.is_none())));
        }
    }
    evals += thread_gens;

    // ---- probe of known finding macro_fallback_shared_scratch_files: concurrent generations
    // with --clang-macro-fallback share `.macro_eval.c` / `-precompile.h.pch` in the cwd
    let fb_dir = work.path("fallback_cwd");
    std::fs::create_dir_all(&fb_dir).unwrap();
    let fb_h = fb_dir.join("fb.h");
    std::fs::write(&fb_h, "#define U32(c) c ## U\n#define FB_A U32(5)\n#define FB_B U32(6)\n#define FB_C U32(6 << 8)\n#define FB_D (FB_A + U32(1))\n").unwrap();
    let fb = Case { name: "fallback-probe fb.h".into(), header: fb_h.clone(), text: None,
        pre: ["--clang-macro-fallback", "--clang-macro-fallback-build-dir", fb_dir.to_str().unwrap(), "--formatter", "none", "--no-include-path-detection"].iter().map(|s| s.to_string()).collect(),
        clang: vec![], has_static_fns: false, inproc_ok: true };
    let fb_base = run_inproc(&fb, None, false, 1).remove(0);
    let fb_seq_same = (0..5).all(|_| run_inproc(&fb, None, false, 1).remove(0) == fb_base);
    let fb_jobs: Vec<usize> = (0..(if thorough { 160 } else { 48 })).collect();
    let fb_res = par_map(&fb_jobs, 8, |_, _| run_inproc(&fb, None, false, 1).remove(0));
    let fb_thread_diffs: Vec<&Outcome> = fb_res.iter().filter(|o| **o != fb_base).collect();
    let fb_consts = |o: &Outcome| o.text.matches("pub const FB_").count();
    // prediction of the model (C11_scratch_file_interleaving_witness): a generation reads another
    // one's file or finds it deleted => it loses macro constants or fails; nothing else changes
    let fb_as_predicted = fb_thread_diffs.iter().all(|o| o.kind != "ok" || fb_consts(o) < fb_consts(&fb_base));
    let fb_example = fb_thread_diffs.first().map(|o| format!("{} with {} of {} constants", o.kind, fb_consts(o), fb_consts(&fb_base))).unwrap_or_default();
    evals += 6 + fb_jobs.len();
    phase_t.push(("threads".into(), t0.elapsed().as_secs_f64()));
    // ---- phase (iv): separate processes (CLI), with side outputs; CLI seeds
    let mut cli_idx: Vec<usize> = (0..cases.len()).collect();
    // prefer cases with static functions (wrapper source) first, then random
    // (include-path-sensitive cases always get a fresh-process reference: process-wide state shows there)
    cli_idx.sort_by_key(|&i| (!cases[i].name.starts_with("incpath"), !cases[i].has_static_fns, fnv(&format!("{}{}", cases[i].name, a.seed))));
    cli_idx.truncate(n_cli_cases);
    let cli_jobs: Vec<(usize, Option<u64>)> = cli_idx.iter().flat_map(|&ci| {
        let mut v: Vec<(usize, Option<u64>)> = (0..n_procs).map(|_| (ci, None)).collect();
        v.extend((0..n_cli_seeds).map(|s| (ci, Some((fnv(&format!("{ci}-{s}-{}", a.seed)) >> 1) | 1))));
        v
    }).collect();
    let cli_res = par_map(&cli_jobs, pool_threads, |_, &(ci, seed)| run_cli(&cases[ci], seed, true));
    evals += cli_jobs.len();
    let mut cli_ref: BTreeMap<usize, (i32, String, String, String, String)> = BTreeMap::new();
    let mut depfiles_nonempty = 0usize;
    let mut wrappers_nonempty = 0usize;
    let mut cli_failed_runs = 0usize;
    for (j, o) in cli_jobs.iter().zip(cli_res) {
        match cli_ref.get(&j.0) {
            None => {
                if !o.2.is_empty() { depfiles_nonempty += 1; }
                if !o.3.is_empty() { wrappers_nonempty += 1; }
                if o.0 != 0 { cli_failed_runs += 1; }
                cli_ref.insert(j.0, o);
            }
            Some(rf) => {
                let what = if rf.0 != o.0 { Some(format!("exit code {} vs {}", rf.0, o.0)) }
                    else if rf.1 != o.1 { Some(format!("bindings: {}", first_diff(&rf.1, &o.1))) }
                    else if rf.2 != o.2 { Some(format!("depfile: {}", first_diff(&rf.2, &o.2))) }
                    else if rf.3 != o.3 { Some(format!("wrapper source: {}", first_diff(&rf.3, &o.3))) }
                    else { None };
                if let Some(w) = what {
                    if failures.iter().filter(|f| f.phase == "processes").count() < 3 {
                        failures.push(Failure { phase: "processes", detail: format!("{}: separate CLI processes (hash seed {:?}) disagree: {w}", cases[j.0].name, j.1),
                            input: format!("{{\"mode\":\"procs\",\"case\":{},\"seeds\":[{}]}}", cases[j.0].json(), j.1.map_or("null".to_owned(), |s| s.to_string())) });
                    }
                }
            }
        }
    }
    // CLI (fresh process) vs in-process baseline, plain stdout run
    let xcheck: Vec<usize> = cli_idx.iter().copied().filter(|&i| cases[i].inproc_ok).collect();
    let xres = par_map(&xcheck, pool_threads, |_, &ci| run_cli(&cases[ci], None, false));
    evals += xcheck.len();
    let mut cross_checked = 0usize;
    for (&ci, o) in xcheck.iter().zip(xres) {
        let b = &base[ci].as_ref().unwrap().0;
        if b.kind == "ok" {
            cross_checked += 1;
            if o.0 != 0 || o.1 != b.text {
                failures.push(Failure { phase: "processes", detail: format!("{}: a fresh CLI process and the in-process library disagree: rc={} {}", cases[ci].name, o.0, first_diff(&b.text, &o.1)),
                    input: format!("{{\"mode\":\"procs\",\"case\":{},\"seeds\":[null]}}", cases[ci].json()) });
            }
        } else if o.0 == 0 {
            failures.push(Failure { phase: "processes", detail: format!("{}: in-process outcome {} but the CLI succeeded", cases[ci].name, b.kind), input: format!("{{\"mode\":\"procs\",\"case\":{},\"seeds\":[null]}}", cases[ci].json()) });
        }
    }

    phase_t.push(("processes".into(), t0.elapsed().as_secs_f64()));
    // ---- samples
    if let Some(&ci) = inproc.first() {
        let b = base[ci].as_ref().unwrap();
        samples.push(format!("case={} flags={:?} digest(no callbacks)={} digest(with recorder)={} callback_events={}", cases[ci].name, cases[ci].pre, b.0.digest(), b.1.digest(), b.1.cb.len()));
    }
    if let Some((ci, o)) = cli_ref.iter().find(|(_, o)| !o.3.is_empty()) {
        samples.push(format!("cli case={} rc={} bindings={:016x} depfile={:016x} wrapper={:016x} ({} processes + {} seeds identical)", cases[*ci].name, o.0, fnv(&o.1), fnv(&o.2), fnv(&o.3), n_procs, n_cli_seeds));
    }

    // ---- report
    let mut j = String::from("{\n");
    let kv = |j: &mut String, k: &str, v: String| { j.push_str(&format!(" {}: {},\n", json_str(k), v)); };
    kv(&mut j, "tier", json_str(&a.tier));
    kv(&mut j, "seed", a.seed.to_string());
    kv(&mut j, "evaluations", evals.to_string());
    kv(&mut j, "distinct_nontrivial", distinct_digests.len().to_string());
    kv(&mut j, "nontrivial_cases", nontrivial.to_string());
    kv(&mut j, "cases_repo", cases.iter().filter(|c| c.text.is_none()).count().to_string());
    kv(&mut j, "repo_headers_total", n_repo_total.to_string());
    kv(&mut j, "cases_generated", n_gen.to_string());
    kv(&mut j, "cases_with_include_path_detection", n_detect.to_string());
    kv(&mut j, "inproc_rejected_flag_lists", n_inproc_rejected.to_string());
    kv(&mut j, "inproc_rejected_names", format!("[{}]", cases.iter().filter(|c| !c.inproc_ok).take(40).map(|c| json_str(&c.name)).collect::<Vec<_>>().join(",")));
    kv(&mut j, "baseline_outcomes", format!("{{{}}}", outcome_hist.iter().map(|(k, v)| format!("{}:{}", json_str(k), v)).collect::<Vec<_>>().join(",")));
    kv(&mut j, "callback_events_in_baselines", cb_events.to_string());
    kv(&mut j, "hash_seeds_per_case", n_seeds.to_string());
    kv(&mut j, "cases_with_all_seeds", cases_full_seeds.to_string());
    kv(&mut j, "cases_with_a_fifth_of_the_seeds", (inproc.len() - cases_full_seeds).to_string());
    kv(&mut j, "hash_seed_runs", jobs.len().to_string());
    kv(&mut j, "hash_seed_differences", seed_diffs.to_string());
    kv(&mut j, "seed_hook_sensitivity_probe", format!("{{\"input\":\"void conflicted(void); with three --override-abi sets of different ABIs matching it\",\"distinct_outputs_over_40_seeds\":{},\"unseeded_runs_identical\":{}}}", probe_outs.len(), probe_unseeded.windows(2).all(|w| w[0] == w[1])));
    kv(&mut j, "fallback_region_cases", n_region.to_string());
    kv(&mut j, "macro_fallback_probe", format!("{{\"baseline_constants\":{},\"sequential_repeats_identical\":{},\"concurrent_runs\":{},\"concurrent_differences\":{},\"differences_as_model_predicts\":{},\"example\":{}}}",
        fb_consts(&fb_base), fb_seq_same, fb_jobs.len(), fb_thread_diffs.len(), fb_as_predicted, json_str(&fb_example)));
    kv(&mut j, "histories", hist_lens.len().to_string());
    kv(&mut j, "histories_run_alone_on_main_thread", n_hist_alone.to_string());
    kv(&mut j, "history_length_max", hist_lens.iter().max().copied().unwrap_or(0).to_string());
    kv(&mut j, "history_generations", hist_gens.to_string());
    kv(&mut j, "thread_rounds", thread_counts.len().to_string());
    kv(&mut j, "thread_counts", format!("{:?}", thread_counts));
    kv(&mut j, "thread_generations", thread_gens.to_string());
    kv(&mut j, "pool_threads", pool_threads.to_string());
    kv(&mut j, "cli_cases", cli_idx.len().to_string());
    kv(&mut j, "cli_runs", cli_jobs.len().to_string());
    kv(&mut j, "cli_processes_per_case", n_procs.to_string());
    kv(&mut j, "cli_seeds_per_case", n_cli_seeds.to_string());
    kv(&mut j, "cli_depfiles_nonempty", depfiles_nonempty.to_string());
    kv(&mut j, "cli_wrappers_nonempty", wrappers_nonempty.to_string());
    kv(&mut j, "cli_cases_with_error_exit", cli_failed_runs.to_string());
    kv(&mut j, "cli_vs_inproc_cross_checked", cross_checked.to_string());
    kv(&mut j, "aslr", json_str(std::fs::read_to_string("/proc/sys/kernel/randomize_va_space").unwrap_or_default().trim()));
    kv(&mut j, "decl_kinds", format!("{{{}}}", kinds.iter().map(|(k, v)| format!("{}:{}", json_str(k), v)).collect::<Vec<_>>().join(",")));
    kv(&mut j, "option_snippets_used", format!("{{{}}}", opt_hist.iter().map(|(k, v)| format!("{}:{}", json_str(k), v)).collect::<Vec<_>>().join(",")));
    kv(&mut j, "option_snippets_dropped", format!("[{}]", dropped.iter().map(|s| json_str(s)).collect::<Vec<_>>().join(",")));
    kv(&mut j, "samples", format!("[{}]", samples.iter().map(|s| json_str(s)).collect::<Vec<_>>().join(",")));
    kv(&mut j, "phase_end_s", format!("{{{}}}", phase_t.iter().map(|(k, v)| format!("{}:{:.1}", json_str(k), v)).collect::<Vec<_>>().join(",")));
    kv(&mut j, "harness_wall_s", format!("{:.1}", t0.elapsed().as_secs_f64()));
    j.push_str(&format!(" \"failures\": [{}]\n}}\n", failures.iter().map(|f| format!("{{\"phase\":{},\"detail\":{},\"input\":{}}}", json_str(f.phase), json_str(&f.detail), f.input)).collect::<Vec<_>>().join(",")));
    util::write(&a.out.join("report.json"), &j);
    println!("c11: evaluations={evals} failures={} wall={:.1}s", failures.len(), t0.elapsed().as_secs_f64());
}

/// `--replay-case HEADER PRE(\x1f-joined) CLANG(\x1f-joined) SEEDS(comma, `null` = unseeded) CB(0|1)`
fn replay(a: &Args) {
    let e = &a.extra;
    let split = |s: &str| -> Vec<String> { if s.is_empty() { vec![] } else { s.split('\x1f').map(|x| x.to_owned()).collect() } };
    let case = Case { name: "replay".into(), header: PathBuf::from(&e[1]), text: None, pre: split(&e[2]), clang: split(&e[3]), has_static_fns: true, inproc_ok: true };
    let cbk = e.get(5).map_or(false, |s| s == "1");
    let base = run_inproc(&case, None, cbk, 1).remove(0);
    println!("unseeded in-process: {}", base.digest());
    for s in e[4].split(',') {
        let seed = s.parse::<usize>().ok();
        let o = run_inproc(&case, seed, cbk, 1).remove(0);
        println!("in-process seed {:?}: {}  {}", seed, o.digest(), if o == base { "same".to_owned() } else { diff_outcomes(&base, &o) });
        let c = run_cli(&case, seed.map(|x| x as u64), true);
        println!("cli seed {:?}: rc={} bindings={:016x} depfile={:016x} wrapper={:016x} {}", seed, c.0, fnv(&c.1), fnv(&c.2), fnv(&c.3), c.4);
    }
}
