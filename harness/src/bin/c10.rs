//! C10 — blocklisted items are referenced but never defined; opaque types are exact blobs.
//!
//! * function level: `Layout::for_size_internal` (hook `layout_for_size`) vs the model;
//! * correspondence: `is_blocklisted` / `is_opaque` flags of the IR dump vs `bgmodel blk items`;
//!   emitted `_bindgen_opaque_blob` type and `repr(align)` vs `bgmodel blk blob/struct`;
//! * oracles: no definition of a blocklisted name, uses still name it (rustc with user-supplied
//!   `--raw-line` definitions of the C size/alignment, without derives: layout assertions of the
//!   containers and "no derive through a blocklisted type" are checked by the compiler), every other
//!   item unchanged (modulo derives), opaque structs have only the blob field and no accessors,
//!   `size_of/align_of` of opaque types vs a clang probe.
use bgverif::allowmodel::{self as am, PatternSets};
use bgverif::allowgen::{self as cgen, DKind, Program};
use bgverif::drive::{self, Scratch};
use bgverif::leafinv::{self as inventory, Leaf};
use bgverif::irdump;
use bgverif::rng::Rng;
use bgverif::util::{self, json_str, Args};
use std::collections::{BTreeMap, BTreeSet};

#[derive(Default)]
struct Stats {
    forsize_calls: u64,
    graphs: u64,
    runs: u64,
    gen_failed: u64,
    flags_compared: u64,
    flag_items: u64,
    blocked_items: u64,
    opaque_items: u64,
    distinct_flag_sets: BTreeSet<(Vec<u64>, Vec<u64>)>,
    blob_compared: u64,
    distinct_blobs: BTreeSet<(u64, u64)>,
    never_defined_checked: u64,
    others_checked: u64,
    others_items: u64,
    opaque_struct_checked: u64,
    rustc_block_compiled: u64,
    rustc_baseline_broken: u64,
    probe_types: u64,
    spec_types: u64,
    hist: BTreeMap<String, u64>,
    samples: Vec<String>,
    known: BTreeMap<String, (u64, String)>,
}
impl Stats {
    fn bump(&mut self, k: &str) {
        *self.hist.entry(k.to_owned()).or_insert(0) += 1;
    }
    fn known(&mut self, id: &str, what: String) {
        let e = self.known.entry(id.to_owned()).or_insert((0, what));
        e.0 += 1;
    }
}

struct Failure {
    kind: &'static str,
    detail: String,
    input: String,
}

struct Case {
    prog: Program,
    main_h: String,
    inc_h: String,
    flags: Vec<String>,
    block: PatternSets,
    opaque_pats: Vec<String>,
    /// declarations blocklisted / opaque by the generator's choice
    blocked: BTreeSet<usize>,
    opaque: BTreeSet<usize>,
    namespaces_on: bool,
}

fn case_json(c: &Case) -> String {
    format!(
        "{{\"main_h\":{},\"inc_h\":{},\"flags\":[{}],\"cxx\":{}}}",
        json_str(&c.main_h),
        json_str(&c.inc_h),
        c.flags.iter().map(|f| json_str(f)).collect::<Vec<_>>().join(","),
        c.prog.cxx
    )
}

fn nospace(s: &str) -> String {
    s.chars().filter(|c| !c.is_whitespace()).collect()
}

// ---------------------------------------------------------------- function level

fn forsize(rng: &mut Rng, thorough: bool, st: &mut Stats, fails: &mut Vec<Failure>) {
    let mut reqs = vec![];
    let mut got = vec![];
    let mut add = |p: usize, s: usize| {
        let (rs, ra) = bindgen::verif::layout_for_size(p, s);
        reqs.push(format!("blk forsize {p} {s}"));
        got.push(format!("{rs} {ra}"));
    };
    let limit = if thorough { 20000 } else { 4200 };
    for p in [4usize, 8] {
        for s in 0..limit {
            add(p, s);
        }
    }
    for _ in 0..(if thorough { 50000 } else { 5000 }) {
        let s = (rng.next() >> rng.below(40)) as usize & 0xffff_ffff_ffff;
        add(*rng.pick(&[1usize, 2, 4, 8, 16]), s);
    }
    let ans = util::model(&reqs);
    for ((r, g), a) in reqs.iter().zip(got.iter()).zip(ans.iter()) {
        st.forsize_calls += 1;
        if g != a {
            fails.push(Failure { kind: "correspondence", detail: format!("{r}: implementation {g}, model {a}"), input: format!("{{\"request\":{}}}", json_str(r)) });
            return;
        }
    }
}

/// the model's `reprC` specification vs rustc, and its blob for layouts C cannot produce
fn spec_vs_rustc(st: &mut Stats, fails: &mut Vec<Failure>) {
    let layouts: Vec<(u64, u64)> = vec![
        (1, 1), (3, 1), (33, 1), (40, 1), (2, 2), (6, 2), (66, 2), (4, 4), (12, 4), (128, 4), (132, 4), (8, 8), (24, 8), (16, 16), (48, 16), (64, 32), (64, 64), (256, 128), (0, 1), (0, 4), (0, 8),
        // outside the hypotheses of C10_blob_exact: size not a multiple of the alignment
        (6, 4), (10, 4), (12, 8), (3, 2),
    ];
    let reqs: Vec<String> = layouts.iter().map(|(s, a)| format!("blk blob {s} {a} 0 0")).collect();
    let ans = util::model(&reqs);
    let mut src = String::from("#![allow(warnings)]\n#[derive(PartialEq, Eq, Copy, Clone, Debug, Hash)] #[repr(C)] pub struct __BindgenOpaqueArray<T>(pub T);\n");
    for a in [8u64, 16, 32, 64, 128] {
        src.push_str(&format!("#[derive(PartialEq, Eq, Copy, Clone, Debug, Hash)] #[repr(C, align({a}))] pub struct __BindgenOpaqueArray{a}<T>(pub T);\n"));
    }
    src.push_str("fn main() {\n");
    let mut expect = vec![];
    for (a, (s, al)) in ans.iter().zip(layouts.iter()) {
        let parts: Vec<&str> = a.split(' ').collect();
        if parts.len() != 3 {
            fails.push(Failure { kind: "correspondence", detail: format!("model answered `{a}` for layout ({s},{al})"), input: "{}".into() });
            return;
        }
        src.push_str(&format!("  println!(\"{{}} {{}}\", std::mem::size_of::<{}>(), std::mem::align_of::<{}>());\n", parts[0], parts[0]));
        expect.push(format!("{} {}", parts[1], parts[2]));
    }
    src.push_str("}\n");
    let scratch = Scratch::new("c10spec");
    match drive::rustc_bin(&scratch, "spec", &src, &[], &[]) {
        Err(e) => fails.push(Failure { kind: "oracle-spec", detail: format!("rustc rejects the types the model says blob produces: {}", e.lines().take(4).collect::<Vec<_>>().join(" | ")), input: "{}".into() }),
        Ok(exe) => {
            let (_, out, _) = drive::run_exe(&exe);
            let lines: Vec<&str> = out.lines().collect();
            for ((l, e), lay) in lines.iter().zip(expect.iter()).zip(layouts.iter()) {
                st.spec_types += 1;
                if l != e {
                    fails.push(Failure { kind: "oracle-spec", detail: format!("layout {lay:?}: rustc measures {l}, the model's reprC says {e}"), input: "{}".into() });
                    return;
                }
            }
        }
    }
    // align(6): the model says rustc rejects
    let bad = "#[repr(C, align(6))] pub struct X(pub [u8; 12]);";
    if drive::rustc_check_lib(&scratch, "bad", bad, "2021").is_ok() {
        fails.push(Failure { kind: "oracle-spec", detail: "rustc accepts repr(align(6)) although the model's reprC says it is rejected".into(), input: "{}".into() });
    }
}

// ---------------------------------------------------------------- generation of cases

const OPAQUE_ANNOT: &str = "/** <div rustbindgen opaque></div> */\n";
const HIDE_ANNOT: &str = "/** <div rustbindgen hide></div> */\n";

/// extra declarations with interesting layouts, always candidates for opacity
fn layout_decls(rng: &mut Rng, p: &mut Program, start_num: u32, force_bases: bool) {
    let n = rng.range(1, 4);
    for i in 0..n {
        let num = start_num + i as u32;
        let base = format!("O{num}");
        let len = rng.range(1, 70);
        let text = match rng.below(8) {
            0 => format!("struct {base} {{ char c[{len}]; }};"),
            1 => format!("struct {base} {{ short s[{len}]; }};"),
            2 => format!("struct {base} {{ int i[{len}]; char t; }};"),
            3 => format!("struct __attribute__((aligned({}))) {base} {{ char c[{len}]; }};", rng.pick(&[2u32, 4, 8, 16, 32, 64])),
            4 => format!("struct {base} {{ long long x; char c[{len}]; }};"),
            5 => format!("struct {base} {{ long double ld; char c[{len}]; }};"),
            6 => format!("struct __attribute__((packed)) {base} {{ char a; int b; short c[{}]; }};", rng.range(1, 9)),
            _ => format!("struct {base} {{ unsigned a : 3; unsigned b : 9; char c[{len}]; }};"),
        };
        p.decls.push(cgen::Decl {
            base: base.clone(),
            kind: DKind::Struct,
            ns: None,
            file: 0,
            deps: BTreeSet::new(),
            text,
            variants: vec![],
            c_ref: format!("struct {base}"),
        });
        // and a user of it
        let user = format!("W{num}");
        let idx = p.decls.len() - 1;
        let r = if p.cxx { base.clone() } else { format!("struct {base}") };
        // (a leading `char` in front of a member aligned above 8 runs into known finding
        // `blob_padding_overaligned`; keep that shape rare so that the compile oracle keeps its coverage)
        let text = if rng.chance(1, 6) {
            format!("struct {user} {{ char pre; {r} m0; {r} *m1; {r} m2[2]; }};")
        } else {
            format!("struct {user} {{ {r} m0; char pre; {r} *m1; {r} m2[2]; }};")
        };
        let mut deps = BTreeSet::new();
        deps.insert(idx);
        p.decls.push(cgen::Decl { base: user.clone(), kind: DKind::Struct, ns: None, file: 0, deps, text, variants: vec![], c_ref: format!("struct {user}") });
    }
    // C++: an empty record used as a base class (the empty-base optimisation gives it no storage in the derived record) and a
    // non-empty one, each with a derived record
    if p.cxx && (force_bases || rng.chance(1, 3)) {
        let num = start_num + 9;
        for (k, body) in [(0u32, String::new()), (1, format!(" short s[{}]; ", rng.range(1, 5)))] {
            let base = format!("O{}", num + k);
            p.decls.push(cgen::Decl { base: base.clone(), kind: DKind::Struct, ns: None, file: 0, deps: BTreeSet::new(), text: format!("struct {base} {{{body}}};"), variants: vec![], c_ref: format!("struct {base}") });
            let idx = p.decls.len() - 1;
            let user = format!("W{}", num + k);
            let mut deps = BTreeSet::new();
            deps.insert(idx);
            p.decls.push(cgen::Decl { base: user.clone(), kind: DKind::Struct, ns: None, file: 0, deps, text: format!("struct {user} : {base} {{ int x; char y; }};"), variants: vec![], c_ref: format!("struct {user}") });
        }
    }
}

/// `force`: C++, namespaces as modules, blocklisting only, and a whole leaf namespace blocklisted by one item pattern (the module
/// then holds nothing but what the user supplies through `--module-raw-line`)
fn build_case(rng: &mut Rng, force: bool) -> Case {
    let cxx = force || rng.chance(1, 2);
    let n_decls = rng.range(4, 12) as usize;
    let mut p = cgen::generate(rng, &cgen::Shape { n_decls, cxx });
    layout_decls(rng, &mut p, 40, force);
    let namespaces_on = cxx && (force || rng.chance(1, 4));
    let mut block = PatternSets::default();
    let mut opaque_pats = vec![];
    let mut blocked = BTreeSet::new();
    let mut opaque = BTreeSet::new();
    let mut annotated: BTreeMap<usize, &str> = BTreeMap::new();
    let mode = if force { 0 } else { rng.below(3) }; // 0 = blocklist, 1 = opaque, 2 = both
    let cand: Vec<usize> = (0..p.decls.len()).collect();
    if mode != 1 && p.inc_count > 0 && rng.chance(1, 5) {
        block.files.push(".*inc\\.h".to_owned());
        for (j, dj) in p.decls.iter().enumerate() {
            if dj.file == 1 {
                blocked.insert(j);
            }
        }
    }
    // forced cases: the non-empty base class `O50` carries a `hide` annotation; the record that derives from it carries none
    // (an annotation speaks about the declaration it is written on)
    if force {
        if let Some(i) = p.decls.iter().position(|d| d.base == "O50") {
            annotated.insert(i, HIDE_ANNOT);
            blocked.insert(i);
        }
    }
    if mode != 1 {
        for _ in 0..rng.range(1, 3) {
            let i = *rng.pick(&cand);
            let d = &p.decls[i];
            if d.kind == DKind::Template || d.kind == DKind::UnnamedEnum || blocked.contains(&i) {
                continue;
            }
            let path = p.path(i);
            match (d.kind, rng.below(4)) {
                (DKind::Function, 0..=1) => block.functions.push(path),
                (DKind::Var, 0..=1) => block.vars.push(path),
                (k, 0..=1) if k.is_type() => block.types.push(path),
                (_, 2) => block.items.push(path),
                _ => {
                    if d.kind.is_type() && !matches!(d.kind, DKind::Typedef) {
                        annotated.insert(i, HIDE_ANNOT);
                    } else {
                        block.items.push(path);
                    }
                }
            }
            blocked.insert(i);
        }
    }
    if mode != 0 {
        for _ in 0..rng.range(1, 4) {
            let i = *rng.pick(&cand);
            let d = &p.decls[i];
            if !matches!(d.kind, DKind::Struct | DKind::Union | DKind::Class) || blocked.contains(&i) || opaque.contains(&i) {
                continue;
            }
            if rng.chance(1, 3) {
                annotated.insert(i, OPAQUE_ANNOT);
            } else if d.ns.is_some() && rng.chance(1, 2) {
                let nsn = p.namespaces[d.ns.unwrap()].clone();
                opaque_pats.push(format!("{nsn}::.*"));
                // every struct-like declaration of that namespace becomes opaque
                for (j, dj) in p.decls.iter().enumerate() {
                    // (the pattern also matches what nested namespaces declare)
                    let inside = dj.ns.is_some_and(|n| p.namespaces[n] == nsn || p.namespaces[n].starts_with(&format!("{nsn}::")));
                    if inside && matches!(dj.kind, DKind::Struct | DKind::Union | DKind::Class | DKind::Template) && !blocked.contains(&j) {
                        opaque.insert(j);
                    }
                }
            } else {
                opaque_pats.push(p.path(i));
            }
            opaque.insert(i);
        }
    }
    // every declaration of one (leaf) namespace blocklisted through a single item pattern: with namespaces as modules
    // the module then holds nothing but what the user supplies
    if mode != 1 && cxx && !p.namespaces.is_empty() && (force || rng.chance(1, 4)) {
        let leafs: Vec<usize> = (0..p.namespaces.len()).filter(|&i| !p.namespaces.iter().any(|o| o.starts_with(&format!("{}::", p.namespaces[i])))).collect();
        if !leafs.is_empty() {
            let ns = *rng.pick(&leafs);
            if p.decls.iter().any(|d| d.ns == Some(ns) && d.file == 0) {
                block.items.push(format!("{}::.*", p.namespaces[ns]));
                for (j, dj) in p.decls.iter().enumerate() {
                    if dj.ns == Some(ns) { blocked.insert(j); opaque.remove(&j); }
                }
            }
        }
    }
    // top-level alternation in one pattern (`a|b` must mean "the whole name is a or the whole name is b": the
    // generated names contain proper prefixes of each other — S1, S10, S12)
    if block.types.len() >= 2 && rng.chance(1, 2) { let b = block.types.pop().unwrap(); let a = block.types.pop().unwrap(); block.types.push(format!("{a}|{b}")); }
    if block.items.len() >= 2 && rng.chance(1, 2) { let b = block.items.pop().unwrap(); let a = block.items.pop().unwrap(); block.items.push(format!("{a}|{b}")); }
    if opaque_pats.len() >= 2 && rng.chance(1, 2) { let b = opaque_pats.pop().unwrap(); let a = opaque_pats.pop().unwrap(); opaque_pats.push(format!("{a}|{b}")); }
    if mode == 2 && rng.chance(1, 2) {
        // a type matched by a blocklist AND an opaque pattern (not emitted; its containers must still not
        // derive anything through it)
        let both: Vec<usize> = blocked.iter().copied().filter(|&i| matches!(p.decls[i].kind, DKind::Struct | DKind::Union | DKind::Class) && p.decls[i].file == 0).collect();
        if !both.is_empty() {
            let i = *rng.pick(&both);
            opaque_pats.push(p.path(i));
        }
    }
    for (i, a) in &annotated {
        let t = p.decls[*i].text.clone();
        p.decls[*i].text = format!("{a}{t}");
    }
    let (mut main_h, inc_h) = p.header_texts();
    main_h = format!("#include \"inc.h\"\n{main_h}");
    let mut flags = block.flags("blocklist");
    for o in &opaque_pats {
        flags.push("--opaque-type".into());
        flags.push(o.clone());
    }
    if namespaces_on {
        flags.push("--enable-cxx-namespaces".into());
    }
    Case { prog: p, main_h, inc_h, flags, block, opaque_pats, blocked, opaque, namespaces_on }
}

struct RunOut {
    bindings: String,
    dump: am::Dump,
}

fn run_bindgen(scratch: &Scratch, c: &Case, extra: &[String], want_log: bool) -> Result<RunOut, String> {
    let hname = if c.prog.cxx { "c.hpp" } else { "c.h" };
    std::fs::write(scratch.path(hname), &c.main_h).unwrap();
    std::fs::write(scratch.path("inc.h"), &c.inc_h).unwrap();
    let mut flags: Vec<String> = vec![scratch.path(hname).to_string_lossy().into_owned(), "--formatter".into(), "none".into(), "--no-include-path-detection".into()];
    flags.extend(extra.iter().cloned());
    flags.push("--".into());
    if c.prog.cxx {
        flags.extend(["-x".to_owned(), "c++".to_owned(), "-std=c++17".to_owned()]);
    }
    flags.push(format!("-I{}", scratch.0.display()));
    let log = scratch.path("run.vlog");
    let out = drive::generate_with_flags(&flags, if want_log { Some(&log) } else { None });
    match out.bindings {
        None => Err(format!("error={:?} panic={:?}", out.error, out.panic)),
        Some(b) => {
            let dump = if want_log {
                let l = irdump::parse_log(out.log.as_deref().unwrap_or(""));
                match l.dumps.last() {
                    Some(d) => am::load(d),
                    None => return Err("no IR dump".into()),
                }
            } else {
                am::Dump::default()
            };
            Ok(RunOut { bindings: b, dump })
        }
    }
}

fn set_field(ps: &[String]) -> String {
    if ps.is_empty() {
        return "-".into();
    }
    ps.iter().map(|p| if am::pattern_valid(p) { am::hex(p) } else { format!("!{}", am::hex(p)) }).collect::<Vec<_>>().join(",")
}

fn class_of(it: &am::DumpItem) -> &'static str {
    match it.kind.as_str() {
        "module" => "m",
        "type" => "t",
        "var" => "v",
        _ => "ff",
    }
}

/// `blk items …` request from the dump
fn flags_request(d: &am::Dump, c: &Case) -> String {
    let mut items = vec![];
    for it in &d.items {
        let rec = it.type_rec.as_ref();
        let k = it.type_kind.as_deref().unwrap_or("");
        let selfop = k == "Opaque" || (k == "Comp" && rec.is_some_and(|r| r.flag("nontype_tparams")));
        let via = match k {
            "ResolvedTypeRef" => rec.and_then(|r| r.num("inner")).map(|x| x.to_string()),
            "TemplateInstantiation" => rec.and_then(|r| r.num("def")).map(|x| x.to_string()),
            _ => None,
        };
        let inst = if k == "TemplateInstantiation" {
            let args: Vec<String> = rec.map(|r| r.ids("args")).unwrap_or_default().iter().map(|a| d.item(*a).map(|x| x.name.clone()).unwrap_or_default()).collect();
            Some(format!("{}<{}>", it.name, args.join(", ")))
        } else {
            None
        };
        items.push(format!(
            "{}:{}:{}:{}:{}:{}:{}:{}:{}",
            it.id,
            class_of(it),
            u8::from(it.hide),
            u8::from(it.ann_opaque),
            it.file.as_deref().map_or_else(|| "-".to_owned(), am::hex),
            am::hex(&it.name),
            u8::from(selfop),
            via.unwrap_or_else(|| "-".into()),
            inst.map_or_else(|| "-".to_owned(), |s| am::hex(&s)),
        ));
    }
    format!(
        "blk items bt={} bf={} bv={} bi={} bfile={} ot={} items={}",
        set_field(&c.block.types),
        set_field(&c.block.functions),
        set_field(&c.block.vars),
        set_field(&c.block.items),
        set_field(&c.block.files),
        set_field(&c.opaque_pats),
        items.join(";")
    )
}

struct Pending {
    request: String,
    impl_blocked: BTreeSet<u64>,
    impl_opaque: BTreeSet<u64>,
    input: String,
    n_items: usize,
}

fn parse_ids(v: &str) -> BTreeSet<u64> {
    if v == "-" { BTreeSet::new() } else { v.split(',').filter_map(|x| x.parse().ok()).collect() }
}

fn check_flags(pending: &[Pending], st: &mut Stats, fails: &mut Vec<Failure>) {
    if pending.is_empty() {
        return;
    }
    let reqs: Vec<String> = pending.iter().map(|p| p.request.clone()).collect();
    let ans = util::model(&reqs);
    for (p, a) in pending.iter().zip(ans.iter()) {
        let mut blocked = None;
        let mut opaque = None;
        for t in a.split(' ') {
            if let Some(v) = t.strip_prefix("blocked=") {
                blocked = Some(parse_ids(v));
            } else if let Some(v) = t.strip_prefix("opaque=") {
                opaque = Some(parse_ids(v));
            }
        }
        let (Some(b), Some(o)) = (blocked, opaque) else {
            if a.starts_with("unsupported-pattern") {
                continue;
            }
            fails.push(Failure { kind: "correspondence", detail: format!("model driver answered `{a}`"), input: p.input.clone() });
            continue;
        };
        st.flags_compared += 1;
        st.flag_items += p.n_items as u64;
        st.blocked_items += p.impl_blocked.len() as u64;
        st.opaque_items += p.impl_opaque.len() as u64;
        if b != p.impl_blocked || o != p.impl_opaque {
            fails.push(Failure {
                kind: "correspondence",
                detail: format!(
                    "is_blocklisted: only-model {:?} only-impl {:?}; is_opaque: only-model {:?} only-impl {:?}",
                    b.difference(&p.impl_blocked).take(8).collect::<Vec<_>>(),
                    p.impl_blocked.difference(&b).take(8).collect::<Vec<_>>(),
                    o.difference(&p.impl_opaque).take(8).collect::<Vec<_>>(),
                    p.impl_opaque.difference(&o).take(8).collect::<Vec<_>>()
                ),
                input: p.input.clone(),
            });
        } else {
            st.distinct_flag_sets.insert((b.into_iter().collect(), o.into_iter().collect()));
        }
    }
}

fn strip_derives(text: &str) -> String {
    // remove `# [derive (...)]` groups
    let mut out = String::new();
    let mut rest = text;
    while let Some(i) = rest.find("# [derive (") {
        out.push_str(&rest[..i]);
        let tail = &rest[i..];
        match tail.find(")]") {
            Some(j) => rest = &tail[j + 2..],
            None => {
                rest = "";
            }
        }
    }
    out.push_str(rest);
    out.split_whitespace().collect::<Vec<_>>().join(" ")
}

/// struct field list `name : type` from a leaf's token text
fn struct_fields(leaf_text: &str) -> Vec<(String, String)> {
    let Ok(item) = syn::parse_str::<syn::Item>(leaf_text) else { return vec![] };
    use quote::ToTokens;
    match item {
        syn::Item::Struct(s) => s.fields.iter().map(|f| (f.ident.as_ref().map(|i| i.to_string()).unwrap_or_default(), f.ty.to_token_stream().to_string())).collect(),
        syn::Item::Union(s) => s.fields.named.iter().map(|f| (f.ident.as_ref().map(|i| i.to_string()).unwrap_or_default(), f.ty.to_token_stream().to_string())).collect(),
        _ => vec![],
    }
}

fn repr_align_of(leaf_text: &str) -> Option<u64> {
    let t = nospace(leaf_text);
    let i = t.find("#[repr(align(")?;
    let rest = &t[i + "#[repr(align(".len()..];
    let n = rest.find(')')?;
    rest[..n].parse().ok()
}

struct BlobCheck {
    request_blob: String,
    request_struct: String,
    got_ty: String,
    got_align_attr: Option<u64>,
    has_align_field: bool,
    what: String,
    input: String,
    layout: (u64, u64),
}

#[allow(clippy::too_many_arguments)]
fn oracles(
    c: &Case,
    run: &RunOut,
    full: &RunOut,
    st: &mut Stats,
    fails: &mut Vec<Failure>,
    blob_checks: &mut Vec<BlobCheck>,
    rustc_queue: &mut Vec<(String, String, String)>,
    probe_queue: &mut Vec<(Vec<(String, String)>, String, String, bool, String)>,
) {
    let p = &c.prog;
    let map = p.token_map();
    let leaves = match inventory::parse(&run.bindings) {
        Ok(l) => l,
        Err(e) => {
            fails.push(Failure { kind: "oracle-compile", detail: format!("bindings do not parse: {e}"), input: case_json(c) });
            return;
        }
    };
    let full_leaves = inventory::parse(&full.bindings).unwrap_or_default();
    let rust_name = |i: usize| -> String { p.path(i).replace("::", "_") };
    let blocked_names: BTreeSet<String> = c.blocked.iter().map(|&i| if c.namespaces_on { p.decls[i].base.clone() } else { rust_name(i) }).collect();

    // ---- never_defined: no item defines a blocklisted name
    st.never_defined_checked += 1;
    for l in &leaves {
        if matches!(l.kind, "impl" | "use" | "other") {
            continue;
        }
        if let Some(n) = &l.name {
            if blocked_names.contains(n) {
                // a module-qualified homonym in another namespace is a different item
                let decl_hit = c.blocked.iter().any(|&i| {
                    let want_mod = match (c.namespaces_on, p.decls[i].ns) {
                        (true, Some(ns)) => format!("root::{}", p.namespaces[ns]),
                        (true, None) => "root".to_owned(),
                        _ => String::new(),
                    };
                    (if c.namespaces_on { p.decls[i].base.clone() } else { rust_name(i) }) == *n && (!c.namespaces_on || l.module == want_mod)
                });
                if decl_hit {
                    fails.push(Failure { kind: "oracle-never-defined", detail: format!("blocklisted `{n}` is defined in the bindings as a {}: {}", l.kind, &l.text[..l.text.len().min(300)]), input: case_json(c) });
                    return;
                }
            }
        }
    }

    // ---- still named: an emitted declaration that uses a blocklisted type names it (by the Rust name the user is to define)
    {
        let ident_in = |text: &str, name: &str| -> bool {
            let b = text.as_bytes();
            let mut from = 0;
            while let Some(k) = text[from..].find(name) {
                let s0 = from + k; let e0 = s0 + name.len();
                let before = s0 == 0 || !(b[s0 - 1].is_ascii_alphanumeric() || b[s0 - 1] == b'_');
                let after = e0 >= b.len() || !(b[e0].is_ascii_alphanumeric() || b[e0] == b'_');
                if before && after { return true; }
                from = e0;
            }
            false
        };
        for (u, du) in p.decls.iter().enumerate() {
            // (an opaque pattern turns whatever it matches into a blob — also a typedef — which names nothing)
            if c.blocked.contains(&u) || c.opaque.contains(&u) || matches!(du.kind, DKind::Template) || am::set_matches(&c.opaque_pats, &p.path(u)) { continue; }
            let uname = if c.namespaces_on { du.base.clone() } else { rust_name(u) };
            // the emitted definition(s) of `u`
            let texts: Vec<&str> = leaves.iter().filter(|l| !matches!(l.kind, "impl" | "use" | "other") && l.name.as_deref() == Some(uname.as_str())).map(|l| l.text.as_str()).collect();
            if texts.is_empty() { continue; }
            for &b in &du.deps {
                if !c.blocked.contains(&b) || !p.decls[b].kind.is_type() || matches!(p.decls[b].kind, DKind::Template) { continue; }
                // only uses written in `u`'s own declaration as a base class or a data member (the dependency relation is
                // transitive through typedefs; methods and function-pointer members are items / types of their own)
                // (a use inside a template argument list is a use by the instantiation, which may itself be opaque or blocklisted)
                let member_text: String = if matches!(du.kind, DKind::Struct | DKind::Union | DKind::Class) {
                    du.text.lines().enumerate().filter(|(k, l)| *k == 0 || (!l.contains('(') && !l.contains('<'))).map(|(_, l)| l).collect::<Vec<_>>().join("\n")
                } else if du.text.contains('<') { String::new() } else { du.text.clone() };
                if !ident_in(&member_text, &p.decls[b].base) { continue; }
                let bname = if c.namespaces_on { p.decls[b].base.clone() } else { rust_name(b) };
                st.bump("still-named-checked");
                if texts.iter().any(|t| ident_in(t, &bname)) { continue; }
                // region of known finding `blocklisted_base_not_named` (input-defined): the use is a base-class specifier
                let as_base = du.text.contains(&format!(": public {}", p.type_ref(b))) || du.text.contains(&format!(": {} {{", p.type_ref(b))) || du.text.contains(&format!(": public {} ", p.decls[b].base));
                let elsewhere = { let t = member_text.replacen(&format!(": public {}", p.type_ref(b)), "", 1).replacen(&format!(": {} {{", p.type_ref(b)), " {", 1); ident_in(&t, &p.decls[b].base) };
                if as_base && !elsewhere {
                    st.known("blocklisted_base_not_named", format!("`{}` derives from the blocklisted `{}`; the emitted `{uname}` does not name `{bname}` (the base is replaced by padding); flags {:?}", p.path(u), p.path(b), c.flags));
                    continue;
                }
                fails.push(Failure { kind: "oracle-still-named", detail: format!("`{}` uses the blocklisted type `{}` but the emitted `{uname}` does not name `{bname}`: {}", p.path(u), p.path(b), &texts[0][..texts[0].len().min(300)]), input: case_json(c) });
                return;
            }
        }
    }

    // ---- never_defined, nested: a named record declared inside a record of a blocklisted *file* is in that file too
    if !c.block.files.is_empty() {
        for &i in &c.blocked {
            let d = &p.decls[i];
            let nested = format!("{}_In", d.base);
            if d.file == 1 && d.text.contains(&format!("struct {nested} ")) {
                st.bump("nested-in-blocklisted-file");
                if let Some(l) = leaves.iter().find(|l| !matches!(l.kind, "impl" | "use" | "other") && l.name.as_deref().is_some_and(|n| n == nested || n.ends_with(&format!("_{nested}")))) {
                    fails.push(Failure { kind: "oracle-never-defined", detail: format!("`{nested}` is declared (inside `{}`) in a blocklisted file and is defined in the bindings as a {}: {}", d.base, l.kind, &l.text[..l.text.len().min(300)]), input: case_json(c) });
                    return;
                }
            }
        }
    }

    // ---- others_unchanged: every other non-impl item occurs in the un-blocklisted bindings, modulo derives
    st.others_checked += 1;
    let full_norm: BTreeSet<String> = full_leaves.iter().map(|l| strip_derives(&l.text)).collect();
    let mut touched: BTreeSet<usize> = c.blocked.union(&c.opaque).copied().collect();
    let mut unselected: Vec<String> = vec![];
    // items the implementation itself regards as blocklisted / opaque (a typedef of an annotated type
    // inherits the annotation; instantiations and aliases follow their definition)
    for it in &run.dump.items {
        // (a reference to a type is an item of its own, named after the type but living in the namespace that
        // mentions it: `ns::.*` legitimately matches the reference `ns::S` to a global `S`; only the declarations
        // themselves are judged here)
        let is_decl = it.kind != "type" || it.type_kind.as_deref().is_some_and(|k| matches!(k, "Comp" | "Enum" | "Alias" | "TemplateAlias" | "TemplateInstantiation"));
        if (it.blocklisted || it.opaque) && it.kind != "module" && is_decl {
            if let Some(d) = it.name.split("::").find_map(|comp| p.resolve_ident(&map, comp)) {
                if !touched.contains(&d) {
                    // inheritance is legitimate for a typedef / template whose definition uses a selected declaration;
                    // a record, enum, function or variable that no option, annotation or file pattern selects must
                    // not be regarded as blocklisted / opaque (judged on the generator's own selection, not on what
                    // the implementation under test says)
                    // (a record, enum, function or variable is never blocklisted / opaque because of what it uses or derives from)
                    let inherits = matches!(p.decls[d].kind, DKind::Typedef | DKind::Template);
                    if inherits || it.name.contains('<') {
                        touched.insert(d);
                        st.bump("touched-by-inheritance");
                    } else if !it.blocklisted && !matches!(p.decls[d].kind, DKind::Struct | DKind::Union | DKind::Class) {
                        // an opaque pattern over a namespace also flags functions and variables: without effect
                        touched.insert(d);
                    } else if !unselected.contains(&p.path(d)) {
                        unselected.push(p.path(d));
                    }
                }
            }
        }
    }
    if !unselected.is_empty() {
        fails.push(Failure { kind: "oracle-unselected-item", detail: format!("the implementation treats {:?} as blocklisted / opaque although no pattern, annotation or file option selects them (flags {:?})", unselected, c.flags), input: case_json(c) });
        return;
    }
    // declarations that (transitively) use a touched one may legitimately change their derives, their
    // union representation and their manual impls; their layout is checked by the compiler below
    let depends_on_touched = |d: usize| -> bool { p.closure(&[d].into_iter().collect()).iter().any(|x| touched.contains(x)) };
    for l in &leaves {
        if l.kind == "impl" {
            continue;
        }
        let owner = l.name.as_ref().and_then(|n| p.resolve_ident(&map, n));
        if owner.is_some_and(|o| depends_on_touched(o)) {
            continue;
        }
        // layout-test consts mention their type by name
        if l.name.is_none() && inventory::idents_in(&l.text).iter().any(|id| p.resolve_ident(&map, id).is_some_and(|d| depends_on_touched(d))) {
            continue;
        }
        if l.text.contains("__BindgenOpaqueArray") || l.text.contains("__BindgenUnionField") {
            continue;
        }
        st.others_items += 1;
        if !full_norm.contains(&strip_derives(&l.text)) {
            // known finding: a namespace first opened in a blocklisted file (nothing to compare)
            fails.push(Failure { kind: "oracle-others-unchanged", detail: format!("item differs from the bindings generated without blocklist/opaque options (beyond its derives): {}", &l.text[..l.text.len().min(500)]), input: case_json(c) });
            return;
        }
    }
    // an un-touched declaration that the full run defines must still be defined (unless it only
    // disappears with its blocklisted namespace: known finding, reported by C09)
    let mut ns_finding_hit = false;
    let defined_now: BTreeSet<usize> = leaves.iter().filter_map(|l| l.name.as_ref().and_then(|n| p.resolve_ident(&map, n))).collect();
    for l in &full_leaves {
        if l.kind == "impl" {
            continue;
        }
        if let Some(o) = l.name.as_ref().and_then(|n| p.resolve_ident(&map, n)) {
            // (an opaque type that is not blocklisted is still defined — as a blob — so it counts too)
            if (!touched.contains(&o) || (c.opaque.contains(&o) && !c.blocked.contains(&o))) && !defined_now.contains(&o) {
                let ns_blocked = p.decls[o].ns.is_some_and(|ns| {
                    let full_ns = &p.namespaces[ns];
                    run.dump.items.iter().any(|it| it.kind == "module" && it.blocklisted && (full_ns == &it.name || full_ns.starts_with(&format!("{}::", it.name))))
                });
                let by_item_pattern = p.decls[o].ns.is_some_and(|ns| {
                    let comps: Vec<&str> = p.namespaces[ns].split("::").collect();
                    (1..=comps.len()).any(|k| am::set_matches(&c.block.items, &comps[..k].join("::")))
                });
                if by_item_pattern {
                    continue;
                }
                if ns_blocked {
                    ns_finding_hit = true;
                    st.known("blocklist_file_hides_namespace", format!("{} disappears although it is neither blocklisted nor in a blocklisted file; flags {:?}", p.path(o), c.flags));
                    continue;
                }
                // a member of a blocklisted class (method, inner type) goes with it
                fails.push(Failure { kind: "oracle-others-unchanged", detail: format!("declaration {} is no longer generated although it is not blocklisted (item `{}`)", p.path(o), l.name.clone().unwrap_or_default()), input: case_json(c) });
                return;
            }
        }
    }

    // ---- opaque structs: exactly the blob (+ alignment / phantom / address helpers), no accessors
    let mut probe_types: Vec<(String, String)> = vec![];
    for &i in &c.opaque {
        let want = if c.namespaces_on { p.decls[i].base.clone() } else { rust_name(i) };
        let Some(leaf) = leaves.iter().find(|l| matches!(l.kind, "struct" | "union") && l.name.as_deref() == Some(&want)) else { continue };
        // the IR item
        let Some(it) = run.dump.items.iter().find(|it| it.kind == "type" && it.type_kind.as_deref() == Some("Comp") && it.name == p.path(i)) else { continue };
        if !it.opaque {
            fails.push(Failure { kind: "oracle-opaque", detail: format!("{} was marked opaque (option or annotation) but is_opaque is false", p.path(i)), input: case_json(c) });
            return;
        }
        st.opaque_struct_checked += 1;
        let fields = struct_fields(&leaf.text);
        let allowed = |n: &str| n == "_bindgen_opaque_blob" || n == "_bindgen_align" || n.starts_with("_phantom_") || n == "_address";
        if let Some((bad, _)) = fields.iter().find(|(n, _)| !allowed(n)) {
            fails.push(Failure { kind: "oracle-opaque", detail: format!("opaque type {} exposes field `{bad}`", p.path(i)), input: case_json(c) });
            return;
        }
        // no bit-field accessors / field accessors in impl blocks of that type
        for im in leaves.iter().filter(|l| l.kind == "impl" && l.name.as_deref() == Some(&want)) {
            if let Some(m) = im.members.iter().find(|m| m.starts_with("set_") || m.ends_with("_raw") || m.starts_with("new_bitfield")) {
                fails.push(Failure { kind: "oracle-opaque", detail: format!("opaque type {} has accessor `{m}`", p.path(i)), input: case_json(c) });
                return;
            }
        }
        if let (Some((size, align)), Some((_, ty))) = (it.layout, fields.iter().find(|(n, _)| n == "_bindgen_opaque_blob")) {
            let has_bf = it.type_rec.as_ref().is_some_and(|r| r.flag("has_bitfields"));
            blob_checks.push(BlobCheck {
                request_blob: format!("blk blob {size} {align} 0 {}", u8::from(c.namespaces_on)),
                request_struct: format!("blk struct {size} {align} {}", u8::from(has_bf)),
                got_ty: nospace(ty),
                got_align_attr: repr_align_of(&leaf.text),
                has_align_field: fields.iter().any(|(n, _)| n == "_bindgen_align"),
                what: p.path(i),
                input: case_json(c),
                layout: (size, align),
            });
            if !p.decls[i].c_ref.is_empty() && !c.namespaces_on {
                probe_types.push((want.clone(), if p.cxx { p.path(i) } else { p.decls[i].c_ref.clone() }));
            }
        }
    }
    if !probe_types.is_empty() {
        probe_queue.push((probe_types, run.bindings.clone(), format!("#include \"inc.h\"\n{}", c.main_h.replacen("#include \"inc.h\"\n", "", 1)), p.cxx, case_json(c)));
    }

    // ---- still named + container layouts + no derive through blocklisted: compile with user definitions
    // (when the known finding hides un-blocklisted declarations, their uses name types the user was never
    // told to define: reported above, nothing to compile)
    // ---- opaque types only: the bindings (with their own layout assertions, which speak about the containers of the opaque
    //      types too) compile as they are
    if c.blocked.is_empty() && !c.opaque.is_empty() {
        rustc_queue.push((format!("{}{}", region_heads(c, run), run.bindings), full.bindings.clone(), case_json(c)));
    }
    if !c.namespaces_on && !c.blocked.is_empty() && !ns_finding_hit {
        let mut raw = String::new();
        let mut ok = true;
        let mut done: BTreeSet<String> = BTreeSet::new();
        // the user supplies a definition of the C size/alignment (no derives) for every named type the
        // implementation regards as blocklisted (a typedef of a `hide`-annotated type inherits the
        // annotation, so it is the user's to define as well)
        for it in &run.dump.items {
            if it.kind != "type" || !it.blocklisted {
                continue;
            }
            let k = it.type_kind.as_deref().unwrap_or("");
            if !matches!(k, "Comp" | "Enum" | "Alias") || it.type_name.is_none() || it.name.contains('<') {
                continue;
            }
            let name = it.name.replace("::", "_");
            if !done.insert(name.clone()) {
                continue;
            }
            // a blocklisted typedef of a scalar type: the user's definition is an alias of the same scalar (an
            // initialised constant of that type is emitted as `pub const V: T = 37;`, which a blob would not accept)
            const SCALARS: &[(&str, &str)] = &[("int", "::std::os::raw::c_int"), ("char", "::std::os::raw::c_char"), ("unsigned long", "::std::os::raw::c_ulong"),
                ("double", "f64"), ("short", "::std::os::raw::c_short"), ("unsigned char", "::std::os::raw::c_uchar"), ("float", "f32"), ("long long", "::std::os::raw::c_longlong")];
            let scalar = if k == "Alias" {
                (0..p.decls.len()).find(|&i| p.decls[i].kind == DKind::Typedef && p.path(i) == it.name)
                    .and_then(|i| SCALARS.iter().find(|(c, _)| p.decls[i].text == format!("typedef {c} {};", p.decls[i].base)).map(|(_, r)| *r))
            } else { None };
            if let Some(r) = scalar {
                raw.push_str(&format!("pub type {name} = {r};\n"));
                continue;
            }
            match it.layout {
                Some((s, a)) if a.is_power_of_two() => raw.push_str(&format!("#[repr(C, align({a}))] pub struct {name} {{ _b: [u8; {s}] }}\n")),
                _ => ok = false,
            }
        }
        if ok {
            // region of known finding `derive_through_blocklisted_opaque`
            // … reached through an allow-listed type reference / alias item (the item the analysis asks is the
            // reference, which is opaque and not blocklisted); a container naming the blocklisted item directly
            // is answered by the blocklist test first and is NOT in the region
            rustc_queue.push((format!("{}{raw}\n{}", region_heads(c, run), run.bindings), full.bindings.clone(), case_json(c)));
        }
    }
}

/// input-defined part of the region of `derive_through_blocklisted_opaque`: a record that the options / annotations both blocklist and
/// make opaque, and that another record uses by value as a base class or a data member
fn both_by_value(c: &Case) -> Option<String> {
    let p = &c.prog;
    for &i in &c.blocked {
        let d = &p.decls[i];
        if !matches!(d.kind, DKind::Struct | DKind::Union | DKind::Class) { continue; }
        let opaque_too = c.opaque.contains(&i) || am::set_matches(&c.opaque_pats, &p.path(i)) || d.text.contains("rustbindgen opaque");
        if !opaque_too { continue; }
        let r = p.type_ref(i);
        let used = p.decls.iter().enumerate().any(|(u, du)| u != i && !c.blocked.contains(&u)
            && (du.text.contains(&format!(": public {r}")) || du.text.contains(&format!(": {r} {{")) || du.text.contains(&format!("  {r} m")) || du.text.contains(&format!("{{ {r} m"))));
        if used { return Some(d.base.clone()); }
    }
    None
}

/// all region heads of a case (comment lines in front of the bindings handed to rustc)
fn region_heads(c: &Case, run: &RunOut) -> String {
    let mut h = String::new();
    if let Some(b) = empty_opaque_base(c) { h.push_str(&format!("// empty-opaque-base: {b}\n")); }
    if let Some(b) = both_by_value(c) { h.push_str(&format!("// blocklisted-and-opaque: {b} (used by value)\n")); }
    h.push_str(&both_head(run));
    h
}

/// region of known finding `opaque_empty_base_counted` (input-defined): a C++ record derives from an empty record that the options
/// or an annotation make opaque
fn empty_opaque_base(c: &Case) -> Option<String> {
    let p = &c.prog;
    for i in 0..p.decls.len() {
        let d = &p.decls[i];
        // opaque by the generator's own selection, by an opaque pattern (also when it is blocklisted as well) or by annotation
        if !(c.opaque.contains(&i) || am::set_matches(&c.opaque_pats, &p.path(i)) || d.text.contains("rustbindgen opaque")) { continue; }
        if d.text.trim_end().ends_with(&format!("struct {} {{}};", d.base)) || d.text.contains(&format!("struct {} {{}};", d.base)) {
            if p.decls.iter().any(|u| u.text.contains(&format!(" : {} {{", d.base))) { return Some(d.base.clone()); }
        }
    }
    None
}

/// region head of known finding `derive_through_blocklisted_opaque`: names of the records that are both blocklisted
/// and opaque and are reached through an allow-listed type reference / alias item
fn both_head(run: &RunOut) -> String {
    let both_ids: BTreeSet<u64> = run.dump.items.iter().filter(|it| it.kind == "type" && it.blocklisted && it.opaque && it.type_kind.as_deref() == Some("Comp")).map(|it| it.id).collect();
    let reaches = |start: &am::DumpItem| -> Option<u64> {
        let mut cur = start;
        for _ in 0..32 {
            if !matches!(cur.type_kind.as_deref(), Some("ResolvedTypeRef") | Some("Alias") | Some("TemplateAlias")) { return None; }
            let inner = cur.type_rec.as_ref().and_then(|r| r.num("inner"))?;
            if both_ids.contains(&inner) { return Some(inner); }
            cur = run.dump.item(inner)?;
        }
        None
    };
    let via: BTreeSet<u64> = run.dump.items.iter().filter(|it| it.kind == "type" && it.allowlisted && !it.blocklisted).filter_map(|it| reaches(it)).collect();
    let both: Vec<&str> = run.dump.items.iter().filter(|it| via.contains(&it.id)).map(|it| it.name.as_str()).collect();
    let head = if both.is_empty() { String::new() } else { format!("// blocklisted-and-opaque: {}\n", both.join(", ")) };
    head
}

fn compile_batch(scratch: &Scratch, tag: &str, srcs: &[&str]) -> Result<(), String> {
    let mut s = String::from("#![allow(warnings)]\n");
    for (i, b) in srcs.iter().enumerate() {
        s.push_str(&format!("pub mod c{i} {{\n{b}\n}}\n"));
    }
    drive::rustc_check_lib(scratch, tag, &s, "2021")
}

/// first padding field `__bindgen_padding_N : __BindgenOpaqueArray<A> < [u8 ; K usize] >` with A > 4 not dividing K
fn overaligned_padding(src: &str) -> Option<(u64, u64)> {
    let t = nospace(src);
    let mut rest = t.as_str();
    while let Some(i) = rest.find("__bindgen_padding_") {
        rest = &rest[i + 1..];
        let Some(j) = rest.find("__BindgenOpaqueArray") else { break };
        if j > 40 {
            continue;
        }
        let tail = &rest[j + "__BindgenOpaqueArray".len()..];
        let n = tail.find(|c: char| !c.is_ascii_digit()).unwrap_or(0);
        let Ok(a) = tail[..n].parse::<u64>() else { continue };
        let tail = &tail[n..];
        if let Some(body) = tail.strip_prefix("<[u8;") {
            let m = body.find(|c: char| !c.is_ascii_digit()).unwrap_or(0);
            if let Ok(k) = body[..m].parse::<u64>() {
                if a > 4 && k % a != 0 {
                    return Some((a, k));
                }
            }
        }
    }
    None
}

fn run_rustc(queue: &[(String, String, String)], st: &mut Stats, fails: &mut Vec<Failure>) {
    let scratch = Scratch::new("c10rustc");
    for (bi, chunk) in queue.chunks(40).enumerate() {
        let srcs: Vec<&str> = chunk.iter().map(|x| x.0.as_str()).collect();
        if compile_batch(&scratch, &format!("b{bi}"), &srcs).is_ok() {
            st.rustc_block_compiled += chunk.len() as u64;
            continue;
        }
        for (j, (b, full, input)) in chunk.iter().enumerate() {
            match compile_batch(&scratch, &format!("b{bi}_{j}"), &[b]) {
                Ok(()) => st.rustc_block_compiled += 1,
                Err(e) => {
                    if let Err(fe) = compile_batch(&scratch, &format!("b{bi}_{j}f"), &[full]) {
                        // known finding `blob_padding_overaligned`: a padding field `__BindgenOpaqueArray<A><[u8; K]>`
                        // with A not dividing K (region blobOverAligned), and the compiler reports a layout assertion
                        if let Some((a, k)) = overaligned_padding(full) {
                            let ans = util::model(&[format!("blk blob {k} {a} 0 0")]);
                            let predicted = ans.first().and_then(|l| l.split(' ').nth(1).and_then(|x| x.parse::<u64>().ok()));
                            if fe.contains("E0080") && predicted.is_some_and(|p| p != k) {
                                st.known("blob_padding_overaligned", format!("padding field of {k} bytes emitted as __BindgenOpaqueArray{a}<[u8; {k}]> (size {} by the model and by rustc): the un-blocklisted bindings fail their own layout assertion; input {}", predicted.unwrap_or(0), &input[..input.len().min(1500)]));
                                continue;
                            }
                        }
                        if st.rustc_baseline_broken == 0 {
                            if let Ok(p) = std::env::var("C10_DUMP_BASELINE") {
                                let _ = std::fs::write(&p, format!("// {input}\n{full}"));
                            }
                        }
                        if st.rustc_baseline_broken < 2 {
                            eprintln!("baseline does not compile: {}", fe.lines().filter(|l| l.starts_with("error")).take(3).collect::<Vec<_>>().join(" | "));
                        }
                        st.rustc_baseline_broken += 1;
                    } else if {
                        // every error belongs to a region whose (input-defined / dump-defined) head is present
                        let heads: Vec<&str> = b.lines().take(4).filter(|l| l.starts_with("// ")).collect();
                        let has_empty = heads.iter().any(|l| l.starts_with("// empty-opaque-base"));
                        let has_both = heads.iter().any(|l| l.starts_with("// blocklisted-and-opaque"));
                        let errs: Vec<&str> = e.lines().filter(|l| l.starts_with("error[")).collect();
                        let in_empty = |l: &str| has_empty && l.contains("E0080");
                        let in_both = |l: &str| has_both && (l.contains("E0204") || l.contains("E0740") || l.contains("E0277"));
                        !errs.is_empty() && errs.iter().all(|l| in_empty(l) || in_both(l))
                    } {
                        let heads: Vec<&str> = b.lines().take(4).filter(|l| l.starts_with("// ")).collect();
                        if e.contains("E0080") { st.known("opaque_empty_base_counted", format!("{}; input {}", heads.iter().find(|l| l.starts_with("// empty-opaque-base")).unwrap_or(&""), &input[..input.len().min(1500)])); }
                        if e.contains("E0204") || e.contains("E0740") || e.contains("E0277") { st.known("derive_through_blocklisted_opaque", format!("{}; input {}", heads.iter().find(|l| l.starts_with("// blocklisted-and-opaque")).unwrap_or(&""), &input[..input.len().min(1500)])); }
                    } else {
                        let first: String = e.lines().filter(|l| l.starts_with("error")).take(3).collect::<Vec<_>>().join(" | ");
                        if let Ok(pth) = std::env::var("C10_DUMP_FAIL") { let _ = std::fs::write(&pth, format!("{b}\n/* ERRORS\n{e}\n*/\n")); }
                        fails.push(Failure { kind: "oracle-compile", detail: format!("bindings with blocklisted types do not compile against user-supplied definitions of the C size/alignment (no derives): {first}"), input: input.clone() });
                    }
                }
            }
        }
    }
}

/// size_of/align_of of opaque types (rustc) vs sizeof/_Alignof (clang)
fn run_probes(queue: &[(Vec<(String, String)>, String, String, bool, String)], inc_of: &BTreeMap<String, String>, st: &mut Stats, fails: &mut Vec<Failure>) {
    let scratch = Scratch::new("c10probe");
    for (k, (types, bindings, header, cxx, input)) in queue.iter().enumerate() {
        let mut rs = format!("#![allow(warnings)]\n{bindings}\nfn main() {{\n");
        let mut cs = format!("{header}\n#include <stdio.h>\nint main() {{\n");
        for (r, cty) in types {
            rs.push_str(&format!("  println!(\"{{}} {{}}\", std::mem::size_of::<{r}>(), std::mem::align_of::<{r}>());\n"));
            cs.push_str(&format!("  printf(\"%zu %zu\\n\", sizeof({cty}), (size_t)_Alignof({cty}));\n"));
        }
        rs.push_str("}\n");
        cs.push_str("  return 0;\n}\n");
        std::fs::write(scratch.path("inc.h"), inc_of.get(input).cloned().unwrap_or_default()).unwrap();
        let exe_r = drive::rustc_bin(&scratch, &format!("p{k}"), &rs, &[], &[]);
        let src_name = if *cxx { format!("p{k}.cpp") } else { format!("p{k}.c") };
        std::fs::write(scratch.path(&src_name), &cs).unwrap();
        let exe_c = scratch.path(&format!("p{k}_c"));
        let mut cmd = std::process::Command::new(if *cxx { "clang++" } else { "clang" });
        if *cxx {
            cmd.arg("-std=c++17").arg("-Wno-everything");
        } else {
            cmd.arg("-w");
        }
        cmd.arg(format!("-I{}", scratch.0.display())).arg(scratch.path(&src_name)).arg("-o").arg(&exe_c);
        let (rc, _o, e) = util::run(&mut cmd);
        let (Ok(exe_r), true) = (exe_r, rc == 0) else {
            if rc != 0 {
                eprintln!("probe: clang failed: {}", e.lines().take(3).collect::<Vec<_>>().join(" | "));
            }
            continue;
        };
        let (_, out_r, _) = drive::run_exe(&exe_r);
        let (_, out_c, _) = drive::run_exe(&exe_c);
        for ((lr, lc), (name, _)) in out_r.lines().zip(out_c.lines()).zip(types.iter()) {
            st.probe_types += 1;
            if lr != lc {
                fails.push(Failure { kind: "oracle-opaque-layout", detail: format!("opaque type {name}: Rust size/align = {lr}, C sizeof/_Alignof = {lc}"), input: input.clone() });
                return;
            }
        }
    }
}

fn check_blobs(checks: &[BlobCheck], st: &mut Stats, fails: &mut Vec<Failure>) {
    if checks.is_empty() {
        return;
    }
    let mut reqs = vec![];
    for c in checks {
        reqs.push(c.request_blob.clone());
        reqs.push(c.request_struct.clone());
    }
    let ans = util::model(&reqs);
    for (i, c) in checks.iter().enumerate() {
        let (ab, as_) = (&ans[2 * i], &ans[2 * i + 1]);
        st.blob_compared += 1;
        st.distinct_blobs.insert(c.layout);
        let model_ty = ab.split(' ').next().unwrap_or("");
        if model_ty != c.got_ty {
            fails.push(Failure { kind: "correspondence", detail: format!("{}: layout {:?}: emitted blob type `{}`, model `{ab}`", c.what, c.layout, c.got_ty), input: c.input.clone() });
            continue;
        }
        let sp: Vec<&str> = as_.split(' ').collect();
        // explicit align + by-field flag
        if sp.len() >= 2 {
            let by_field = sp[1] == "1";
            let attr_ok = if by_field { c.got_align_attr.is_none() && c.has_align_field } else { c.got_align_attr == sp[0].parse().ok() };
            if !attr_ok {
                fails.push(Failure { kind: "correspondence", detail: format!("{}: layout {:?}: repr(align) attribute {:?} / _bindgen_align field {} vs model `{as_}`", c.what, c.layout, c.got_align_attr, c.has_align_field), input: c.input.clone() });
                continue;
            }
        }
        // the model's own verdict on exactness for this layout (C10_opaque_exact)
        if sp.len() == 4 {
            let (ms, ma): (u64, u64) = (sp[2].parse().unwrap_or(0), sp[3].parse().unwrap_or(0));
            if (ms, ma) != c.layout {
                fails.push(Failure { kind: "oracle-opaque-layout", detail: format!("{}: C layout {:?} but the emitted opaque struct has (size, align) = ({ms}, {ma}) by rustc's rules", c.what, c.layout), input: c.input.clone() });
            }
        } else {
            fails.push(Failure { kind: "oracle-opaque-layout", detail: format!("{}: C layout {:?}: model says `{as_}`", c.what, c.layout), input: c.input.clone() });
        }
        if st.samples.len() < 3 {
            st.samples.push(format!("{} layout {:?}: blob `{}` repr(align({:?})) == model", c.what, c.layout, c.got_ty, c.got_align_attr));
        }
    }
}

fn single_case(dir: &std::path::Path) -> i32 {
    let rd = |n: &str| std::fs::read_to_string(dir.join(n)).unwrap_or_default();
    let flags: Vec<String> = rd("flags.txt").lines().map(|l| l.to_owned()).filter(|l| !l.is_empty()).collect();
    let cxx = rd("cxx").trim() == "1";
    let prog = Program { cxx, decls: vec![], namespaces: vec![], inc_count: 0 };
    let block = PatternSets::from_flags(&flags, "blocklist");
    let mut opaque_pats = vec![];
    let mut i = 0;
    while i < flags.len() {
        if flags[i] == "--opaque-type" {
            opaque_pats.push(flags[i + 1].clone());
            i += 1;
        }
        i += 1;
    }
    let c = Case { prog, main_h: rd("main.h"), inc_h: rd("inc.h"), flags: flags.clone(), block, opaque_pats, blocked: BTreeSet::new(), opaque: BTreeSet::new(), namespaces_on: flags.iter().any(|f| f == "--enable-cxx-namespaces") };
    let scratch = Scratch::new("c10one");
    match run_bindgen(&scratch, &c, &c.flags, true) {
        Err(e) => {
            println!("generation failed: {e}");
            2
        }
        Ok(run) => {
            let ans = util::model(&[flags_request(&run.dump, &c)]);
            println!("implementation: blocklisted={:?}", run.dump.items.iter().filter(|i| i.blocklisted).map(|i| i.id).collect::<Vec<_>>());
            println!("implementation: opaque={:?}", run.dump.items.iter().filter(|i| i.opaque).map(|i| i.id).collect::<Vec<_>>());
            println!("model: {}", ans.first().cloned().unwrap_or_default());
            for it in &run.dump.items {
                if it.kind != "type" || it.type_kind.as_deref().is_some_and(|k| k == "Comp" || k == "Enum" || k == "Alias") {
                    println!("  item {} {} name={:?} blocklisted={} opaque={} layout={:?}", it.id, it.kind, it.name, it.blocklisted, it.opaque, it.layout);
                }
            }
            println!("--- bindings\n{}", run.bindings);
            0
        }
    }
}

fn main() {
    drive::quiet_panics();
    let args = Args::parse();
    if let Some(pos) = args.extra.iter().position(|a| a == "--case-dir") {
        std::process::exit(single_case(&std::path::PathBuf::from(&args.extra[pos + 1])));
    }
    let thorough = args.thorough();
    let mut rng = Rng::new(args.seed);
    let mut st = Stats::default();
    let mut fails: Vec<Failure> = vec![];
    let (n_graphs, n_sel) = if thorough { (800, 6) } else { (150, 3) };

    let mut r2 = rng.fork();
    forsize(&mut r2, thorough, &mut st, &mut fails);
    spec_vs_rustc(&mut st, &mut fails);

    let scratch = Scratch::new("c10");
    let mut pending = vec![];
    let mut blob_checks = vec![];
    let mut rustc_queue = vec![];
    let mut probe_queue = vec![];
    let mut inc_of: BTreeMap<String, String> = BTreeMap::new();
    for _g in 0..n_graphs {
        st.graphs += 1;
        for _s in 0..n_sel {
            // the first cases of every run: a whole namespace blocklisted, namespaces as modules
            let force = st.runs < 8;
            let c = build_case(&mut rng, force);
            if force { st.bump("forced-whole-namespace-cases"); }
            st.runs += 1;
            st.bump(if c.prog.cxx { "lang:c++" } else { "lang:c" });
            if !c.block.types.is_empty() { st.bump("blocklist-type"); }
            if !c.block.functions.is_empty() { st.bump("blocklist-function"); }
            if !c.block.vars.is_empty() { st.bump("blocklist-var"); }
            if !c.block.items.is_empty() { st.bump("blocklist-item"); }
            if !c.block.files.is_empty() { st.bump("blocklist-file"); }
            if c.main_h.contains("rustbindgen hide") || c.inc_h.contains("rustbindgen hide") { st.bump("annotation-hide"); }
            if c.main_h.contains("rustbindgen opaque") || c.inc_h.contains("rustbindgen opaque") { st.bump("annotation-opaque"); }
            if !c.opaque_pats.is_empty() { st.bump("opaque-type-option"); }
            if c.opaque_pats.iter().any(|p| p.ends_with("::.*")) { st.bump("opaque-namespace-pattern"); }
            if c.namespaces_on { st.bump("enable-cxx-namespaces"); }
            let run = match run_bindgen(&scratch, &c, &c.flags, true) {
                Ok(r) => r,
                Err(e) => {
                    st.gen_failed += 1;
                    if st.gen_failed < 4 {
                        eprintln!("generation failed: {e}");
                    }
                    continue;
                }
            };
            pending.push(Pending {
                request: flags_request(&run.dump, &c),
                impl_blocked: run.dump.items.iter().filter(|i| i.blocklisted).map(|i| i.id).collect(),
                impl_opaque: run.dump.items.iter().filter(|i| i.opaque).map(|i| i.id).collect(),
                input: case_json(&c),
                n_items: run.dump.items.len(),
            });
            // the same header without blocklist / opaque options (annotations stay: strip them)
            let plain = Case {
                prog: c.prog.clone(),
                main_h: c.main_h.replace(OPAQUE_ANNOT, "").replace(HIDE_ANNOT, ""),
                inc_h: c.inc_h.replace(OPAQUE_ANNOT, "").replace(HIDE_ANNOT, ""),
                flags: vec![],
                block: PatternSets::default(),
                opaque_pats: vec![],
                blocked: BTreeSet::new(),
                opaque: BTreeSet::new(),
                namespaces_on: c.namespaces_on,
            };
            let plain_flags: Vec<String> = if c.namespaces_on { vec!["--enable-cxx-namespaces".into()] } else { vec![] };
            if let Ok(full) = run_bindgen(&scratch, &plain, &plain_flags, true) {
                inc_of.insert(case_json(&c), c.inc_h.clone());
                oracles(&c, &run, &full, &mut st, &mut fails, &mut blob_checks, &mut rustc_queue, &mut probe_queue);
                // with namespaces as modules the user supplies the blocklisted definitions through `--module-raw-line`
                // (one trait-less stub of the C size / alignment per blocklisted record, in the module of its namespace);
                // the bindings must compile — also when every generated item of a namespace is blocklisted
                let ns_hidden = run.dump.items.iter().any(|it| it.kind == "module" && it.blocklisted);
                if c.namespaces_on && !c.blocked.is_empty() && !ns_hidden {
                    let mut extra = c.flags.clone();
                    let mut ok = true;
                    let mut done: BTreeSet<String> = BTreeSet::new();
                    for it in &run.dump.items {
                        if it.kind != "type" || !it.blocklisted { continue; }
                        let k = it.type_kind.as_deref().unwrap_or("");
                        if !matches!(k, "Comp" | "Enum" | "Alias") || it.type_name.is_none() || it.name.contains('<') { continue; }
                        if !done.insert(it.name.clone()) { continue; }
                        let mut comps: Vec<&str> = it.name.split("::").collect();
                        let ty = comps.pop().unwrap_or("");
                        // a record nested in a class has no module of its own
                        if comps.iter().any(|cmp| !c.prog.namespaces.iter().any(|n| n.split("::").any(|x| x == *cmp))) { ok = false; break; }
                        let module = std::iter::once("root").chain(comps.iter().copied()).collect::<Vec<_>>().join("::");
                        // a blocklisted typedef of a scalar: the user's definition is an alias of that scalar (see `oracles`)
                        const SCALARS: &[(&str, &str)] = &[("int", "::std::os::raw::c_int"), ("char", "::std::os::raw::c_char"), ("unsigned long", "::std::os::raw::c_ulong"),
                            ("double", "f64"), ("short", "::std::os::raw::c_short"), ("unsigned char", "::std::os::raw::c_uchar"), ("float", "f32"), ("long long", "::std::os::raw::c_longlong")];
                        let scalar = if k == "Alias" {
                            (0..c.prog.decls.len()).find(|&i| c.prog.decls[i].kind == DKind::Typedef && c.prog.path(i) == it.name)
                                .and_then(|i| SCALARS.iter().find(|(ct, _)| c.prog.decls[i].text == format!("typedef {ct} {};", c.prog.decls[i].base)).map(|(_, r)| *r))
                        } else { None };
                        if let Some(r) = scalar {
                            extra.push("--module-raw-line".into()); extra.push(module); extra.push(format!("pub type {ty} = {r};"));
                            continue;
                        }
                        match it.layout {
                            Some((sz, a)) if a.is_power_of_two() => { extra.push("--module-raw-line".into()); extra.push(module); extra.push(format!("#[repr(C, align({a}))] pub struct {ty} {{ _b: [u8; {sz}] }}")); }
                            _ => { ok = false; break; }
                        }
                    }
                    if ok && extra.len() > c.flags.len() {
                        if let Ok(run2) = run_bindgen(&scratch, &c, &extra, false) {
                            st.bump("module-raw-line-stub-runs");
                            rustc_queue.push((format!("{}{}", region_heads(&c, &run), run2.bindings), full.bindings.clone(), case_json(&c)));
                        }
                    }
                }
            }
            if fails.len() > 20 {
                break;
            }
        }
        if pending.len() >= 300 {
            check_flags(&pending, &mut st, &mut fails);
            pending.clear();
            check_blobs(&blob_checks, &mut st, &mut fails);
            blob_checks.clear();
        }
        if rustc_queue.len() >= 400 {
            run_rustc(&rustc_queue, &mut st, &mut fails);
            rustc_queue.clear();
        }
        if fails.len() > 20 {
            break;
        }
    }
    check_flags(&pending, &mut st, &mut fails);
    check_blobs(&blob_checks, &mut st, &mut fails);
    run_rustc(&rustc_queue, &mut st, &mut fails);
    // probes are the expensive part: a bounded sample
    let max_probes = if thorough { 300 } else { 40 };
    let step = (probe_queue.len() / max_probes).max(1);
    let sample: Vec<_> = probe_queue.iter().step_by(step).cloned().collect();
    run_probes(&sample, &inc_of, &mut st, &mut fails);

    let mut o = String::from("{\n");
    let num = |k: &str, v: u64| format!(" {}: {},\n", json_str(k), v);
    o.push_str(&num("forsize_calls", st.forsize_calls));
    o.push_str(&num("spec_types", st.spec_types));
    o.push_str(&num("graphs", st.graphs));
    o.push_str(&num("runs", st.runs));
    o.push_str(&num("gen_failed", st.gen_failed));
    o.push_str(&num("flags_compared", st.flags_compared));
    o.push_str(&num("flag_items", st.flag_items));
    o.push_str(&num("blocked_items", st.blocked_items));
    o.push_str(&num("opaque_items", st.opaque_items));
    o.push_str(&num("distinct_flag_sets", st.distinct_flag_sets.len() as u64));
    o.push_str(&num("blob_compared", st.blob_compared));
    o.push_str(&num("distinct_blob_layouts", st.distinct_blobs.len() as u64));
    o.push_str(&num("never_defined_checked", st.never_defined_checked));
    o.push_str(&num("others_checked", st.others_checked));
    o.push_str(&num("others_items", st.others_items));
    o.push_str(&num("opaque_struct_checked", st.opaque_struct_checked));
    o.push_str(&num("rustc_block_compiled", st.rustc_block_compiled));
    o.push_str(&num("rustc_baseline_broken", st.rustc_baseline_broken));
    o.push_str(&num("probe_types", st.probe_types));
    o.push_str(&format!(" \"blob_layouts\": [{}],\n", st.distinct_blobs.iter().take(60).map(|(s, a)| format!("[{s},{a}]")).collect::<Vec<_>>().join(",")));
    o.push_str(&format!(" \"hist\": {{{}}},\n", st.hist.iter().map(|(k, v)| format!("{}: {}", json_str(k), v)).collect::<Vec<_>>().join(", ")));
    o.push_str(&format!(" \"known\": {{{}}},\n", st.known.iter().map(|(k, (n, w))| format!("{}: {{\"count\": {}, \"witness\": {}}}", json_str(k), n, json_str(w))).collect::<Vec<_>>().join(", ")));
    o.push_str(&format!(" \"samples\": [{}],\n", st.samples.iter().map(|s| json_str(s)).collect::<Vec<_>>().join(", ")));
    o.push_str(&format!(
        " \"failures\": [{}]\n}}\n",
        fails.iter().take(10).map(|f| format!("{{\"kind\":{},\"detail\":{},\"input\":{}}}", json_str(f.kind), json_str(&f.detail), f.input)).collect::<Vec<_>>().join(",\n  ")
    ));
    util::write(&args.out.join("report.json"), &o);
    println!("graphs={} runs={} flags_compared={} blobs={} failures={}", st.graphs, st.runs, st.flags_compared, st.blob_compared, fails.len());
}
