//! C07: recompute every analysis from the dumped IR with the Lean model and compare with what
//! the real analyses produced; look for FIXPOINT-UNSTABLE-CONSULTED; re-ordering experiment.
use bgverif::cppgen::{random_flags, Program};
use bgverif::drive::*;
use bgverif::irdump::parse_log;
use bgverif::rng::Rng;
use bgverif::util::{json_str, model, repo_headers, write, Args};
use std::collections::BTreeMap;

struct Case {
    label: String,
    flags: Vec<String>,
    header_text: Option<String>,
}

#[derive(Default)]
struct Stats {
    evaluations: u64,
    nontrivial: std::collections::BTreeSet<u64>,
    corr_fail: Vec<String>,
    oracle_fail: Vec<String>,
    machinery: Vec<String>,
    unstable_nodes: u64,
    uncovered: BTreeMap<String, u64>,
    sched_dependent: BTreeMap<String, u64>,
    gen_errors: u64,
    gen_panics: u64,
    samples: Vec<String>,
    reorder_pairs: u64,
    facts_nonbot: u64,
    analyses_checked: u64,
}

fn hash64(s: &str) -> u64 {
    let mut h: u64 = 0xcbf29ce484222325;
    for b in s.bytes() {
        h ^= b as u64;
        h = h.wrapping_mul(0x100000001b3);
    }
    h
}

/// run one generation with the log, ask the model, update stats; returns bindings
fn run_case(scratch: &Scratch, idx: usize, case: &Case, seed: u64, st: &mut Stats) -> Option<String> {
    let log_path = scratch.path(&format!("case{idx}.vlog"));
    let mut flags = case.flags.clone();
    if let Some(text) = &case.header_text {
        let h = scratch.path(&format!("case{idx}.hpp"));
        std::fs::write(&h, text).unwrap();
        flags.insert(0, h.to_string_lossy().into_owned());
    }
    let out = generate_with_flags(&flags, Some(&log_path));
    st.evaluations += 1;
    if out.panic.is_some() {
        st.gen_panics += 1;
        return None;
    }
    if out.error.is_some() {
        st.gen_errors += 1;
        return None;
    }
    let log_text = out.log.clone().unwrap_or_default();
    let log = parse_log(&log_text);
    st.unstable_nodes += log.unstable.len() as u64;
    for c in &log.consulted {
        st.oracle_fail.push(format!(
            "{{\"class\":\"fixpoint-unstable-consulted\",\"analysis\":{},\"item\":{},\"label\":{},\"flags\":{},\"header\":{}}}",
            json_str(c.get("analysis")), json_str(c.get("item")), json_str(&case.label),
            json_str(&case.flags.join(" ")), json_str(case.header_text.as_deref().unwrap_or(""))
        ));
    }
    if log.dumps.is_empty() {
        st.machinery.push(format!("no IR dump for {}", case.label));
        return out.bindings;
    }
    // ask the model
    let mut req: Vec<String> = vec!["ir-begin".into()];
    req.extend(log.raw_ir_lines[0].iter().cloned());
    req.push("ir-end".into());
    req.push(format!("irchk {seed}"));
    let ans = model(&req);
    let line = ans.iter().find(|l| l.starts_with("irchk")).cloned().unwrap_or_default();
    if line.is_empty() {
        st.machinery.push(format!("model gave no irchk answer for {}", case.label));
        return out.bindings;
    }
    let nonbot = log.dumps[0].iter().filter(|r| r.tag == "analysis").count() as u64;
    st.facts_nonbot += nonbot;
    if nonbot > 0 {
        st.nontrivial.insert(hash64(&log.raw_ir_lines[0].iter().filter(|l| l.starts_with("type ") || l.starts_with("edge ") || l.starts_with("analysis ")).cloned().collect::<Vec<_>>().join("\n")));
    }
    for tok in line.split(' ').skip(1) {
        let Some((k, v)) = tok.split_once('=') else { continue };
        if k.starts_with("uncovered_") {
            if v != "-" { *st.uncovered.entry(k["uncovered_".len()..].to_owned()).or_default() += 1; }
        } else if k.starts_with("sched_") {
            if v != "ok" {
                *st.sched_dependent.entry(k["sched_".len()..].to_owned()).or_default() += 1;
                // the theorem says: schedule dependence is only possible with uncovered reads
                let unc = line.split(' ').find(|t| t.starts_with(&format!("uncovered_{}=", &k["sched_".len()..]))).unwrap_or("");
                if unc.ends_with("=-") {
                    st.machinery.push(format!("model reports schedule dependence without uncovered reads: {} {}", case.label, tok));
                }
            }
        } else if k.starts_with("sidecond_") {
            // the decidable side conditions of C07_instance_stable / C01_generics_closed on this graph
            if v == "1" { st.analyses_checked += 1; } else {
                st.corr_fail.push(format!(
                    "{{\"class\":\"side-condition\",\"analysis\":{},\"diff\":\"the dependency table of the model's instance does not cover what its rules read\",\"label\":{},\"flags\":{},\"header\":{}}}",
                    json_str(k), json_str(&case.label), json_str(&case.flags.join(" ")), json_str(case.header_text.as_deref().unwrap_or(""))));
            }
        } else if k.starts_with("closed_") || k.starts_with("nodes_") {
        } else if v.starts_with("DIFF") {
            st.corr_fail.push(format!(
                "{{\"class\":\"analysis-recompute\",\"analysis\":{},\"diff\":{},\"label\":{},\"flags\":{},\"header\":{}}}",
                json_str(k), json_str(v), json_str(&case.label), json_str(&case.flags.join(" ")),
                json_str(case.header_text.as_deref().unwrap_or(""))
            ));
        } else if v == "ok" {
            st.analyses_checked += 1;
        }
    }
    if st.samples.len() < 3 && nonbot > 0 {
        st.samples.push(format!("{{\"label\":{},\"flags\":{},\"model\":{}}}", json_str(&case.label), json_str(&case.flags.join(" ")), json_str(&line.chars().take(600).collect::<String>())));
    }
    out.bindings
}

fn main() {
    let args = Args::parse();
    quiet_panics();
    let mut rng = Rng::new(args.seed ^ 0xC07);
    let scratch = Scratch::new("c07");
    let mut st = Stats::default();
    let thorough = args.thorough();

    // pool A: repository headers with their own flags
    let mut headers = repo_headers();
    let want = if thorough { headers.len() } else { 150 };
    // deterministic shuffle
    for i in (1..headers.len()).rev() {
        let j = rng.below(i as u64 + 1) as usize;
        headers.swap(i, j);
    }
    headers.truncate(want);
    let skip = ["issue-2556.h", "issue-848-replacement-system-include.hpp", "operator_equals.hpp"]; // need extra setup / documented callback-requiring options
    let mut idx = 0;
    for (path, flags) in &headers {
        let name = path.file_name().unwrap().to_string_lossy().into_owned();
        if skip.contains(&name.as_str()) { continue; }
        let (pre, post): (Vec<String>, Vec<String>) = match flags.iter().position(|f| f == "--") {
            Some(i) => (flags[..i].to_vec(), flags[i + 1..].to_vec()),
            None => (flags.clone(), vec![]),
        };
        let mut fl = vec![path.to_string_lossy().into_owned()];
        fl.extend(pre);
        fl.push("--".into());
        if name.ends_with(".hpp") { fl.extend(["-x".to_string(), "c++".into(), "-std=c++11".into()]); }
        fl.extend(post);
        fl.push(format!("-I{}", path.parent().unwrap().display()));
        let case = Case { label: name, flags: fl, header_text: None };
        run_case(&scratch, idx, &case, args.seed, &mut st);
        idx += 1;
    }

    // pool K: corpus/C07 — fixed shapes, every flag line one run
    {
        let dir = std::path::Path::new(&std::env::var("VERIF_DIR").unwrap_or_else(|_| "/verif".into())).join("corpus/C07");
        let mut files: Vec<std::path::PathBuf> = std::fs::read_dir(&dir).map(|d| d.filter_map(|e| e.ok()).map(|e| e.path()).filter(|p| p.extension().is_some_and(|e| e == "hpp")).collect()).unwrap_or_default();
        files.sort();
        for f in files {
            let text = std::fs::read_to_string(&f).unwrap_or_default();
            for (k, line) in text.lines().filter_map(|l| l.strip_prefix("// bindgen-flags:")).enumerate() {
                let mut flags: Vec<String> = line.split_whitespace().map(|x| x.trim_matches('"').to_string()).collect();
                flags.push("--".into());
                flags.extend(["-x".to_string(), "c++".into(), "-std=c++14".into()]);
                let case = Case { label: format!("corpus:{}:{k}", f.file_name().unwrap().to_string_lossy()), flags, header_text: Some(text.clone()) };
                run_case(&scratch, idx, &case, args.seed, &mut st);
                idx += 1;
            }
        }
    }

    // pool B: generated declaration graphs, with the re-ordering experiment
    let n_prog = if thorough { 700 } else { 120 };
    for p in 0..n_prog {
        let n_units = 3 + rng.below(10) as usize;
        let prog = Program::generate(&mut rng, n_units);
        let mut flags = random_flags(&mut rng, &prog);
        flags.push("--".into());
        flags.extend(["-x".to_string(), "c++".into(), "-std=c++14".into()]);
        let n_orders = if thorough { 4 } else { 2 };
        let mut inventories: Vec<(Vec<usize>, BTreeMap<String, String>)> = vec![];
        for o in 0..n_orders {
            let order = if o == 0 { prog.natural_order() } else { prog.random_order(&mut rng) };
            let text = prog.emit(&order);
            let case = Case { label: format!("gen{p}/order{o}"), flags: flags.clone(), header_text: Some(text) };
            let b = run_case(&scratch, idx, &case, args.seed, &mut st);
            idx += 1;
            if let Some(b) = b {
                match bgverif::canon::type_inventory(&b) {
                    Ok(inv) => inventories.push((order, inv)),
                    Err(e) => st.machinery.push(format!("syn could not parse bindings of gen{p}: {e}")),
                }
            }
        }
        // declaration order must not change any type's derives / generics / fields
        for k in 1..inventories.len() {
            st.reorder_pairs += 1;
            let (o0, i0) = &inventories[0];
            let (ok, ik) = &inventories[k];
            if i0 != ik {
                let mut diff = vec![];
                for (name, t0) in i0 {
                    match ik.get(name) {
                        Some(tk) if tk == t0 => {}
                        Some(tk) => diff.push(format!("{name}: {} | {}", t0.chars().take(200).collect::<String>(), tk.chars().take(200).collect::<String>())),
                        None => diff.push(format!("{name}: missing in second order")),
                    }
                }
                for name in ik.keys() { if !i0.contains_key(name) { diff.push(format!("{name}: missing in first order")); } }
                st.oracle_fail.push(format!(
                    "{{\"class\":\"declaration-order-dependence\",\"diff\":{},\"flags\":{},\"header_a\":{},\"header_b\":{}}}",
                    json_str(&diff.join(" ;; ").chars().take(1500).collect::<String>()), json_str(&flags.join(" ")),
                    json_str(&prog.emit(o0)), json_str(&prog.emit(ok))
                ));
            }
        }
    }

    let map_json = |m: &BTreeMap<String, u64>| format!("{{{}}}", m.iter().map(|(k, v)| format!("{}:{}", json_str(k), v)).collect::<Vec<_>>().join(","));
    let report = format!(
        "{{\"evaluations\":{},\"distinct_nontrivial\":{},\"analyses_recomputed_equal\":{},\"facts_nonbot\":{},\"reorder_pairs\":{},\"unstable_nodes_logged\":{},\"generation_errors\":{},\"generation_panics\":{},\"uncovered_graphs\":{},\"schedule_dependent_graphs\":{},\"samples\":[{}],\"correspondence_failures\":[{}],\"oracle_failures\":[{}],\"machinery\":[{}]}}",
        st.evaluations, st.nontrivial.len(), st.analyses_checked, st.facts_nonbot, st.reorder_pairs, st.unstable_nodes,
        st.gen_errors, st.gen_panics, map_json(&st.uncovered), map_json(&st.sched_dependent),
        st.samples.join(","), st.corr_fail.iter().take(20).cloned().collect::<Vec<_>>().join(","),
        st.oracle_fail.iter().take(20).cloned().collect::<Vec<_>>().join(","),
        st.machinery.iter().take(20).map(|m| json_str(m)).collect::<Vec<_>>().join(",")
    );
    write(&args.out.join("report.json"), &report);
    println!("evaluations={} corr_fail={} oracle_fail={} machinery={}", st.evaluations, st.corr_fail.len(), st.oracle_fail.len(), st.machinery.len());
}
